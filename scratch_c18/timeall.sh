#!/bin/sh
cd /verif
echo "$@" | tr ' ' '\n' | PYTHONPATH=/verif PYTHONHASHSEED=0 xargs -P 4 -I{} .venv/bin/python scratch_c18/run1.py {} 150
