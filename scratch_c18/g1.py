import sys
sys.path.insert(0,'/verif')
from checks import h_c18 as h
h.setup()
import engine.ch as ch
orig = h.clean_after
def ca():
    print('state', h.local.db_session, h.local.db_context_counter, dict(h.local.db2cache), h.conn.pending, h.conn.in_tx, h.db.provider.transaction_lock.locked(), h.db.provider.pool.held, h.conn.committed)
    return orig()
h.clean_after = ca
print(h.generator(1,1,-1,3,4,1,False))
