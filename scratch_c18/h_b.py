from checks.h_c18 import *
from checks import h_c18 as h
def setup(): h.setup()
def b1(code: int) -> bool:
    """
    pre: 0 <= code <= 6
    post: _
    """
    return h.bottle_route(code, 5)
def b2(code: int, arg: int) -> bool:
    """
    pre: 0 <= code <= 1
    post: _
    """
    return h.bottle_route(code, arg)
