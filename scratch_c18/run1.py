import sys, os, time
sys.path.insert(0,'/verif')
from engine import ch
name = sys.argv[1]; T = float(sys.argv[2]) if len(sys.argv)>2 else 150
twin = len(sys.argv)>3 and sys.argv[3]=='twin'
setup = sys.argv[4] if len(sys.argv)>4 else 'setup'
mod = os.environ.get('HMOD','checks.h_c18')
msgs, dt = ch._analyze(mod, name, T, T/2, twin, setup)
print(name, 'twin' if twin else '', '%.1fs'%dt, [(s, m[:300]) for s,m in msgs])
