import sys, os, multiprocessing as mp
sys.path.insert(0, '/verif')
def job(a):
    m, fn = a
    from engine import ch
    try:
        msgs, dt = ch._analyze('scratch_c18.h_mut', fn, 120, 60, False, m)
        bad = [x for x in msgs if x[0] in ('POST_FAIL','POST_ERR','EXEC_ERR')]
        return m, fn, ('CAUGHT ' + bad[0][1][:110].replace('\n',' ')) if bad else ('NOT caught: %r' % [x[0] for x in msgs]), dt
    except BaseException as e:
        return m, fn, 'ERR %r' % e, 0
if __name__ == '__main__':
    from scratch_c18 import h_mut
    only = sys.argv[1:]
    jobs = [(m, f) for m, fs in h_mut.PLAN.items() for f in fs if not only or m in only]
    with mp.get_context('spawn').Pool(4, maxtasksperchild=1) as p:
        for m, fn, r, dt in p.imap(job, jobs, chunksize=1):
            print('%-36s %-32s %5.1fs %s' % (m, fn, dt, r), flush=True)
