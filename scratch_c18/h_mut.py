"""Canary mutations for C18 (monkey-patches of the imported pony objects; /repo untouched)."""
import inspect, textwrap, sys
from checks.h_c18 import *          # harness functions
from checks import h_c18 as h

def _mut(owner, name, old, new, count=1):
    from pony.orm import core
    f = getattr(owner, name)
    src = textwrap.dedent(inspect.getsource(f))
    assert src.count(old) >= 1, (name, old)
    src = src.replace(old, new)
    ns = {}
    mod = sys.modules[f.__module__]
    exec(compile(src, '<mutant %s>' % name, 'exec'), mod.__dict__, ns)
    setattr(owner, name, ns[name])

def S():
    h.setup()
    return h.core.DBSessionContextManager

def m1_commit_always():
    _mut(S(), '_commit_or_rollback', "can_commit = issubclass(exc_type, tuple(db_session.allowed_exceptions))", "can_commit = True")
def m2_extra_retry():
    _mut(S(), '_wrap_function', "range(db_session.retry+1)", "range(db_session.retry+2)")
def m3_no_rollback_before_retry():
    _mut(S(), '_wrap_function', "                    rollback()\n", "                    pass\n")
def m4_should_retry_ignored():
    _mut(S(), '_wrap_function', "if getattr(exc, 'should_retry', False):", "if False:")
def m5_inner_decorated_commits():
    _mut(S(), '_wrap_function', "            if db_session.sql_debug is None:\n                return func(*args, **kwargs)",
         "            if db_session.sql_debug is None:\n                try: return func(*args, **kwargs)\n                finally: commit()")
def m6_inner_exit_commits():
    _mut(S(), '__exit__', "        if not local.db_context_counter:\n            assert local.db_session is db_session\n", "        if True:\n")
def m7_gen_no_suspend_check():
    _mut(S(), '_wrap_coroutine_or_generator_function', "if cache.modified or cache.in_transaction: throw(TransactionError,", "if False: throw(TransactionError,")
def m7b_gen_no_rollback():
    _mut(S(), '_wrap_coroutine_or_generator_function', "            except:\n                rollback_and_reraise(sys.exc_info())", "            except:\n                raise")
def m8_bottle_httperror_allowed():
    h.setup()
    bp = h.bottle_plugin
    bp.is_allowed_exception = lambda e: isinstance(e, bp.HTTPResponse)
    def apply(self, callback, route): return bp.db_session(allowed_exceptions=bp.is_allowed_exception)(callback)
    bp.PonyPlugin.apply = apply
def m9_allowed_exact_class():
    _mut(S(), '_commit_or_rollback', "issubclass(exc_type, tuple(db_session.allowed_exceptions))", "(exc_type in tuple(db_session.allowed_exceptions))")
def m10_retry_callable_ignored():
    _mut(S(), '_wrap_function', "do_retry = retry_exceptions(exc)", "do_retry = False")
def m11_with_accepts_retry():
    _mut(S(), '__enter__', "if db_session.retry != 0: throw(TypeError,", "if False: throw(TypeError,")
def m12_flask_fixed():
    h.setup()
    pf = h.pony_flask
    def _exit_session(exception):
        session = getattr(pf.request, 'pony_session', None)
        if session is not None:
            session.__exit__(None if exception is None else type(exception), exception)
    pf._exit_session = _exit_session
def m13_allowed_callable_result_ignored():
    _mut(S(), '_commit_or_rollback', "try: can_commit = db_session.allowed_exceptions(exc)", "try: can_commit = bool(db_session.allowed_exceptions(exc)) or True")
def m14_retry_on_any_exception():
    _mut(S(), '_wrap_function', "do_retry = issubclass(exc_type, tuple(retry_exceptions))", "do_retry = True")
def m15_gen_commit_on_exception():
    _mut(S(), '_wrap_coroutine_or_generator_function', "            except:\n                rollback_and_reraise(sys.exc_info())", "            except:\n                commit()\n                rollback_and_reraise(sys.exc_info())")
def m16_last_attempt_swallowed():
    _mut(S(), '_wrap_function', "            reraise(exc_type, exc, tb)\n", "            return None\n")

PLAN = {
 'm1_commit_always': ['context_manager', 'retry_tuple_tuple', 'nested_with', 'bottle_route'],
 'm2_extra_retry': ['retry_tuple_tuple', 'retry_callable_callable', 'retry_default_exceptions'],
 'm3_no_rollback_before_retry': ['retry_tuple_tuple', 'retry_callable_tuple'],
 'm4_should_retry_ignored': ['retry_tuple_tuple', 'retry_default_exceptions'],
 'm5_inner_decorated_commits': ['nested_decorated_in_with', 'nested_decorated_in_decorated', 'flask_request'],
 'm6_inner_exit_commits': ['nested_with'],
 'm7_gen_no_suspend_check': ['generator', 'generator_refusals'],
 'm7b_gen_no_rollback': ['generator'],
 'm8_bottle_httperror_allowed': ['bottle_route'],
 'm9_allowed_exact_class': ['context_manager', 'retry_tuple_tuple'],
 'm10_retry_callable_ignored': ['retry_tuple_callable', 'retry_callable_callable'],
 'm11_with_accepts_retry': ['context_manager_refusals'],
 'm12_flask_fixed': ['flask_request'],
 'm13_allowed_callable_result_ignored': ['context_manager', 'retry_callable_tuple'],
 'm14_retry_on_any_exception': ['retry_tuple_tuple', 'retry_default_exceptions'],
 'm15_gen_commit_on_exception': ['generator'],
 'm16_last_attempt_swallowed': ['retry_tuple_tuple'],
}

def m18_session_not_reset():
    _mut(S(), '_commit_or_rollback', "        local.db_session = None\n", "        pass\n")
def m21_cache_commit_skips_provider_commit():
    S()
    _mut(h.core.SessionCache, 'commit', "if cache.in_transaction:", "if False:")
def m22_rollback_keeps_flushed_raw():
    # sqlite provider rollback does not reach the connection
    S()
    from pony.orm.dbapiprovider import DBAPIProvider
    _mut(DBAPIProvider, 'rollback', "connection.rollback()", "pass")
PLAN.update({'m18_session_not_reset': ['context_manager'], 'm21_cache_commit_skips_provider_commit': ['context_manager', 'generator'],
             'm22_rollback_keeps_flushed_raw': ['context_manager']})
