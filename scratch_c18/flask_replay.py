# C18 concrete tie: scenario 'flask: view raises' on a real in-memory SQLite database
import sys, types
try:
    import flask
except ImportError:          # stand-in: only `flask.request` is used by pony.flask
    flask = types.ModuleType('flask'); flask.request = types.SimpleNamespace(); sys.modules['flask'] = flask

from pony.orm import Database, PrimaryKey, db_session, select, commit
db = Database()
class Row(db.Entity):
    id = PrimaryKey(int)
db.bind('sqlite', ':memory:')
db.generate_mapping(create_tables=True)
from pony.flask import _enter_session, _exit_session
# what Flask does for a request whose view raises an unhandled exception:
_enter_session()                       # before_request
try:
    Row(id=1)
    raise ValueError('view failed')
except ValueError as e:
    error = e
_exit_session(error)                   # teardown_request(exc)

with db_session:
    got = sorted(select(r.id for r in Row))
print('rows committed:', got, 'expected:', [])
sys.exit(0 if got == [] else 1)
