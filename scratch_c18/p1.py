import sys; sys.path.insert(0,'/verif')
from engine import env
from pony.orm import core, Database
from pony.orm.dbproviders.sqlite import SQLiteProvider
from pony.orm.core import db_session, commit, rollback, local
log=[]
class Cur(env.FakeCursor):
    def execute(self, sql, args=None): log.append(('exec', sql, args))
class Con(env.FakeConnection):
    def __init__(self): self._cursor=Cur()
    def commit(self): log.append('commit')
    def rollback(self): log.append('rollback')
class Pool(env.FakePool):
    def __init__(self): self.con=Con()
    def release(self, con): log.append('release')
    def drop(self, con): log.append('drop')
class P(SQLiteProvider):
    json1_available=False
    server_version=(3,35,0)
    def inspect_connection(provider, connection): pass
db = Database()
db._bind(P, ':memory:', pony_pool_mockup=Pool())
try:
    with db_session:
        db.execute("INSERT a")
        log.append('body-end')
except Exception as e:
    import traceback; traceback.print_exc()
print(log); log.clear()
try:
    with db_session:
        db.execute("INSERT a")
        1/0
except Exception as e: print(repr(e))
print(log, local.db2cache, db.provider.transaction_lock.locked() if hasattr(db.provider,'transaction_lock') else None)
