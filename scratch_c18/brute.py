import sys, itertools, inspect, re, time
sys.path.insert(0,'/verif')
from checks import h_c18 as h
h.setup()
R=range
doms = {
 'retry_tuple_tuple': [R(0,4)]+[R(6)]*4+[[0]],
 'retry_callable_callable': [R(0,3)]+[R(6)]*3+[[0]],
 'retry_default_exceptions': [R(0,3)]+[R(4)]*3,
 'context_manager': [R(6),R(4)]+[[False,True]]*4,
 'context_manager_refusals': [R(-1,2),[False,True],[False,True],[0,3]],
 'nested_decorated': [[False,True],R(2),R(4),[0,1,2,3],[False,True],[0,1,3],[False,True]],
 'nested_with': [[False,True],[False,True],R(4),[0,1,2,3],[False,True],[0,1,3],[False,True]],
 'generator': [R(3),R(4),R(-1,3),[1,3],R(5),R(2),[False,True]],
 'generator_refusals': [R(2),[False,True],[False,True]],
 'flask_request': [[0,1,3,2],[False,True],[False,True]],
 'bottle_route': [R(7),[5]],
}
only = sys.argv[1:] 
for name, d in doms.items():
    if only and name not in only: continue
    fn = getattr(h, name)
    pres = [l.strip()[4:].strip() for l in (fn.__doc__ or '').splitlines() if l.strip().startswith('pre:')]
    names = list(inspect.signature(fn).parameters)
    bad=[]; n=0; t=time.time()
    for args in itertools.product(*d):
        env = dict(vars(h)); env.update(zip(names,args))
        if not all(eval(p, env) for p in pres): continue
        n+=1
        try: r = fn(*args)
        except Exception as e:
            import traceback; traceback.print_exc(); r = 'EXC %r'%e
        if r is not True: bad.append((args,r))
    print(name, n, 'cases', len(bad), 'bad', '%.1fs'%(time.time()-t))
    for b in bad[:8]: print('   ', dict(zip(names,b[0])), b[1])
