#!/usr/bin/env python3
"""Regenerate MANIFEST.json from tools/manifest_src.py and validate it against the schema."""
import json, os, sys
here = os.path.dirname(os.path.abspath(__file__)); root = os.path.dirname(here)
sys.path.insert(0, here)
import manifest_src as S
ids = [json.loads(l)['id'] for l in open(os.path.join(root, 'properties.jsonl'))]
checks = []
for pid in ids:
    c = S.CLAIMS.get(pid)
    if not c: continue
    checks.append({
        'property_id': pid,
        'quick_cmd': './check %s --tier quick' % pid,
        'thorough_cmd': './check %s --tier thorough' % pid,
        'evidence_file': 'evidence/%s.json' % pid,
        'replay_cmd_template': './check %s --replay {path}' % pid,
        'engine': c['engine'],
        'level_claimed': {'category': c['level'], 'text': c['text'], 'design_ref': c.get('ref', 'DESIGN.md section 4, ' + pid)},
        'level_note': c['note'],
        'technique': c['technique'],
    })
na = [{'property_id': pid, 'reason': S.NOT_APPLICABLE[pid]} for pid in ids if pid not in S.CLAIMS]
missing = [pid for pid in ids if pid not in S.CLAIMS and pid not in S.NOT_APPLICABLE]
assert not missing, missing
m = {
    'version': 1,
    'setup_cmd': './setup.sh',
    'hooks': {'guard': 'PONY_VERIF', 'enable': 'no hooks inside /repo: all instrumentation is monkey-patching from /verif at check time (guard name reserved, unused)',
              'baseline_off_cmd': 'python3 tools/baseline.py', 'source_commits': [], 'add_only': True},
    'engines': S.ENGINES,
    'checks': checks,
    'notes': S.NOTES,
    'not_applicable': na,
}
json.dump(m, open(os.path.join(root, 'MANIFEST.json'), 'w'), indent=1)
try:
    import jsonschema
    jsonschema.validate(m, json.load(open('/root/.vp/MANIFEST.schema.json')))
    print('MANIFEST.json valid: %d checks, %d not applicable' % (len(checks), len(na)))
except ImportError:
    print('written (jsonschema not importable here)')
