#!/usr/bin/env python3
"""Prompt for a sub-agent that BUILDS a check (not a mutation-seeding agent)."""
import sys
pids = sys.argv[1].split(',')
extra = sys.argv[2] if len(sys.argv) > 2 else ''
print(f"""You are building part of a verification framework in /verif for the Python ORM ponyorm/pony (source in /repo, imported live).
Your job: build the check(s) for propert{'ies' if len(pids) > 1 else 'y'} {', '.join(pids)}.

Read, in this order:
 1. /verif/tools/BUILDING.md  (framework conventions - follow them exactly)
 2. the property text: {', '.join('/tmp/prop_%s.txt' % p for p in pids)}
 3. the design for it: /verif/DESIGN.md, section(s) {', '.join('"### %s"' % p for p in pids)} (grep for the heading) and section 2 "Ground rules"
 4. the model checks /verif/checks/c30.py + /verif/checks/h_c30.py and /verif/checks/c08.py + /verif/checks/h_c08.py + /verif/checks/h_c08_attr.py, and /verif/engine/ch.py, /verif/engine/env.py
 5. the pony code the property is anchored in (the property's "anchors" list the files/functions).

Then write /verif/checks/cNN.py and /verif/checks/h_cNN.py (NN = property number, lower-case c) so that `cd /verif && VERIF_PROCS=4 ./check CNN --tier quick` runs the
real pony code symbolically (CrossHair harnesses with symbolic inputs / symbolic fault index / symbolic option flags, as the design describes), finishes in
about 2 minutes or less of wall time with 16 processes (develop with VERIF_PROCS=4 because other people use the machine at the same time; expect noisy timings), reports every harness as holds
("Confirmed over all paths") on the unchanged tree unless pony genuinely violates the property, and has a thorough tier with larger bounds.
The design text is a plan, not a contract: where something in it turns out infeasible (CrossHair cannot confirm within the budget, a value realises), shrink the bound or
restructure the harness and say so in the module docstring; never count a timeout as success and never weaken an assertion below what the property states.
Detection power matters most: for each harness, convince yourself it would catch a realistic bug by temporarily monkey-patching the imported pony function inside a scratch
script or the harness's `setup` (NEVER edit /repo) — e.g. flip a comparison, drop a branch — and confirm the check reports a counterexample; list those canaries in your final report.

If a harness finds a violation on the unchanged tree, work out whether pony is genuinely wrong (reproduce it with a few lines against the public API) or the harness demands too much
(then fix the harness). For genuine defects: keep the harness strict, return a stable key for them from `classify(spec, cex)`, and describe them in your final report (input, observed vs expected,
the smallest repair you can think of). Do not edit /repo, MANIFEST.json, DESIGN.md, known_findings.json, engine/core.py, engine/ch.py or other checks; do not commit; do not leave files under /tmp that the check needs.
{extra}
Final report (plain text, concise): files written; list of harnesses with what is symbolic, the bound, and measured time; canary mutations tried and whether each was caught;
anything found on the unchanged tree (with a reproduction); what of the design you could not do and why; a one-paragraph text suitable for the MANIFEST level_claimed.text and the bounds/trusted-base note.""")
