#!/usr/bin/env python3
"""Run the repository's pinned test suite (guard OFF) and compare with /root/.vp/BASELINE.json stable_pass."""
import json, os, subprocess, sys, tempfile, xml.etree.ElementTree as ET
base = json.load(open('/root/.vp/BASELINE.json'))
with tempfile.TemporaryDirectory() as d:
    out = os.path.join(d, 'r.xml')
    env = dict(os.environ); env.pop('PONY_VERIF', None)
    cmd = base['cmd'].replace('<file>', out)
    if len(sys.argv) > 1: cmd = cmd.replace('cd /repo', 'cd ' + sys.argv[1])      # another tree (scratch worktree with a seeded change)
    p = subprocess.run(cmd, shell=True, env=env, stdout=subprocess.PIPE, stderr=subprocess.STDOUT, text=True)
    passed = set()
    for tc in ET.parse(out).getroot().iter('testcase'):
        if not any(ch.tag in ('failure', 'error', 'skipped') for ch in tc):
            passed.add('%s::%s' % (tc.get('classname'), tc.get('name')))
stable = set(base['stable_pass'])
missing = sorted(stable - passed)
print('stable_pass=%d passed_now=%d missing=%d' % (len(stable), len(passed), len(missing)))
for m in missing[:40]: print('  NOT PASSING:', m)
if missing: print(p.stdout[-3000:])
sys.exit(1 if missing else 0)
