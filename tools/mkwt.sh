#!/bin/sh
# usage: tools/mkwt.sh NAME  -> creates scratch worktree /tmp/wt_NAME of /repo HEAD
set -e
git -C /repo worktree add --detach /tmp/wt_$1 HEAD >/dev/null 2>&1
echo /tmp/wt_$1
