#!/usr/bin/env python3
"""Print the prompt given to an independent mutation-seeding sub-agent for property ID (argv[1])."""
import json, sys
pid = sys.argv[1]
n = sys.argv[2] if len(sys.argv) > 2 else '3'
prop = None
for l in open('/verif/properties.jsonl'):
    p = json.loads(l)
    if p['id'] == pid: prop = p
text = json.dumps({k: prop[k] for k in ('id', 'title', 'statement', 'quantifier', 'why_tests_cant', 'anchors')}, indent=1)
print(f"""You are helping evaluate a verification effort for the open-source project ponyorm/pony (Pony ORM, a Python ORM). \
You have your own scratch git worktree of the repository at /tmp/wt_{pid} (Python interpreter with all dependencies: /venv/bin/python; \
run things with `cd /tmp/wt_{pid} && PYTHONPATH=/tmp/wt_{pid} /venv/bin/python ...`). Work ONLY inside /tmp/wt_{pid} and /tmp/seed_{pid}. \
Do NOT read or touch /repo or /verif (they are off limits: your work must be independent of them). There is no network.

Here is a semantic property of the code base that is supposed to hold:

{text}

Your task: produce {n} DIFFERENT, independent, realistic changes (bugs) to the pony source code in the worktree, each of which BREAKS this property \
while the code still imports and the existing test suite still passes. Think of the kind of regression a well-meaning maintainer could introduce \
(an off-by-one, a wrong condition, a dropped case, a refactoring that loses an edge case, a cache key that forgets a component, ...). \
Prefer changes that need something specific to manifest (an unusual input value, a boundary, a particular combination of options, a multi-step \
sequence of operations, a fault at a particular point, two cooperating sites that each look fine alone) — NOT ones that ordinary use would expose at once \
and NOT ones that merely raise an exception everywhere. Each change should be small (a few lines) and touch different code from the others. \
Do not edit tests.

For each change k = 1..{n}:
 1. Make the change in the worktree (starting from a clean checkout: `git -C /tmp/wt_{pid} checkout -- .` between changes).
 2. Write a demonstration script /tmp/seed_{pid}/k/demo.py: a small stand-alone program (uses in-memory or temp-file SQLite only; no other database is available) \
that exits 0 when the property holds and exits 1 (printing what went wrong) when it is violated. It must FAIL (exit 1) with your change applied and PASS (exit 0) on the clean checkout. \
The demo is run as `cd <tree> && PYTHONPATH=<tree> /venv/bin/python /tmp/seed_{pid}/k/demo.py`; it must import pony from PYTHONPATH (do not hard-code the worktree path).
 3. Run the existing test suite with the change applied and confirm that it still passes: \
`cd /tmp/wt_{pid} && /venv/bin/python -m pytest -q -p no:cacheprovider --timeout=900 -x -q 2>&1 | tail -5` (takes about 45 s; on the clean tree 3874 pass and exactly 3 tests in test_decompiler fail: test_ast_copy, test_ast_multiline, test_method — those 3 failures are expected and fine; any OTHER failure means your change is not acceptable, pick another one). \
Drop `-x` if the 3 known failures stop the run early.
 4. Save the change as /tmp/seed_{pid}/k/patch.diff (`git -C /tmp/wt_{pid} diff > /tmp/seed_{pid}/k/patch.diff`) and write /tmp/seed_{pid}/k/notes.md: \
which part of the property it breaks, what exactly is needed for it to manifest, and the commands you ran with their outcomes.
 5. Restore the worktree to clean (`git -C /tmp/wt_{pid} checkout -- .`).

Finish with a short report listing, per change, the file/function touched and what is needed to trigger it. Do not commit anything.""")
