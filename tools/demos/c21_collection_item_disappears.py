"""C21 replay: a fully loaded collection that was observed (len) silently loses an item when the item's row is fetched again
after another transaction moved it away.  Exit 1 = the second read differs and no error was raised."""
import sys
sys.path.insert(0, sys.argv[1] if len(sys.argv) > 1 else '/repo')
from pony.orm import Database, PrimaryKey, Optional, Set, db_session, select
from pony.orm.core import UnrepeatableReadError
db = Database()
class G(db.Entity):
    id = PrimaryKey(int)
    items = Set('E')
class E(db.Entity):
    id = PrimaryKey(int)
    g = Optional(G)
db.bind('sqlite', ':memory:')
db.generate_mapping(create_tables=True)
with db_session:
    g7, g8 = G(id=7), G(id=8)
    E(id=1, g=g7)
try:
    with db_session:
        g7 = G[7]
        first = len(g7.items)                                    # the collection is fully loaded and its size observed
        db.execute('UPDATE "E" SET "g" = 8 WHERE "id" = 1')      # stands for another transaction's committed change
        E.select_by_sql('SELECT * FROM "E"')                     # the row is fetched again
        second = len(g7.items)
    print('first read: %r, second read: %r, no error' % (first, second))
    sys.exit(0 if first == second else 1)
except UnrepeatableReadError as e:
    print('UnrepeatableReadError:', e)
    sys.exit(0)
