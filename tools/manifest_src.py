ENGINES = [
 {'name': 'E1-symsql', 'path': 'engine/symsql/', 'serves_properties': ['C01', 'C25'],
  'kind_free_text': 'parser for the SQL text pony emits + denotational semantics over a symbolic database in z3 (per-dialect deltas), compared with a Python-semantics oracle'},
 {'name': 'E2-expreq', 'path': 'engine/expreq.py', 'serves_properties': ['C03', 'C04'],
  'kind_free_text': 'z3 encoding of Python expression semantics; decides whether two expression trees (source vs decompiled / regenerated) can evaluate differently'},
 {'name': 'E3-crosshair', 'path': 'engine/ch.py', 'serves_properties': ['C08', 'C30'],
  'kind_free_text': 'CrossHair (z3-backed symbolic execution of the real Python functions) with reachability twins and untraced replay'},
]
NOTES = ('Solver-based checking of the real code. Every check imports pony from /repo at run time; exit 0 = all obligations '
         'discharged or matched a listed known finding; exit 1 + VIOLATION = reproduced counterexample; exit 2 = harness error. '
         'Inconclusive solver results are printed (INCONCLUSIVE) and counted in evidence, never counted as discharged; VERIF_STRICT=1 makes them exit 2.')
CLAIMS = {
 'C01': dict(engine='E1-symsql', level='translation_validation', technique='z3 query per enumerated program: denotational semantics of the SQL text emitted by the real translator+builder over a symbolic database (row slots, null bits, unbounded ints, z3 sequences) vs a Python/3VL-semantics oracle over the same database; known-finding input regions excluded by assumption and re-queried; replay on real SQLite',
   text='For each enumerated query program (filters, negations, seeded and/or combinations, projections, chained comparisons, None tests, arithmetic, string operations, to-one navigation, collections, aggregates, subqueries, two-variable joins) the real pony translator and SQLite builder produce SQL text; the text is parsed and evaluated over a symbolic database of R rows per table, the source is evaluated under the semantics the property fixes (three-valued comparisons, falsy missing values, Python arithmetic/slicing), and z3 decides that the two row sets are equal for ALL table contents and parameter values within the bound. Every counterexample is replayed on a real SQLite database through pony; every holding program additionally has the SQL model validated against the real engine on a solver-chosen database.',
   note='Bounds: 2 rows per table (thorough 3), strings len<=3 printable ASCII, unbounded ints, programs enumerated from the grammar in checks/c01.py. Trusted: z3, engine/symsql (sqlparse, sqlsem validated against real SQLite per program; pysem = the property\'s stated semantics). Outside: float/Decimal/date, raw_sql, JSON, >2 joined tables, pure-aggregate select lists (pony grand-total semantics), inputs on which Python itself raises.'),
 'C30': dict(engine='E3-crosshair', level='other', technique='CrossHair/z3 symbolic execution of the real adapt_sql / parse_raw_sql / parse_expr with symbolic SQL text and parameter style against a reference statement of the documented rule; two-step histories compared with a cold run; finite template family as concrete obligations',
   text='For symbolic SQL text (len<=3, thorough 4, over the characters the adapter distinguishes) and each of the five parameter styles, CrossHair confirms over all paths that adapt_sql/parse_raw_sql produce the documented substitution ($$ -> $, $expr[;] -> placeholder in order, % doubled for format styles when parameters exist, other text unchanged, compiled expressions evaluate in order) and that a second adaptation does not depend on the first (same and different styles). Calls/subscripts/quoted brackets are covered by a finite concrete template family.',
   note='Trusted: crosshair-tool, z3, reference scanner in checks/h_c30.py. CrossHair path cost (~0.15 s) bounds the text length; regex matching on symbolic text is decided per path. Outside: texts longer than the bound, expression forms outside the template family, evaluation scope lookup (C04).'),
 'C03': dict(engine='E2-expreq', level='translation_validation', technique='z3 equivalence query (ExprEq: Python truthiness/value semantics over Int/uninterpreted functions) between the source AST and the tree the real Decompiler reconstructs from CPython bytecode, per enumerated expression; models replayed with eval',
   text='For every enumerated expression (bounded grammar, depth<=3, 4 names) placed as generator condition, generator element, lambda body, and for multi-clause generators, the running CPython compiles it, the real pony.orm.decompiling.Decompiler reconstructs an AST, and z3 decides whether ANY assignment to the free names makes the reconstructed tree differ from the source tree (truthiness for conditions, value for elements/lambda bodies). A decompiler exception is the allowed rejection.',
   note='Trusted: engine/expreq.py encoding of Python expression semantics (and/or return operands, chained comparisons single-evaluation, uninterpreted attribute/call/subscript), z3, CPython eval for replay. Outside: other CPython versions, depth > bound, await/walrus/starred calls.'),
 'C04': dict(engine='E2-expreq', level='translation_validation', technique='z3 equivalence query (ExprEq) between each external expression and the re-parsed source the real PythonTranslator regenerates, plus a concrete tie through the real extractor pipeline on the solver witness',
   text='For every enumerated external expression (all operator precedence levels, conditional expressions, attribute/call/subscript chains, tuples, f-strings with conversions/specs/braces; depth<=3) the real ast2src regenerates source, CPython re-parses it and z3 decides whether the two trees can evaluate differently for ANY caller-scope values; integer-valued expressions are also pushed through the real query pipeline (decompiler, PreTranslator, create_extractors, extract_vars) and the bound SQL parameter must equal eval(e).',
   note='Trusted: engine/expreq.py, z3, CPython eval. Outside: float repr in postConstant, names shadowing builtins, depth > bound.'),
 'C25': dict(engine='E1-symsql', level='translation_validation', technique='z3 linear integer arithmetic over the parsed SQL text emitted by the real translator+builder per dialect; string abstracted as a window of symbolic length; known-finding regions excluded by assumption and re-queried',
   text='For each (dialect, start kind, stop kind) / (dialect, index kind) the real StringMixin.__getitem__ and the dialect builder emit SQL text; the text is parsed and evaluated symbolically; z3 proves the SQL substring window equals the Python slice window for ALL string lengths and ALL column-valued bounds (constants/parameters enumerated in [-K, K] and None). Counterexamples are replayed on real SQLite; other dialects are model-only.',
   note='Trusted: sqlparse/sqlsem (SQLite substr model compared with the real engine on [-6,6]^3 each run), the cited substr semantics of PostgreSQL/MySQL/Oracle, z3. Outside: K beyond the tier bound, step slices (rejected by pony), collations.'),
 'C08': dict(engine='E3-crosshair', level='other', technique='CrossHair/z3 symbolic execution of the real converter and Attribute.validate code (symbolic declaration options and candidate value) + concrete tie to the four entry points',
   text='For symbolic min/max/size/unsigned/max_len/autostrip and a symbolic candidate, CrossHair confirms over all paths that IntConverter, RealConverter, StrConverter and Attribute/Required.validate accept exactly the values the declared predicate admits and return the documented normalisation; boundary witnesses are then pushed through constructor, assignment, set() and get().',
   note='Bounds: ints unbounded, finite floats (real-number model), strings len<=4 over a 3-char alphabet, six sizes. Error-message formatting is stubbed by a source rewrite regenerated from /repo each run (engine/rewrite.py). Trusted: CrossHair, z3, the reference predicates.'),
}
_HEAP = ('the quantifier is all call histories over the session heap (entity instances, SetData, index dictionaries, undo closures) on a C database driver; '
         'symbolic execution realises every value at the first dict hash or sqlite3 call, so a solver would only enumerate concrete runs; no value-dependent kernel remains (DESIGN.md section 5)')
_TODO = 'claimed in DESIGN.md but its check is not built yet in this round; listed here until the check is registered'
NOT_APPLICABLE = {
 'C09': 'committed state equals program state: ' + _HEAP,
 'C10': 'reads see unflushed changes: ' + _HEAP,
 'C11': 'one object per primary key: identity of heap objects across lookup paths; ' + _HEAP,
 'C12': 'both ends of relationships agree: ' + _HEAP,
 'C14': 'keys never duplicated: needs committed rows of a real backend over histories; ' + _HEAP,
 'C15': 'cascade rules: recursive _delete_ over object graphs plus backend ON DELETE behaviour; ' + _HEAP,
 'C16': 'flush order: depends on save-queue history and backend FK enforcement; ' + _HEAP,
 'C23': 'loading strategy: whole-history differential between strategies; ' + _HEAP,
 'C32': 'detached objects read-only: enumeration of operations x object statuses, no value-dependent decision; ' + _HEAP,
 'C33': 'hooks once per change: call counting over flush rounds driven by arbitrary user hook bodies; ' + _HEAP,
}
for _p in ['C02','C05','C06','C07','C13','C17','C18','C19','C20','C21','C22','C24','C26','C27','C28','C29','C31','C34','C35','C36']:
    NOT_APPLICABLE.setdefault(_p, _TODO)
