#!/usr/bin/env python3
"""Confirm a seeded change and run the property's check against it.

usage: tools/seedtest.py <PID> <src_dir> [--name NAME] [--tier quick] [--skip-suite] [--checks C05,C30]
  <src_dir> holds patch.diff, demo.py, notes.md (written by an independent sub-agent, or by hand).

With --inplace: steps run against /repo itself, restored afterwards with `git checkout -- .` (the way a seeded change is meant
to be tried).  Default: a scratch worktree of /repo's HEAD under /tmp with the patch applied, analysed through the VERIF_REPO
development override of ./check, removed afterwards - so that other work using /repo at the same time is not disturbed.
Steps:
  1. demo on the clean tree must exit 0
  2. apply patch; demo must exit != 0
  3. the pinned test suite must still pass (tools/baseline.py)
  4. run ./check <PID> --tier <tier> (and any extra checks) and record exit code / VIOLATION lines
  5. restore the tree; copy patch/demo/notes into /verif/seeded/<NAME>/ and write meta.json
"""
import argparse, json, os, shutil, subprocess, sys, time

REPO, VERIF = '/repo', '/verif'


def sh(cmd, **kw):
    return subprocess.run(cmd, shell=True, stdout=subprocess.PIPE, stderr=subprocess.STDOUT, text=True, **kw)


def main():
    ap = argparse.ArgumentParser()
    ap.add_argument('pid'); ap.add_argument('src')
    ap.add_argument('--name'); ap.add_argument('--tier', default='quick')
    ap.add_argument('--skip-suite', action='store_true'); ap.add_argument('--checks')
    ap.add_argument('--needs', default='')
    ap.add_argument('--inplace', action='store_true')
    a = ap.parse_args()
    name = a.name or '%s_%s' % (a.pid, os.path.basename(os.path.normpath(a.src)))
    dst = os.path.join(VERIF, 'seeded', name)
    patch = os.path.join(a.src, 'patch.diff'); demo = os.path.join(a.src, 'demo.py')
    assert sh('git -C %s status --porcelain --untracked-files=no' % REPO).stdout.strip() == '', '/repo is dirty'
    meta = {'property': a.pid, 'name': name, 'ran': []}
    env = dict(os.environ, PYTHONPATH=REPO)
    r = sh('cd %s && /venv/bin/python %s' % (REPO, demo), env=env)
    meta['demo_clean_exit'] = r.returncode
    meta['ran'].append('demo on clean /repo -> exit %d' % r.returncode)
    TREE = REPO
    cenv = dict(os.environ)
    if not a.inplace:
        TREE = '/tmp/wt_seedtest_%d' % os.getpid()
        r = sh('git -C %s worktree add --detach %s HEAD' % (REPO, TREE))
        assert r.returncode == 0, r.stdout
        cenv['VERIF_REPO'] = TREE
        meta['ran'].append('scratch worktree of /repo HEAD with the patch applied (VERIF_REPO override)')
    env = dict(os.environ, PYTHONPATH=TREE)
    r = sh('git -C %s apply %s' % (TREE, patch))
    if r.returncode:
        print('patch does not apply:', r.stdout); return 2
    try:
        r = sh('cd %s && /venv/bin/python %s' % (TREE, demo), env=env)
        meta['demo_patched_exit'] = r.returncode
        meta['demo_patched_output'] = r.stdout[-1500:]
        meta['ran'].append('demo with patch -> exit %d' % r.returncode)
        if not a.skip_suite:
            r = sh('python3 %s/tools/baseline.py %s' % (VERIF, TREE))
            meta['suite_with_patch'] = r.stdout.strip().splitlines()[0] if r.stdout.strip() else ''
            meta['suite_ok'] = r.returncode == 0
            meta['ran'].append('pinned test suite with patch -> %s' % meta['suite_with_patch'])
        checks = [a.pid] + [c for c in (a.checks or '').split(',') if c and c != a.pid]
        meta['checks'] = {}
        for c in checks:
            t0 = time.time()
            r = sh('cd %s && ./check %s --tier %s' % (VERIF, c, a.tier), env=cenv)
            viol = [l for l in r.stdout.splitlines() if l.startswith('VIOLATION')]
            meta['checks'][c] = {'tier': a.tier, 'exit': r.returncode, 'violation_lines': viol[:5], 'wall_s': round(time.time() - t0, 1),
                                 'tail': r.stdout.strip().splitlines()[-1:] }
            meta['ran'].append('./check %s --tier %s with patch -> exit %d, %d VIOLATION line(s)' % (c, a.tier, r.returncode, len(viol)))
            print(c, 'exit', r.returncode, viol[:2], r.stdout.strip().splitlines()[-1:])
            if r.returncode not in (0, 1):
                print(r.stdout[-3000:])
    finally:
        if a.inplace: sh('git -C %s checkout -- .' % REPO)
        else: sh('git -C %s worktree remove --force %s' % (REPO, TREE))
        # restore evidence written by the run against the patched tree
        sh('cd %s && git checkout -- evidence' % VERIF)
    meta['detected'] = any(v['exit'] == 1 and v['violation_lines'] for v in meta['checks'].values())
    meta['confirmed'] = meta['demo_clean_exit'] == 0 and meta.get('demo_patched_exit') not in (0, None) and meta.get('suite_ok', a.skip_suite)
    if a.needs: meta['needs'] = a.needs
    os.makedirs(dst, exist_ok=True)
    for f in ('patch.diff', 'demo.py', 'notes.md'):
        p = os.path.join(a.src, f)
        if os.path.exists(p) and os.path.abspath(p) != os.path.abspath(os.path.join(dst, f)): shutil.copy(p, os.path.join(dst, f))
    old = {}
    mp = os.path.join(dst, 'meta.json')
    if os.path.exists(mp):
        old = json.load(open(mp))
        for k in ('needs', 'what', 'suite_with_patch', 'suite_ok', 'missed_at_first', 'note'):
            if k in old and k not in meta: meta[k] = old[k]
        if old.get('detected') is False and meta['detected']: meta['missed_at_first'] = True
    json.dump(meta, open(mp, 'w'), indent=1)
    print(json.dumps({k: meta[k] for k in ('name', 'confirmed', 'detected')}))
    return 0


if __name__ == '__main__':
    sys.exit(main())
