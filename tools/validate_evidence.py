#!/usr/bin/env python3
import json, glob, sys, jsonschema
sch = json.load(open('/root/.vp/EVIDENCE.schema.json'))
bad = 0
for f in sorted(glob.glob('/verif/evidence/*.json')):
    try:
        jsonschema.validate(json.load(open(f)), sch); print('ok  ', f)
    except Exception as e:
        bad += 1; print('BAD ', f, str(e)[:300])
sys.exit(bad)
