"""E3 - CrossHair driver.

A harness is a module-level function in checks/h_*.py with a PEP 316 docstring whose
postcondition is `post: _` (the function returns True when the property holds on the
explored path).  Conventions:

* the harness must end with `return ok(<bool>)` -- `ok` is engine.ch.ok, which in the
  *twin* run (VERIF_TWIN=1) returns False, so the twin must be refuted by CrossHair;
  a twin that is not refuted means the assertion is never reached (vacuous harness).
* only `Exception` may be caught inside a harness.
* replay = calling the harness untraced with the concrete counterexample arguments;
  it reproduces when the call returns falsy or raises.

Each harness x configuration is analysed in its own worker process.
"""
import ast, importlib, multiprocessing as mp, os, re, sys, time, traceback

from .core import Ob, HOLDS, CEX, INCONCLUSIVE

TWIN = os.environ.get('VERIF_TWIN') == '1'


def ok(cond):
    if TWIN:
        return False
    return bool(cond)


_CALL_RE = re.compile(r'when calling (.*)$', re.S)


def parse_call(msg, fn):
    """Extract the counterexample arguments of `fn` from a CrossHair message."""
    m = _CALL_RE.search(msg)
    if not m:
        return None
    text = m.group(1).strip()
    # drop a trailing "(which returns ...)" / "(which raises ...)" annotation
    text = re.sub(r'\s*\(which (returns|raises).*\)\s*$', '', text, flags=re.S)
    try:
        node = ast.parse(text, mode='eval').body
    except SyntaxError:
        return None
    if not isinstance(node, ast.Call):
        return None
    env = dict(fn.__globals__)
    env.update({'float': float, 'nan': float('nan'), 'inf': float('inf')})
    try:
        args = [eval(compile(ast.Expression(a), '<cex>', 'eval'), env) for a in node.args]
        kwargs = {k.arg: eval(compile(ast.Expression(k.value), '<cex>', 'eval'), env) for k in node.keywords}
    except Exception:
        return None
    import inspect
    try:
        bound = inspect.signature(fn).bind(*args, **kwargs)
        bound.apply_defaults()
        return dict(bound.arguments)
    except TypeError:
        return None


def _analyze(modname, fnname, cond_timeout, path_timeout, twin, setup):
    """Runs in a worker process. Returns list of (state, message)."""
    os.environ['VERIF_TWIN'] = '1' if twin else '0'
    global TWIN
    TWIN = twin
    sys.setrecursionlimit(10000)
    from crosshair.core import analyze_function
    from crosshair.core_and_libs import run_checkables
    from crosshair.options import AnalysisOptionSet
    mod = importlib.import_module(modname)
    import engine.ch as me
    me.TWIN = twin
    if setup:
        getattr(mod, setup)()
    fn = getattr(mod, fnname)
    opts = AnalysisOptionSet(per_condition_timeout=cond_timeout, per_path_timeout=path_timeout,
                             report_all=True, max_uninteresting_iterations=10 ** 9)
    t0 = time.time()
    msgs = run_checkables(analyze_function(fn, opts))
    return [(m.state.name, m.message) for m in msgs], time.time() - t0


def _worker(args):
    try:
        return ('ok',) + _analyze(*args)
    except BaseException as e:  # noqa - report anything, including CrossHair internals
        return ('err', traceback.format_exc(), 0.0)


def _replay_worker(args):
    modname, fnname, kwargs, setup = args
    os.environ['VERIF_TWIN'] = '0'
    mod = importlib.import_module(modname)
    import engine.ch as me
    me.TWIN = False
    if setup:
        getattr(mod, setup)()
    fn = getattr(mod, fnname)
    try:
        r = fn(**kwargs)
        return (not r), 'returned %r' % (r,)
    except Exception as e:
        return True, 'raised %s: %s' % (type(e).__name__, e)


def run_harnesses(report, specs, classify=None, procs=None):
    """specs: list of dicts {module, fn, name?, cond_timeout, path_timeout, setup?}.
    Adds one Ob per harness to the report (and checks its reachability twin)."""
    procs = procs or int(os.environ.get('VERIF_PROCS') or min(16, os.cpu_count() or 4))
    jobs = []
    for s in specs:
        for twin in (False, True):
            ct = s.get('cond_timeout', 60) if not twin else min(60, s.get('cond_timeout', 60))
            jobs.append((s['module'], s['fn'], ct, s.get('path_timeout', 20), twin, s.get('setup')))
    ctx = mp.get_context('spawn')
    with ctx.Pool(procs, maxtasksperchild=1) as pool:
        results = pool.map(_worker, jobs, chunksize=1)
        res = {}
        for job, r in zip(jobs, results):
            res[(job[0], job[1], job[4])] = r
        for s in specs:
            name = s.get('name') or '%s.%s' % (s['module'], s['fn'])
            main, twin = res[(s['module'], s['fn'], False)], res[(s['module'], s['fn'], True)]
            mod = importlib.import_module(s['module'])
            fn = getattr(mod, s['fn'])
            if main[0] == 'err':
                report.harness_errors.append('%s: %s' % (name, main[1][-800:]))
                continue
            msgs, dt = main[1], main[2]
            states = [m[0] for m in msgs]
            # reachability twin
            twin_ok = twin[0] == 'ok' and any(st in ('POST_FAIL', 'POST_ERR', 'EXEC_ERR') for st, _ in twin[1])
            bad = [(st, m) for st, m in msgs if st in ('POST_FAIL', 'POST_ERR', 'EXEC_ERR')]
            if bad:
                st, msg = bad[0]
                cex = parse_call(msg, fn)
                reproduced, how = None, ''
                if cex is not None:
                    try:
                        reproduced, how = pool.apply(_replay_worker, ((s['module'], s['fn'], cex, s.get('setup')),))
                    except Exception as e:
                        reproduced, how = False, 'replay crashed: %r' % (e,)
                else:
                    reproduced, how = False, 'could not parse counterexample out of: ' + msg[:300]
                key = None
                if classify and cex is not None:
                    try: key = classify(s, cex)
                    except Exception: key = None
                replay = ('import sys; sys.path.insert(0, %r)\nimport %s as m\n%s'
                          'r = m.%s(**%r)\nprint("harness returned", r)\nsys.exit(0 if r else 1)\n') % (
                    os.path.dirname(os.path.dirname(os.path.abspath(__file__))), s['module'],
                    ('m.%s()\n' % s['setup']) if s.get('setup') else '', s['fn'], cex)
                report.add(Ob(name, 'crosshair', CEX, detail='%s: %s | replay %s' % (st, msg[:500], how), cex=cex,
                              time_s=dt, reproduced=reproduced, key=key, replay=replay))
            elif not twin_ok:
                report.add(Ob(name, 'crosshair', INCONCLUSIVE, time_s=dt,
                              detail='reachability twin was not refuted (vacuous harness?): %r' % (twin[1],)))
            elif states and all(st == 'CONFIRMED' for st in states):
                report.add(Ob(name, 'crosshair', HOLDS, detail='Confirmed over all paths', time_s=dt))
            else:
                report.add(Ob(name, 'crosshair', INCONCLUSIVE, time_s=dt,
                              detail='; '.join('%s: %s' % (st, m[:160]) for st, m in msgs) or 'no conditions found'))
    _restore_process_state()
    return report


def _restore_process_state():
    """classify() functions re-run harnesses in THIS process; they may leave the recording SQLite driver (with armed faults) and
    session state behind, which a concrete tie on a real database run afterwards must not see"""
    try:
        import sqlite3
        from pony.orm.dbproviders import sqlite as ps
        from pony.orm import core
        if type(ps.sqlite).__name__ == 'FakeModule': ps.sqlite = sqlite3
        core.local.db2cache.clear(); core.local.db_session = None; core.local.db_context_counter = 0
    except Exception:
        pass
