"""A small parser for the SQL *text* pony's builders emit (SELECT/UPDATE/DELETE/INSERT subset).

The text is what the database sees, so E1 evaluates the text rather than pony's internal
SQL AST: translator *and* builder are then both inside the checked path.  Operator
precedence follows the dialect's manual (differences that matter: `||` binds tighter than
`*` on SQLite, looser than `+` on PostgreSQL/Oracle, and is logical OR on MySQL unless
PIPES_AS_CONCAT -- pony's MySQL builder emits concat() instead).

Parse tree (tuples):
  ('lit', v) ('null',) ('param', key) ('col', alias|None, name) ('bin', op, a, b) ('neg', a) ('not', a)
  ('and', [..]) ('or', [..]) ('isnull', a, negated) ('in', a, [items]|select, negated)
  ('like', a, pat, esc|None, negated) ('between', a, lo, hi, negated) ('case', operand|None, [(c, v)..], default|None)
  ('func', name, [args], distinct, star) ('exists', select) ('row', [..]) ('cast', a, type) ('select', dict)
"""
import re

KEYWORDS = {
    'select', 'distinct', 'all', 'from', 'where', 'group', 'by', 'having', 'order', 'limit', 'offset', 'as', 'on',
    'left', 'inner', 'join', 'and', 'or', 'not', 'is', 'null', 'in', 'like', 'escape', 'between', 'case', 'when',
    'then', 'else', 'end', 'exists', 'asc', 'desc', 'cast', 'update', 'set', 'delete', 'insert', 'into', 'values',
    'for', 'nowait', 'skip', 'locked', 'union', 'intersect', 'except', 'true', 'false', 'separator', 'returning',
    'default', 'nulls', 'first', 'last', 'row', 'timestamp', 'date', 'interval', 'hour', 'to', 'second', 'mod', 'div',
}


class SQLSyntaxError(Exception):
    pass


class Tok(object):
    __slots__ = ('kind', 'val', 'pos')
    def __init__(self, kind, val, pos): self.kind, self.val, self.pos = kind, val, pos
    def __repr__(self): return '%s:%r' % (self.kind, self.val)


def tokenize(sql, dialect, paramstyle):
    """kinds: kw, id (quoted or bare identifier), str, num, param, op, eof"""
    toks = []
    i, n = 0, len(sql)
    fmt = paramstyle in ('format', 'pyformat')
    qchar = '`' if dialect == 'MySQL' else '"'
    qn = 0
    while i < n:
        c = sql[i]
        if c.isspace():
            i += 1; continue
        if c == "'":
            j = i + 1; buf = []
            while True:
                if j >= n: raise SQLSyntaxError('unterminated string literal at %d in %r' % (i, sql))
                d = sql[j]
                if d == "'":
                    if j + 1 < n and sql[j + 1] == "'":
                        buf.append("'"); j += 2; continue
                    j += 1; break
                if d == '\\' and dialect == 'MySQL':
                    # MySQL (default sql_mode): backslash escapes inside string literals
                    if j + 1 >= n: raise SQLSyntaxError('dangling backslash in MySQL literal')
                    e = sql[j + 1]
                    buf.append({'n': '\n', 't': '\t', 'r': '\r', '0': '\0', 'b': '\b', 'Z': '\x1a'}.get(e, e)); j += 2; continue
                if d == '%' and fmt:
                    if j + 1 < n and sql[j + 1] == '%':
                        buf.append('%'); j += 2; continue
                    raise SQLSyntaxError('single %% inside a literal under paramstyle %s: the driver would treat it as a placeholder' % paramstyle)
                buf.append(d); j += 1
            toks.append(Tok('str', ''.join(buf), i)); i = j; continue
        if c == qchar or c == '"':
            q = c; j = i + 1; buf = []
            while True:
                if j >= n: raise SQLSyntaxError('unterminated quoted identifier')
                d = sql[j]
                if d == q:
                    if j + 1 < n and sql[j + 1] == q:
                        buf.append(q); j += 2; continue
                    j += 1; break
                buf.append(d); j += 1
            toks.append(Tok('id', ''.join(buf), i)); i = j; continue
        if c.isdigit() or (c == '.' and i + 1 < n and sql[i + 1].isdigit()):
            m = re.compile(r'\d*\.?\d*(?:[eE][-+]?\d+)?').match(sql, i)
            text = m.group(0)
            toks.append(Tok('num', float(text) if any(ch in text for ch in '.eE') else int(text), i)); i = m.end(); continue
        if c == '?' and paramstyle == 'qmark':
            toks.append(Tok('param', qn, i)); qn += 1; i += 1; continue
        if c == '%' and fmt:
            if sql.startswith('%%', i):
                toks.append(Tok('op', '%', i)); i += 2; continue
            if sql.startswith('%s', i) and paramstyle == 'format':
                toks.append(Tok('param', qn, i)); qn += 1; i += 2; continue
            m = re.compile(r'%\((\w+)\)s').match(sql, i)
            if m and paramstyle == 'pyformat':
                toks.append(Tok('param', m.group(1), i)); i = m.end(); continue
            raise SQLSyntaxError('stray %% at %d under paramstyle %s' % (i, paramstyle))
        if c == ':' and paramstyle in ('numeric', 'named'):
            m = re.compile(r':(\w+)').match(sql, i)
            if not m: raise SQLSyntaxError('bad placeholder at %d' % i)
            v = m.group(1)
            toks.append(Tok('param', (int(v) - 1) if paramstyle == 'numeric' else v, i)); i = m.end(); continue
        if c == '$' and paramstyle == 'numeric':
            m = re.compile(r'\$(\d+)').match(sql, i)
            toks.append(Tok('param', int(m.group(1)) - 1, i)); i = m.end(); continue
        if c.isalpha() or c == '_':
            m = re.compile(r'[A-Za-z_][A-Za-z_0-9$]*').match(sql, i)
            w = m.group(0)
            if w.lower() in KEYWORDS: toks.append(Tok('kw', w.lower(), i))
            else: toks.append(Tok('id', w, i))
            i = m.end(); continue
        for op in ('<>', '!=', '<=', '>=', '||', '::', '->>', '->', '#>>', '#>', '@>', '<@'):
            if sql.startswith(op, i):
                toks.append(Tok('op', op, i)); i += len(op); break
        else:
            if c in '=<>+-*/%(),.;[]':
                toks.append(Tok('op', c, i)); i += 1
            else:
                raise SQLSyntaxError('unexpected character %r at %d in %r' % (c, i, sql))
    toks.append(Tok('eof', None, n))
    return toks


class Parser(object):
    def __init__(self, sql, dialect, paramstyle):
        self.sql = sql
        self.dialect = dialect
        self.toks = tokenize(sql, dialect, paramstyle)
        self.i = 0
        # binary operator precedence (higher binds tighter)
        self.prec = {'*': 60, '/': 60, '%': 60, '+': 50, '-': 50}
        if dialect == 'SQLite': self.prec['||'] = 70
        elif dialect == 'MySQL': self.prec['||'] = None   # logical OR: never emitted by pony's MySQL builder
        else: self.prec['||'] = 45                         # PostgreSQL / Oracle: below + -, above comparison

    # -- token helpers
    @property
    def t(self): return self.toks[self.i]
    def peek(self, k=1): return self.toks[min(self.i + k, len(self.toks) - 1)]
    def adv(self):
        t = self.toks[self.i]; self.i += 1; return t
    def is_kw(self, *ws): return self.t.kind == 'kw' and self.t.val in ws
    def is_op(self, *os): return self.t.kind == 'op' and self.t.val in os
    def accept_kw(self, *ws):
        if self.is_kw(*ws): return self.adv().val
        return None
    def accept_op(self, *os):
        if self.is_op(*os): return self.adv().val
        return None
    def expect_kw(self, w):
        if not self.is_kw(w): self.fail('expected %s' % w.upper())
        return self.adv()
    def expect_op(self, o):
        if not self.is_op(o): self.fail('expected %r' % o)
        return self.adv()
    def fail(self, msg):
        raise SQLSyntaxError('%s at token %r (pos %d) in %r' % (msg, self.t, self.t.pos, self.sql))

    # -- statements
    def parse_statement(self):
        if self.is_kw('select'): st = self.parse_select()
        elif self.is_kw('update'): st = self.parse_update()
        elif self.is_kw('delete'): st = self.parse_delete()
        elif self.is_kw('insert'): st = self.parse_insert()
        else: self.fail('unsupported statement')
        self.accept_op(';')
        if self.t.kind != 'eof': self.fail('trailing text')
        return st

    def parse_select(self):
        self.expect_kw('select')
        s = {'distinct': False, 'cols': [], 'from': [], 'where': None, 'group': [], 'having': None, 'order': [],
             'limit': None, 'offset': None, 'for_update': None}
        if self.accept_kw('distinct'): s['distinct'] = True
        else: self.accept_kw('all')
        while True:
            if self.is_op('*'):
                self.adv(); s['cols'].append((('star', None), None))
            else:
                e = self.parse_expr()
                alias = None
                if self.accept_kw('as'): alias = self.adv().val
                s['cols'].append((e, alias))
            if not self.accept_op(','): break
        if self.accept_kw('from'):
            s['from'].append(self.parse_source('cross', False))
            while True:
                if self.accept_op(','): s['from'].append(self.parse_source('cross', False))
                elif self.is_kw('left'):
                    self.adv(); self.expect_kw('join'); s['from'].append(self.parse_source('left', True))
                elif self.is_kw('inner'):
                    self.adv(); self.expect_kw('join'); s['from'].append(self.parse_source('inner', True))
                elif self.is_kw('join'):
                    self.adv(); s['from'].append(self.parse_source('inner', True))
                else: break
        if self.accept_kw('where'): s['where'] = self.parse_expr()
        if self.is_kw('group'):
            self.adv(); self.expect_kw('by')
            while True:
                s['group'].append(self.parse_expr())
                if not self.accept_op(','): break
        if self.accept_kw('having'): s['having'] = self.parse_expr()
        if self.is_kw('order'):
            self.adv(); self.expect_kw('by')
            while True:
                e = self.parse_expr(); desc = False
                if self.accept_kw('desc'): desc = True
                else: self.accept_kw('asc')
                nulls = None
                if self.accept_kw('nulls'): nulls = self.adv().val
                s['order'].append((e, desc, nulls))
                if not self.accept_op(','): break
        if self.accept_kw('limit'):
            a = self.parse_expr()
            if self.accept_op(','):        # MySQL: LIMIT offset, count
                s['offset'] = a; s['limit'] = self.parse_expr()
            else:
                s['limit'] = a
                if self.accept_kw('offset'): s['offset'] = self.parse_expr()
        elif self.accept_kw('offset'):
            s['offset'] = self.parse_expr()
        if self.accept_kw('for'):
            self.expect_kw('update'); mode = 'for update'
            if self.accept_kw('nowait'): mode += ' nowait'
            elif self.accept_kw('skip'):
                self.expect_kw('locked'); mode += ' skip locked'
            s['for_update'] = mode
        return ('select', s)

    def parse_source(self, kind, want_on):
        if self.accept_op('('):
            src = self.parse_select(); self.expect_op(')')
        else:
            name = self.parse_table_name()
            src = ('table', name)
        alias = None
        self.accept_kw('as')
        if self.t.kind == 'id': alias = self.adv().val
        on = None
        if want_on and self.accept_kw('on'): on = self.parse_expr()
        if alias is None and src[0] == 'table': alias = src[1]
        return {'kind': kind, 'src': src, 'alias': alias, 'on': on}

    def parse_table_name(self):
        if self.t.kind != 'id': self.fail('expected table name')
        name = self.adv().val
        while self.is_op('.'):
            self.adv(); name = self.adv().val    # schema.table -> table
        return name

    def parse_update(self):
        self.expect_kw('update'); table = self.parse_table_name(); self.expect_kw('set')
        pairs = []
        while True:
            col = self.adv().val; self.expect_op('='); pairs.append((col, self.parse_expr()))
            if not self.accept_op(','): break
        where = self.parse_expr() if self.accept_kw('where') else None
        return ('update', {'table': table, 'set': pairs, 'where': where})

    def parse_delete(self):
        self.expect_kw('delete')
        alias0 = None
        if self.t.kind == 'id' and not self.is_kw('from'): alias0 = self.adv().val   # MySQL: DELETE alias FROM ...
        self.expect_kw('from')
        srcs = [self.parse_source('cross', False)]
        while True:
            if self.accept_op(','): srcs.append(self.parse_source('cross', False))
            elif self.is_kw('left'):
                self.adv(); self.expect_kw('join'); srcs.append(self.parse_source('left', True))
            else: break
        where = self.parse_expr() if self.accept_kw('where') else None
        return ('delete', {'from': srcs, 'where': where, 'alias': alias0})

    def parse_insert(self):
        self.expect_kw('insert'); self.expect_kw('into'); table = self.parse_table_name()
        cols, vals = [], []
        if self.accept_kw('default'):
            self.expect_kw('values')
        else:
            self.expect_op('(')
            if not self.is_op(')'):
                while True:
                    cols.append(self.adv().val)
                    if not self.accept_op(','): break
            self.expect_op(')'); self.expect_kw('values'); self.expect_op('(')
            if not self.is_op(')'):
                while True:
                    vals.append(self.parse_expr())
                    if not self.accept_op(','): break
            self.expect_op(')')
        ret = None
        if self.accept_kw('returning'): ret = self.parse_expr()
        return ('insert', {'table': table, 'cols': cols, 'vals': vals, 'returning': ret})

    # -- expressions: OR < AND < NOT < comparison/IS/IN/LIKE/BETWEEN < additive ...
    def parse_expr(self): return self.parse_or()

    def parse_or(self):
        items = [self.parse_and()]
        while self.accept_kw('or'): items.append(self.parse_and())
        return items[0] if len(items) == 1 else ('or', items)

    def parse_and(self):
        items = [self.parse_not()]
        while self.accept_kw('and'): items.append(self.parse_not())
        return items[0] if len(items) == 1 else ('and', items)

    def parse_not(self):
        if self.is_kw('not') and not (self.peek().kind == 'kw' and self.peek().val == 'exists'):
            self.adv(); return ('not', self.parse_not())
        return self.parse_cmp()

    CMP = ('=', '<>', '!=', '<', '<=', '>', '>=')

    def parse_cmp(self):
        left = self.parse_arith(0)
        while True:
            if self.is_op(*self.CMP):
                op = self.adv().val
                if op == '!=': op = '<>'
                right = self.parse_arith(0)
                left = ('bin', op, left, right); continue
            if self.is_kw('is'):
                self.adv(); neg = bool(self.accept_kw('not'))
                if self.accept_kw('null'): left = ('isnull', left, neg)
                elif self.accept_kw('true'): left = ('istrue', left, neg)
                elif self.accept_kw('false'): left = ('isfalse', left, neg)
                else: self.fail('expected NULL after IS')
                continue
            neg = False
            save = self.i
            if self.is_kw('not'):
                self.adv(); neg = True
                if not self.is_kw('in', 'like', 'between'):
                    self.i = save; break
            if self.accept_kw('in'):
                self.expect_op('(')
                if self.is_kw('select'):
                    sub = self.parse_select(); self.expect_op(')'); left = ('in', left, sub, neg)
                elif self.accept_kw('values'):
                    items = [self.parse_expr()]
                    while self.accept_op(','): items.append(self.parse_expr())
                    self.expect_op(')'); left = ('in', left, items, neg)
                else:
                    items = [self.parse_expr()]
                    while self.accept_op(','): items.append(self.parse_expr())
                    self.expect_op(')'); left = ('in', left, items, neg)
                continue
            if self.accept_kw('like'):
                pat = self.parse_arith(0); esc = None
                if self.accept_kw('escape'): esc = self.parse_arith(0)
                left = ('like', left, pat, esc, neg); continue
            if self.accept_kw('between'):
                lo = self.parse_arith(0); self.expect_kw('and'); hi = self.parse_arith(0)
                left = ('between', left, lo, hi, neg); continue
            break
        return left

    def parse_arith(self, minp):
        left = self.parse_unary()
        while self.t.kind == 'op' and self.t.val in self.prec:
            op = self.t.val; p = self.prec[op]
            if p is None: self.fail('|| is logical OR on MySQL')
            if p < minp or p == minp and minp > 0 and False: break
            if p < minp: break
            self.adv()
            right = self.parse_arith(p + 1)
            left = ('bin', op, left, right)
        return left

    def parse_unary(self):
        if self.accept_op('-'): return ('neg', self.parse_unary())
        if self.accept_op('+'): return self.parse_unary()
        e = self.parse_primary()
        while True:
            if self.is_op('::'):
                self.adv(); ty = self.adv().val
                if self.accept_op('('):
                    while not self.accept_op(')'): self.adv()
                e = ('cast', e, ty.lower()); continue
            if self.is_op('[') and self.dialect == 'PostgreSQL':
                self.adv(); a = None if self.is_op(':') else self.parse_expr()
                self.expect_op(']'); e = ('index', e, a); continue
            break
        return e

    def parse_primary(self):
        t = self.t
        if t.kind == 'num': self.adv(); return ('lit', t.val)
        if t.kind == 'str': self.adv(); return ('lit', t.val)
        if t.kind == 'param': self.adv(); return ('param', t.val)
        if t.kind == 'kw':
            if t.val == 'null': self.adv(); return ('null',)
            if t.val == 'true': self.adv(); return ('lit', True)
            if t.val == 'false': self.adv(); return ('lit', False)
            if t.val == 'case': return self.parse_case()
            if t.val == 'exists':
                self.adv(); self.expect_op('('); sub = self.parse_select(); self.expect_op(')'); return ('exists', sub, False)
            if t.val == 'not' and self.peek().kind == 'kw' and self.peek().val == 'exists':
                self.adv(); self.adv(); self.expect_op('('); sub = self.parse_select(); self.expect_op(')'); return ('exists', sub, True)
            if t.val == 'cast':
                self.adv(); self.expect_op('('); e = self.parse_expr(); self.expect_kw('as')
                ty = self.adv().val
                while not self.is_op(')'): ty += ' ' + str(self.adv().val)
                self.expect_op(')'); return ('cast', e, str(ty).lower())
            if t.val in ('timestamp', 'date', 'interval') and self.peek().kind == 'str':
                self.adv(); v = self.adv().val
                if t.val == 'interval':
                    self.expect_kw('hour'); self.expect_kw('to'); self.expect_kw('second')
                return ('typed_lit', t.val, v)
            if t.val in ('left', 'date', 'row', 'mod') and self.peek().kind == 'op' and self.peek().val == '(':
                self.adv(); return self.parse_call(t.val)
            self.fail('unexpected keyword')
        if t.kind == 'op' and t.val == '(':
            self.adv()
            if self.is_kw('select'):
                sub = self.parse_select(); self.expect_op(')'); return ('subquery', sub)
            e = self.parse_expr()
            if self.is_op(','):
                items = [e]
                while self.accept_op(','): items.append(self.parse_expr())
                self.expect_op(')'); return ('row', items)
            self.expect_op(')'); return e
        if t.kind == 'id':
            self.adv()
            if self.is_op('(') : return self.parse_call(t.val)
            if self.is_op('.'):
                self.adv()
                if self.is_op('*'): self.adv(); return ('star', t.val)
                c = self.adv()
                return ('col', t.val, c.val)
            return ('col', None, t.val)
        self.fail('unexpected token')

    def parse_call(self, name):
        self.expect_op('(')
        distinct = False; star = False; args = []
        if name.lower() == 'trim' and self.t.kind in ('id', 'kw') and str(self.t.val).lower() in ('both', 'leading', 'trailing'):
            # SQL-92 TRIM([BOTH | LEADING | TRAILING] remstr FROM str)
            side = str(self.adv().val).lower()
            rem = self.parse_expr()
            self.expect_kw('from')
            e = self.parse_expr()
            self.expect_op(')')
            return ('func', {'both': 'trim_str', 'leading': 'ltrim_str', 'trailing': 'rtrim_str'}[side], [e, rem], False, False)
        if name.lower() == 'extract' and self.peek().kind == 'kw' and self.peek().val == 'from':
            part = str(self.adv().val).lower()                  # EXTRACT(YEAR FROM expr)
            self.expect_kw('from')
            e = self.parse_expr()
            self.expect_op(')')
            return ('func', 'extract_' + part, [e], False, False)
        if self.accept_kw('distinct'): distinct = True
        if self.is_op('*'):
            self.adv(); star = True
        elif not self.is_op(')'):
            while True:
                args.append(self.parse_expr())
                if self.accept_kw('separator'): args.append(self.parse_expr())
                if not self.accept_op(','): break
        self.expect_op(')')
        return ('func', name.lower(), args, distinct, star)

    def parse_case(self):
        self.expect_kw('case')
        operand = None
        if not self.is_kw('when'): operand = self.parse_expr()
        cases = []
        while self.accept_kw('when'):
            c = self.parse_expr(); self.expect_kw('then'); v = self.parse_expr(); cases.append((c, v))
        default = None
        if self.accept_kw('else'): default = self.parse_expr()
        self.expect_kw('end')
        return ('case', operand, cases, default)


def parse(sql, dialect, paramstyle):
    return Parser(sql, dialect, paramstyle).parse_statement()


def parse_expr(sql, dialect, paramstyle):
    p = Parser(sql, dialect, paramstyle)
    e = p.parse_expr()
    if p.t.kind != 'eof': p.fail('trailing text')
    return e
