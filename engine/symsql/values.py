"""Symbolic values shared by the SQL-side and the Python-side evaluators.

SV(sort, t, n): `t` is a z3 term of the sort, `n` a z3 Bool that is true when the value is
NULL / None (then `t` is a don't-care).  Sorts: 'int', 'bool', 'str', 'real', 'win'.
'win' is C25's string abstraction: a window [lo, hi) into one base string of symbolic
length (see Window).
"""
import z3


class Unmodelled(Exception):
    """Construct outside the modelled fragment: the program is inconclusive, never a pass or a violation."""


class SQLError(Exception):
    """The database would raise an error here under every input (e.g. a type error)."""


FALSE, TRUE = z3.BoolVal(False), z3.BoolVal(True)


class SV(object):
    __slots__ = ('sort', 't', 'n')
    def __init__(self, sort, t, n=FALSE):
        self.sort, self.t, self.n = sort, t, n
    def __repr__(self):
        return 'SV(%s, %s, null=%s)' % (self.sort, self.t, self.n)


class Window(object):
    """Value of sort 'win': characters [lo, hi) of a base string of length `base_len` (z3 Ints, 0 <= lo <= hi <= base_len
    is NOT assumed; use norm())."""
    __slots__ = ('lo', 'hi', 'base_len')
    def __init__(self, lo, hi, base_len):
        self.lo, self.hi, self.base_len = lo, hi, base_len
    def length(self):
        return z3.If(self.hi > self.lo, self.hi - self.lo, z3.IntVal(0))


def const(v):
    if v is None: return null()
    if isinstance(v, bool): return SV('bool', z3.BoolVal(v))
    if isinstance(v, int): return SV('int', z3.IntVal(v))
    if isinstance(v, float):
        return SV('real', z3.RealVal(repr(v)))
    if isinstance(v, str): return SV('str', z3.StringVal(v))
    import datetime
    if type(v) is datetime.date: return SV('date', z3.IntVal(v.year * 10000 + v.month * 100 + v.day))
    raise Unmodelled('constant of type %s' % type(v).__name__)


def null(sort='null'):
    return SV(sort, None, TRUE)


def zmin(a, b): return z3.If(a <= b, a, b)
def zmax(a, b): return z3.If(a >= b, a, b)


def tdiv(a, b):
    """integer division truncating toward zero (SQLite, PostgreSQL, MySQL DIV); b != 0"""
    return z3.If(b > 0, z3.If(a >= 0, a / b, -((-a) / b)), z3.If(a >= 0, -(a / (-b)), (-a) / (-b)))


def tmod(a, b):
    """remainder with the sign of the dividend (C / SQL %); b != 0"""
    return a - b * tdiv(a, b)


def fdiv(a, b):
    """Python floor division; b != 0"""
    return z3.If(b > 0, a / b, (-a) / (-b))


def fmod(a, b):
    """Python modulo (sign of the divisor); b != 0"""
    return a - b * fdiv(a, b)


def to_int(v):
    """bool -> 0/1 integer (SQLite/MySQL representation, Python int(bool))"""
    if v.sort == 'int': return v
    if v.sort == 'bool': return SV('int', z3.If(v.t, z3.IntVal(1), z3.IntVal(0)), v.n)
    if v.sort == 'null': return SV('int', z3.IntVal(0), TRUE)
    raise Unmodelled('to_int of %s' % v.sort)


def to_real(v):
    if v.sort == 'real': return v
    if v.sort in ('int', 'bool'):
        v = to_int(v)
        return SV('real', z3.ToReal(v.t), v.n)
    if v.sort == 'null': return SV('real', z3.RealVal(0), TRUE)
    raise Unmodelled('to_real of %s' % v.sort)


def typed_null(v, sort):
    """give an untyped NULL the sort of its sibling so that ite() is well-sorted"""
    if v.sort != 'null': return v
    dflt = {'int': z3.IntVal(0), 'bool': FALSE, 'str': z3.StringVal(''), 'real': z3.RealVal(0)}.get(sort)
    if dflt is None: raise Unmodelled('NULL of sort %s' % sort)
    return SV(sort, dflt, TRUE)


def unify(a, b):
    """bring two values to a common sort (int/bool -> int, int/real -> real, NULL -> sibling)"""
    if a.sort == b.sort:
        if a.sort == 'null': return typed_null(a, 'int'), typed_null(b, 'int')
        return a, b
    if a.sort == 'null': return typed_null(a, b.sort), b
    if b.sort == 'null': return a, typed_null(b, a.sort)
    s = {a.sort, b.sort}
    if s == {'date', 'str'}:
        # SQLite keeps dates as 'YYYY-MM-DD' text: a string literal of that form next to a date column is that date
        d, t = (a, b) if a.sort == 'date' else (b, a)
        import re
        mo = re.match(r'(\d{4})-(\d{2})-(\d{2})$', t.t.as_string()) if z3.is_string_value(t.t) else None
        if mo is None: raise Unmodelled('date compared with a non-constant string')
        k = SV('date', z3.IntVal(int(mo.group(1)) * 10000 + int(mo.group(2)) * 100 + int(mo.group(3))), t.n)
        return (d, k) if a.sort == 'date' else (k, d)
    if s == {'int', 'bool'}: return to_int(a), to_int(b)
    if s <= {'int', 'bool', 'real'}: return to_real(a), to_real(b)
    raise Unmodelled('cannot unify %s with %s' % (a.sort, b.sort))


def ite(c, a, b):
    """c is a plain z3 Bool"""
    a, b = unify(a, b)
    if a.sort == 'win':
        return SV('win', Window(z3.If(c, a.t.lo, b.t.lo), z3.If(c, a.t.hi, b.t.hi), a.t.base_len), z3.If(c, a.n, b.n))
    return SV(a.sort, z3.If(c, a.t, b.t), z3.If(c, a.n, b.n))


def same(a, b):
    """z3 Bool: a and b are the same value (NULL equals NULL) -- meta-level equality used by obligations"""
    a, b = unify(a, b)
    if a.sort == 'win':
        ea = a.t.hi <= a.t.lo
        eb = b.t.hi <= b.t.lo
        eqv = z3.Or(z3.And(ea, eb), z3.And(a.t.lo == b.t.lo, a.t.hi == b.t.hi))
    else:
        eqv = a.t == b.t
    return z3.Or(z3.And(a.n, b.n), z3.And(z3.Not(a.n), z3.Not(b.n), eqv))


# three-valued logic over SV('bool')
def b3(v, dialect=None):
    """coerce a value used as a condition to SV('bool') the way the dialect does (0/1 integers are booleans on SQLite/MySQL)"""
    if v.sort == 'bool': return v
    if v.sort == 'null': return SV('bool', FALSE, TRUE)
    if v.sort == 'int':
        if dialect in ('PostgreSQL', 'Oracle'): raise SQLError('integer used as a condition on %s' % dialect)
        return SV('bool', v.t != 0, v.n)
    raise Unmodelled('%s used as condition' % v.sort)


def and3(items):
    any_false = z3.Or([z3.And(z3.Not(i.n), z3.Not(i.t)) for i in items])
    any_null = z3.Or([i.n for i in items])
    return SV('bool', z3.Not(any_false), z3.And(any_null, z3.Not(any_false)))


def or3(items):
    any_true = z3.Or([z3.And(z3.Not(i.n), i.t) for i in items])
    any_null = z3.Or([i.n for i in items])
    return SV('bool', any_true, z3.And(any_null, z3.Not(any_true)))


def not3(v):
    return SV('bool', z3.Not(v.t), v.n)


def is_true(v):
    """z3 Bool: the condition is TRUE (neither FALSE nor UNKNOWN)"""
    return z3.And(z3.Not(v.n), v.t)
