"""E1 driver: one query program -> real translator/builder output -> z3 obligation "SQL rows == Python rows" -> replay.

decide() returns a dict:
  verdict: 'unsat' | 'sat' | 'unknown' | 'rejected' | 'unmodelled'
  sql, model (concrete database + scope), detail, time_s
"""
import ast, time
import z3
from . import sqlparse, sqlsem, pysem, symdb
from .values import SV, Unmodelled, SQLError, TRUE, FALSE, same, const, null, to_int, typed_null

REJECT = ('TranslationError', 'TypeError', 'NotImplementedError', 'ExprEvalError', 'IncomparableTypesError', 'AttributeError',
          'IndexError', 'ValueError', 'AstError', 'DecompileError', 'InvalidQuery', 'KeyError', 'AssertionError')


class Program(object):
    """a query program: generator-expression source + caller scope specification
    scope: {name: ('int'|'str'|'bool', concrete_default)}; methods: list of (method name, args source) applied to the Query"""
    def __init__(self, src, scope=None, form='string', note=''):
        self.src, self.scope, self.form, self.note = src, scope or {}, form, note
    def __repr__(self): return 'Program(%r, %r, %s)' % (self.src, self.scope, self.form)


def sym_scope(scope):
    out, cons = {}, []
    for name, (sort, dflt) in scope.items():
        if dflt is None:
            out[name] = null(sort); continue
        if sort == 'int': out[name] = SV('int', z3.Int('scope_' + name))
        elif sort == 'bool': out[name] = SV('bool', z3.Bool('scope_' + name))
        elif sort == 'str':
            t = z3.String('scope_' + name)
            out[name] = SV('str', t); cons.append(z3.Length(t) <= 3); cons.append(symdb.printable(t))
        elif sort == 'tuple':
            out[name] = pysem.PyTuple([SV('int', z3.Int('scope_%s_%d' % (name, i))) for i in range(len(dflt))])
        else: raise Unmodelled('scope sort %s' % sort)
    return out, cons


def build_query(db, prog):
    """the real pony Query object for the program (string, generator or lambda spelling)"""
    from pony.orm import core
    scope = {k: v[1] for k, v in prog.scope.items()}
    g = {e.__name__: e for e in db.entities.values()}
    for fn in ('count', 'sum', 'min', 'max', 'avg', 'exists', 'select', 'coalesce', 'concat', 'between', 'distinct', 'desc', 'len', 'abs', 'group_concat'):
        g[fn] = getattr(core, fn, None) or __builtins__[fn] if isinstance(__builtins__, dict) else getattr(core, fn, None) or getattr(__builtins__, fn)
    if prog.form == 'string':
        return core.select(prog.src, g, dict(scope))
    if prog.form == 'generator':
        gen = eval(prog.src, g, dict(scope))
        return core.select(gen)
    raise ValueError(prog.form)


def real_sql(db, q, limit=None, offset=None):
    """SQL text + parameter layout from the real translator and the real builder of the bound provider"""
    translator = q._translator
    sql_ast, attr_offsets = translator.construct_sql_ast(limit, offset, q._distinct, None, None, None, q._for_update, q._nowait, q._skip_locked)
    provider = db.provider
    builder = provider.sqlbuilder_cls(provider, sql_ast)
    params = [x for x in builder.result if hasattr(x, 'paramkey')]
    return builder.sql, params, translator


def param_values(params, translator, q, penv, paramstyle):
    """symbolic value of every placeholder: the pysem value of the external expression's source over the symbolic scope"""
    out = {}
    cons = []
    seen = {}
    for idx, p in enumerate(params):
        varkey, i, j = p.paramkey
        src = varkey[1]
        if not isinstance(src, str): raise Unmodelled('parameter without source text: %r' % (varkey,))
        if varkey not in seen:
            seen[varkey] = pysem.as_data(pysem.ev(ast.parse(src, mode='eval').body, penv))
        v = seen[varkey]
        if i is not None:
            if not isinstance(v, pysem.PyTuple): raise Unmodelled('indexed parameter of a non-tuple')
            v = v.items[i]
        if j is not None: raise Unmodelled('entity-valued parameter')
        if not isinstance(v, SV): raise Unmodelled('non-scalar parameter')
        key = idx if paramstyle in ('qmark', 'format') else (p.id - 1 if paramstyle == 'numeric' else 'p%d' % p.id)
        out[key] = v
        # the translation is specialised on the None-ness of each parameter (vartypes): a non-None concrete value means non-NULL
        conc = q._vars.get(varkey)
        if i is not None and conc is not None: conc = conc[i]
        if conc is not None and v.sort != 'null': cons.append(z3.Not(v.n))
    # values pinned into the SQL text at translation time (string slice bounds, getattr names ...)
    for varkey, value in translator.fixed_param_values.items():
        src = varkey[1]
        v = pysem.as_data(pysem.ev(ast.parse(src, mode='eval').body, penv))
        if isinstance(v, SV) and v.sort != 'null':
            c = const(value)
            cons.append(TRUE if False else same(v, c))
    return out, cons


def flatten_python(prows, sel_cols, S):
    """align Python element values with the SQL select list -> [(guard, [SV...])]"""
    out = []
    ncols = len(sel_cols)
    for g, vals in prows:
        flat = []
        k = 0
        single_entity = len(vals) == 1 and isinstance(vals[0], pysem.ERef)
        for v in vals:
            if isinstance(v, pysem.ERef):
                info = S.ents[v.ent]
                if single_entity:
                    # SELECT lists the entity's columns: compare each by its column name against the Python row
                    for c, alias in sel_cols:
                        if c[0] != 'col': raise Unmodelled('entity result with a computed column')
                        if v.row is not None:
                            val = sqlsem._ci_get(v.row.cols, c[2])
                            if val is None: raise Unmodelled('column %s not in entity row' % c[2])
                        else:
                            raise Unmodelled('indirect entity result')
                        flat.append(val)
                    k = ncols
                else:
                    if v.row is not None: flat.append(v.row.cols[info.pk])
                    else: flat.append(v.pk)
                    k += 1
            elif isinstance(v, SV):
                flat.append(SV('bool', v.t, v.n) if v.sort == 'cond' else v); k += 1
            else:
                raise Unmodelled('result element %r' % (v,))
        if len(flat) != ncols: raise Unmodelled('select list has %d columns, python row %d' % (ncols, len(flat)))
        out.append((g, flat))
    return out


def rows_equal(a, b):
    return z3.And([same(x, y) for x, y in zip(a, b)]) if a else TRUE


def obligation(sql_rows, py_rows, entity_result):
    """z3 Bool: the two guarded row lists denote the same SET of rows (and, for entity results, SQL has no duplicates)"""
    conj = []
    for g, vals in py_rows:
        conj.append(z3.Implies(g, z3.Or([z3.And(gs, rows_equal(vals, vs)) for gs, vs, _ in sql_rows]) if sql_rows else FALSE))
    for gs, vs, _ in sql_rows:
        conj.append(z3.Implies(gs, z3.Or([z3.And(g, rows_equal(vals, vs)) for g, vals in py_rows]) if py_rows else FALSE))
    if entity_result:
        for i in range(len(sql_rows)):
            for j in range(i):
                conj.append(z3.Not(z3.And(sql_rows[i][0], sql_rows[j][0], same(sql_rows[i][1][0], sql_rows[j][1][0]))))
    return z3.And(conj) if conj else TRUE


def encode(db, S, prog, dialect, limit=None, offset=None):
    """-> dict(sql, sql_rows, py_rows, assumptions, entity_result, ...) or raises Unmodelled / returns rejection"""
    from pony.orm import db_session
    with db_session:
        q = build_query(db, prog)
        sql, params, translator = real_sql(db, q, limit, offset)
        qvars = dict(q._vars)
    paramstyle = db.provider.paramstyle
    tree = sqlparse.parse(sql, dialect, paramstyle)
    scope_syms, cons = sym_scope(prog.scope)
    penv = pysem.PEnv(S, scope_syms, dialect)
    class _Q: pass
    qq = _Q(); qq._vars = qvars
    pvals, pcons = param_values(params, translator, qq, penv, paramstyle)
    ctx = sqlsem.Ctx(S.tables, pvals, dialect)
    env = sqlsem.Env(ctx)
    res = sqlsem.eval_select(tree, env)
    src_tree = ast.parse(prog.src, mode='eval').body
    prows = pysem.eval_query(src_tree, penv)
    py_rows = flatten_python(prows, tree[1]['cols'], S)
    entity_result = len(prows) > 0 and len(prows[0][1]) == 1 and isinstance(prows[0][1][0], pysem.ERef)
    assumptions = list(S.constraints) + cons + pcons
    if penv._undefined: assumptions.append(z3.Not(z3.Or(penv._undefined)))
    sql_errors = [c for tag, c in ctx.side if tag == 'sql_error']
    return dict(sql=sql, tree=tree, sql_rows=res.rows, py_rows=py_rows, assumptions=assumptions, entity_result=entity_result,
                sql_errors=sql_errors, scope_syms=scope_syms, result=res, qvars=qvars, regions=penv.regions)


def model_dump(S, enc, m):
    db = symdb.concrete_rows(S, m)
    scope = {}
    for name, v in enc['scope_syms'].items():
        if isinstance(v, pysem.PyTuple): scope[name] = tuple(symdb.model_value(m, x) for x in v.items)
        else: scope[name] = symdb.model_value(m, v)
    def rows(lst):
        out = []
        for item in lst:
            g, vals = item[0], item[1]
            if symdb.mtrue(m, g):
                out.append(tuple(symdb.model_value(m, v) for v in vals))
        return out
    return {'tables': db, 'scope': scope, 'sql_rows_predicted': rows(enc['sql_rows']), 'python_rows': rows(enc['py_rows'])}


def decide(db, S, prog, dialect, timeout_ms=10000, extra_assumptions=()):
    t0 = time.time()
    try:
        enc = encode(db, S, prog, dialect)
    except Unmodelled as e:
        return dict(verdict='unmodelled', detail=str(e), time_s=time.time() - t0)
    except sqlparse.SQLSyntaxError as e:
        return dict(verdict='unmodelled', detail='SQL text not parsed: %s' % e, time_s=time.time() - t0)
    except SQLError as e:
        return dict(verdict='sat', detail='the database raises for every input: %s' % e, model=None, sql=None, time_s=time.time() - t0, always_error=True)
    except Exception as e:
        if type(e).__name__ in REJECT:
            return dict(verdict='rejected', detail='%s: %s' % (type(e).__name__, str(e)[:120]), time_s=time.time() - t0)
        raise
    s = z3.Solver(); s.set('timeout', timeout_ms)
    s.add(*enc['assumptions']); s.add(*extra_assumptions)
    r = s.check()
    if r != z3.sat:
        return dict(verdict='unknown', detail='assumptions alone are %s' % r, sql=enc['sql'], time_s=time.time() - t0)
    ob = obligation(enc['sql_rows'], enc['py_rows'], enc['entity_result'])
    bad = z3.Not(ob)
    if enc['sql_errors']: bad = z3.Or(bad, z3.Or(enc['sql_errors']))
    s.push(); s.add(bad)
    r = s.check()
    out = dict(sql=enc['sql'], enc=enc, solver=s, time_s=time.time() - t0, n_sql_rows=len(enc['sql_rows']), n_py_rows=len(enc['py_rows']))
    if r == z3.unsat: out['verdict'] = 'unsat'
    elif r == z3.sat:
        out['verdict'] = 'sat'
        out['model'] = model_dump(S, enc, s.model())
        out['z3model'] = s.model()
    else:
        out['verdict'] = 'unknown'; out['detail'] = 'solver: %s (%s)' % (r, s.reason_unknown())
    out['time_s'] = time.time() - t0
    return out


# ---------------------------------------------------------------------------------------------------------------------
# replay on a real SQLite database through pony itself
def populate(db, tables):
    """insert the model's rows with plain SQL through the real connection (the ORM's write path is not the subject)"""
    from pony.orm import db_session
    with db_session:
        con = db.get_connection()
        cur = con.cursor()
        cur.execute('PRAGMA foreign_keys = OFF')
        for t in tables:
            cur.execute('DELETE FROM "%s"' % t)
        for t, rows in tables.items():
            for r in rows:
                cols = list(r)
                cur.execute('INSERT INTO "%s" (%s) VALUES (%s)' % (t, ', '.join('"%s"' % c for c in cols), ', '.join('?' for _ in cols)),
                            [int(v) if isinstance(v, bool) else v for v in (r[c] for c in cols)])
        cur.execute('PRAGMA foreign_keys = ON')


def run_real(db, prog, scope_vals):
    """execute the program with the real pony on the real database -> list of row tuples (entities -> all column values)"""
    from pony.orm import db_session
    p2 = Program(prog.src, {k: (prog.scope[k][0], scope_vals.get(k, prog.scope[k][1])) for k in prog.scope}, prog.form)
    out = []
    with db_session:
        q = build_query(db, p2)
        for item in q[:] if hasattr(q, '__getitem__') else q:
            out.append(real_row(item))
    return out


def real_row(item):
    from pony.orm.core import Entity
    if isinstance(item, Entity):
        vals = []
        for attr in item._attrs_:
            if attr.is_collection or not attr.columns: continue
            v = attr.__get__(item)
            if isinstance(v, Entity): v = v.get_pk()
            vals.append(v)
        return tuple(vals)
    if isinstance(item, tuple):
        return tuple(x.get_pk() if isinstance(x, Entity) else x for x in item)
    return (item,)


def norm_rows(rows):
    def nv(v):
        if isinstance(v, bool): return int(v)
        if isinstance(v, float) and v == int(v): return int(v)
        return v
    return sorted({tuple(nv(v) for v in r) for r in rows}, key=repr)
