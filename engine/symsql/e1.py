"""E1 driver: one query program -> real translator/builder output -> z3 obligation "SQL rows == Python rows" -> replay.

decide() returns a dict:
  verdict: 'unsat' | 'sat' | 'unknown' | 'rejected' | 'unmodelled'
  sql, model (concrete database + scope), detail, time_s
"""
import ast, time
import z3
from . import sqlparse, sqlsem, pysem, symdb
from .values import SV, Unmodelled, SQLError, TRUE, FALSE, same, const, null, to_int, typed_null

REJECT = ('TranslationError', 'TypeError', 'NotImplementedError', 'ExprEvalError', 'IncomparableTypesError', 'AttributeError',
          'IndexError', 'ValueError', 'AstError', 'DecompileError', 'InvalidQuery', 'KeyError', 'AssertionError')


class Rejected(Exception):
    """pony refused the program (TranslationError, TypeError, ...): the allowed outcome"""


class Program(object):
    """a query program: generator-expression source + caller scope specification
    scope: {name: ('int'|'str'|'bool', concrete_default)}; methods: list of (method name, args source) applied to the Query"""
    def __init__(self, src, scope=None, form='string', note='', chain=None, int_range=None):
        self.src, self.scope, self.form, self.note = src, scope or {}, form, note
        self.int_range = int_range      # (lo, hi): all integer columns and integer scope names are assumed within this range
                                        # (programs whose arithmetic is non-linear are only decidable on a bounded range)
        # chain: dict(filters=[lambda source...], order=[(key expr source, desc)], distinct=None|True|False,
        #             final=('list',)|('slice', a, b)|('aggr', NAME)|('first',)|('exists',)|('get',)|('page', p, s)|('limit', l, o))
        self.chain = chain
    def __repr__(self): return 'Program(%r, %r, %s, %r)' % (self.src, self.scope, self.form, self.chain)
    def describe(self):
        if not self.chain: return self.src
        c = self.chain
        t = 'select%s' % self.src
        for f in c.get('filters', ()): t += '.filter(%r)' % f
        for kw in c.get('kwfilters', ()): t += '.filter(%s)' % ', '.join('%s=%r' % kv for kv in sorted(kw.items()))
        for f in c.get('filters_after', ()): t += '.filter(%r)' % f
        if c.get('order') and not c.get('order_attrs'): t += '.order_by(lambda: (%s))' % ', '.join(('desc(%s)' % k) if d else k for k, d in c['order'])
        if c.get('order_attrs'): t += '.order_by(%s)' % ', '.join(('desc(%s.%s)' if d else '%s.%s') % (c['order_entity'], a) for a, d in c['order_attrs'])
        if c.get('distinct') is True: t += '.distinct()'
        if c.get('distinct') is False: t += '.without_distinct()'
        f = c.get('final', ('list',))
        def sh(x): return '' if x is None else str(x)
        if f[0] == 'list': t += '[:]'
        elif f[0] == 'slice': t += '[%s:%s]' % (sh(f[1]), sh(f[2]))
        elif f[0] == 'aggr':
            args = ([repr(f[2])] if len(f) > 2 and (f[2] is not None or f[1] == 'GROUP_CONCAT') else []) + (['distinct=%r' % f[3]] if len(f) > 3 and f[3] is not None else [])
            t += '.%s(%s)' % (f[1].lower(), ', '.join(args))
        elif f[0] == 'page': t += '.page(%s, %s)' % (f[1], f[2])
        elif f[0] == 'limit': t += '.limit(%s, offset=%s)' % (f[1], f[2])
        else: t += '.%s()' % f[0]
        if c.get('order_numbers'): t = t.replace('select' + self.src, 'select%s.order_by(%s)' % (self.src, ', '.join(map(str, c['order_numbers']))), 1)
        return t


def sym_scope(scope):
    out, cons = {}, []
    for name, (sort, dflt) in scope.items():
        if dflt is None:
            out[name] = null(); continue      # a name bound to None behaves exactly like the literal None
        if sort == 'int': out[name] = SV('int', z3.Int('scope_' + name))
        elif sort == 'bool': out[name] = SV('bool', z3.Bool('scope_' + name))
        elif sort == 'str':
            t = z3.String('scope_' + name)
            out[name] = SV('str', t); cons.append(z3.Length(t) <= 3); cons.append(symdb.printable(t))
        elif sort == 'date':
            out[name] = SV('date', symdb.date_term('scope_' + name, cons))
        elif sort == 'tuple':
            out[name] = pysem.PyTuple([SV('int', z3.Int('scope_%s_%d' % (name, i))) for i in range(len(dflt))])
        else: raise Unmodelled('scope sort %s' % sort)
    return out, cons


def build_query(db, prog):
    """the real pony Query object for the program (string, generator or lambda spelling)"""
    from pony.orm import core
    scope = {k: v[1] for k, v in prog.scope.items()}
    g = {e.__name__: e for e in db.entities.values()}
    for fn in ('count', 'sum', 'min', 'max', 'avg', 'exists', 'select', 'coalesce', 'concat', 'between', 'distinct', 'desc', 'len', 'abs', 'group_concat', 'JOIN'):
        g[fn] = getattr(core, fn, None) or __builtins__[fn] if isinstance(__builtins__, dict) else getattr(core, fn, None) or getattr(__builtins__, fn)
    import datetime
    g['date'] = datetime.date
    if prog.form == 'string':
        q = core.select(prog.src, g, dict(scope))
    elif prog.form == 'generator':
        gg = dict(g); gg.update(scope)          # a generator expression cannot see eval()'s locals: names go into its globals
        gen = eval(prog.src, gg)
        q = core.select(gen)
    else: raise ValueError(prog.form)
    c = prog.chain
    if c:
        for f in c.get('filters', ()):
            q = q._process_lambda(f, g, dict(scope)) if False else q.filter(f, g, dict(scope))
        for kw in c.get('kwfilters', ()):
            q = q.filter(**kw)
        for f in c.get('filters_after', ()):          # lambda filters applied AFTER the keyword filters
            q = q.filter(f, g, dict(scope))
        if c.get('order') and not c.get('order_attrs'):
            var = loop_var(prog.src)
            keys = ', '.join(('desc(%s)' % k) if d else k for k, d in c['order'])
            # a lambda without arguments refers to the loop variables by name (works for projections too)
            q = q.order_by('lambda: (%s)' % keys if len(c['order']) > 1 else 'lambda: %s' % keys, g, dict(scope))
        if c.get('order_numbers'):
            q = q.order_by(*c['order_numbers'])
        if c.get('order_attrs'):
            ent = g[c['order_entity']]
            q = q.order_by(*[core.desc(getattr(ent, a)) if d else getattr(ent, a) for a, d in c['order_attrs']])
        if c.get('distinct') is True: q = q.distinct()
        if c.get('distinct') is False: q = q.without_distinct()
    return q


def loop_var(src):
    t = ast.parse(src, mode='eval').body
    return t.generators[0].target.id


def real_sql(db, q, limit=None, offset=None, aggr=None, sep=None, aggr_distinct=None):
    """SQL text + parameter layout from the real translator and the real builder of the bound provider"""
    translator = q._translator
    sql_ast, attr_offsets = translator.construct_sql_ast(limit, offset, q._distinct, aggr, aggr_distinct, sep, q._for_update, q._nowait, q._skip_locked)
    provider = db.provider
    builder = provider.sqlbuilder_cls(provider, sql_ast)
    params = [x for x in builder.result if hasattr(x, 'paramkey')]
    return builder.sql, params, translator


def param_values(params, translator, q, penv, paramstyle):
    """symbolic value of every placeholder: the pysem value of the external expression's source over the symbolic scope"""
    out = {}
    cons = []
    seen = {}
    for idx, p in enumerate(params):
        varkey, i, j = p.paramkey
        if isinstance(varkey, int):
            # value of a keyword filter (Query.filter(attr=value)): concrete per program
            if i is not None or j is not None: raise Unmodelled('composite keyword-filter value')
            key = idx if paramstyle in ('qmark', 'format') else (p.id - 1 if paramstyle == 'numeric' else 'p%d' % p.id)
            out[key] = const(q._vars[varkey])
            continue
        src = varkey[1]
        if not isinstance(src, str): raise Unmodelled('parameter without source text: %r' % (varkey,))
        if varkey not in seen:
            seen[varkey] = pysem.as_data(pysem.ev(ast.parse(src, mode='eval').body, penv))
        v = seen[varkey]
        if i is not None:
            if not isinstance(v, pysem.PyTuple): raise Unmodelled('indexed parameter of a non-tuple')
            v = v.items[i]
        if j is not None: raise Unmodelled('entity-valued parameter')
        if not isinstance(v, SV): raise Unmodelled('non-scalar parameter')
        key = idx if paramstyle in ('qmark', 'format') else (p.id - 1 if paramstyle == 'numeric' else 'p%d' % p.id)
        out[key] = v
        # the translation is specialised on the None-ness of each parameter (vartypes): a non-None concrete value means non-NULL
        conc = q._vars.get(varkey)
        if i is not None and conc is not None: conc = conc[i]
        if conc is not None and v.sort != 'null': cons.append(z3.Not(v.n))
    # values pinned into the SQL text at translation time (string slice bounds, getattr names ...)
    for varkey, value in translator.fixed_param_values.items():
        src = varkey[1]
        v = pysem.as_data(pysem.ev(ast.parse(src, mode='eval').body, penv))
        if isinstance(v, SV) and v.sort != 'null':
            c = const(value)
            cons.append(TRUE if False else same(v, c))
    return out, cons


def flatten_python(prows, sel_cols, S):
    """align Python element values with the SQL select list -> [(guard, [SV...])]"""
    out = []
    ncols = len(sel_cols)
    for g, vals in prows:
        flat = []
        k = 0
        single_entity = len(vals) == 1 and isinstance(vals[0], pysem.ERef)
        for v in vals:
            if isinstance(v, pysem.ERef):
                info = S.ents[v.ent]
                if single_entity:
                    # SELECT lists the entity's columns: compare each by its column name against the Python row
                    for c, alias in sel_cols:
                        if c[0] != 'col': raise Unmodelled('entity result with a computed column')
                        if v.row is not None:
                            val = sqlsem._ci_get(v.row.cols, c[2])
                            if val is None: raise Unmodelled('column %s not in entity row' % c[2])
                        else:
                            raise Unmodelled('indirect entity result')
                        flat.append(val)
                    k = ncols
                else:
                    if v.row is not None: flat.append(v.row.cols[info.pk])
                    else: flat.append(v.pk)
                    k += 1
            elif isinstance(v, SV):
                flat.append(SV('bool', v.t, v.n) if v.sort == 'cond' else v); k += 1
            else:
                raise Unmodelled('result element %r' % (v,))
        if len(flat) != ncols: raise Unmodelled('select list has %d columns, python row %d' % (ncols, len(flat)))
        out.append((g, flat))
    return out


def rows_equal(a, b):
    return z3.And([same(x, y) for x, y in zip(a, b)]) if a else TRUE


def obligation(sql_rows, py_rows, entity_result):
    """z3 Bool: the two guarded row lists denote the same SET of rows (and, for entity results, SQL has no duplicates)"""
    conj = []
    for g, vals in py_rows:
        conj.append(z3.Implies(g, z3.Or([z3.And(gs, rows_equal(vals, vs)) for gs, vs, _ in sql_rows]) if sql_rows else FALSE))
    for gs, vs, _ in sql_rows:
        conj.append(z3.Implies(gs, z3.Or([z3.And(g, rows_equal(vals, vs)) for g, vals in py_rows]) if py_rows else FALSE))
    if entity_result:
        # pony's documented default: a query result is duplicate-free (DISTINCT is added where duplicates could arise) unless
        # without_distinct() is used - callers pass entity_result=True for every such result, not only entity results
        for i in range(len(sql_rows)):
            for j in range(i):
                conj.append(z3.Not(z3.And(sql_rows[i][0], sql_rows[j][0], rows_equal(sql_rows[i][1], sql_rows[j][1]))))
    return z3.And(conj) if conj else TRUE


def encode(db, S, prog, dialect, limit=None, offset=None):
    """-> dict(sql, sql_rows, py_rows, assumptions, entity_result, ...) or raises Unmodelled / returns rejection"""
    from pony.orm import db_session
    try:
        with db_session:
            q = build_query(db, prog)
            sql, params, translator = real_sql(db, q, limit, offset)
            qvars = dict(q._vars)
    except Exception as e:
        # only what PONY raises while building / translating the query is the property's "raises an error instead";
        # an exception in the encoder below is a harness error and propagates
        if type(e).__name__ in REJECT: raise Rejected('%s: %s' % (type(e).__name__, str(e)[:120]))
        raise
    paramstyle = db.provider.paramstyle
    tree = sqlparse.parse(sql, dialect, paramstyle)
    scope_syms, cons = sym_scope(prog.scope)
    penv = pysem.PEnv(S, scope_syms, dialect)
    class _Q: pass
    qq = _Q(); qq._vars = qvars
    pvals, pcons = param_values(params, translator, qq, penv, paramstyle)
    ctx = sqlsem.Ctx(S.tables, pvals, dialect)
    env = sqlsem.Env(ctx)
    res = sqlsem.eval_select(tree, env)
    src_tree = ast.parse(prog.src, mode='eval').body
    prows = pysem.eval_query(src_tree, penv)
    py_rows = flatten_python(prows, tree[1]['cols'], S)
    entity_result = len(prows) > 0 and len(prows[0][1]) == 1 and isinstance(prows[0][1][0], pysem.ERef)
    assumptions = list(S.constraints) + cons + pcons
    if penv._undefined: assumptions.append(z3.Not(z3.Or(penv._undefined)))
    sql_errors = [c for tag, c in ctx.side if tag == 'sql_error']
    return dict(sql=sql, tree=tree, sql_rows=res.rows, py_rows=py_rows, assumptions=assumptions, entity_result=entity_result,
                sql_errors=sql_errors, scope_syms=scope_syms, result=res, qvars=qvars, regions=penv.regions)


def model_dump(S, enc, m):
    db = symdb.concrete_rows(S, m)
    scope = {}
    for name, v in enc['scope_syms'].items():
        if isinstance(v, pysem.PyTuple): scope[name] = tuple(symdb.model_value(m, x) for x in v.items)
        else: scope[name] = symdb.model_value(m, v)
    def rows(lst):
        out = []
        for item in lst:
            g, vals = item[0], item[1]
            if symdb.mtrue(m, g):
                out.append(tuple(symdb.model_value(m, v) for v in vals))
        return out
    cols = [c[2] if c[0] == 'col' else None for c, alias in enc['tree'][1]['cols']]
    return {'tables': db, 'scope': scope, 'sql_rows_predicted': rows(enc['sql_rows']), 'python_rows': rows(enc['py_rows']),
            'colnames': cols if enc['entity_result'] and all(cols) else None}


def decide(db, S, prog, dialect, timeout_ms=10000, extra_assumptions=(), exclude_regions=()):
    t0 = time.time()
    try:
        enc = encode(db, S, prog, dialect)
    except Unmodelled as e:
        return dict(verdict='unmodelled', detail=str(e), time_s=time.time() - t0)
    except sqlparse.SQLSyntaxError as e:
        return dict(verdict='unmodelled', detail='SQL text not parsed: %s' % e, time_s=time.time() - t0)
    except SQLError as e:
        return dict(verdict='sat', detail='the database raises for every input: %s' % e, model=None, sql=None, time_s=time.time() - t0, always_error=True)
    except Rejected as e:
        return dict(verdict='rejected', detail=str(e), time_s=time.time() - t0)
    s = z3.Solver(); s.set('timeout', timeout_ms)
    s.add(*enc['assumptions']); s.add(*extra_assumptions)
    if getattr(prog, 'int_range', None):
        lo, hi = prog.int_range
        for rows in S.tables.values():
            for r in rows:
                for v in r.cols.values():
                    if v.sort == 'int': s.add(v.t >= lo, v.t <= hi)
        for v in enc['scope_syms'].values():
            if isinstance(v, SV) and v.sort == 'int': s.add(v.t >= lo, v.t <= hi)
    for k in exclude_regions:
        if k in enc['regions']: s.add(z3.Not(z3.Or(enc['regions'][k])))
    r = s.check()
    if r != z3.sat:
        return dict(verdict='unknown', detail='assumptions alone are %s' % r, sql=enc['sql'], time_s=time.time() - t0)
    ob = obligation(enc['sql_rows'], enc['py_rows'], True)
    bad = z3.Not(ob)
    if enc['sql_errors']: bad = z3.Or(bad, z3.Or(enc['sql_errors']))
    s.push(); s.add(bad)
    r = s.check()
    out = dict(sql=enc['sql'], enc=enc, solver=s, time_s=time.time() - t0, n_sql_rows=len(enc['sql_rows']), n_py_rows=len(enc['py_rows']))
    if r == z3.unsat: out['verdict'] = 'unsat'
    elif r == z3.sat:
        out['verdict'] = 'sat'
        out['model'] = model_dump(S, enc, s.model())
        out['z3model'] = s.model()
    else:
        out['verdict'] = 'unknown'; out['detail'] = 'solver: %s (%s)' % (r, s.reason_unknown())
    out['time_s'] = time.time() - t0
    return out


# ---------------------------------------------------------------------------------------------------------------------
# replay on a real SQLite database through pony itself
def populate(db, tables):
    """insert the model's rows with plain SQL through the real connection (the ORM's write path is not the subject)"""
    from pony.orm import db_session
    with db_session:
        con = db.get_connection()
        cur = con.cursor()
        cur.execute('PRAGMA foreign_keys = OFF')
        for t in tables:
            cur.execute('DELETE FROM "%s"' % t)
        for t, rows in tables.items():
            for r in rows:
                cols = list(r)
                cur.execute('INSERT INTO "%s" (%s) VALUES (%s)' % (t, ', '.join('"%s"' % c for c in cols), ', '.join('?' for _ in cols)),
                            [int(v) if isinstance(v, bool) else v.isoformat() if hasattr(v, 'isoformat') else v for v in (r[c] for c in cols)])
        cur.execute('PRAGMA foreign_keys = ON')


def run_real(db, prog, scope_vals, colnames=None):
    """execute the program with the real pony on the real database -> list of row tuples (entities -> all column values)"""
    from pony.orm import db_session
    p2 = Program(prog.src, {k: (prog.scope[k][0], scope_vals.get(k, prog.scope[k][1])) for k in prog.scope}, prog.form)
    out = []
    with db_session:
        q = build_query(db, p2)
        for item in q[:] if hasattr(q, '__getitem__') else q:
            out.append(real_row(item, colnames))
    return out


def real_row(item, colnames=None):
    from pony.orm.core import Entity
    if isinstance(item, Entity) and colnames:
        # one value per column of the SELECT list (columns of classes the object does not belong to are None)
        bycol = {}
        for attr in item._attrs_:
            if attr.is_collection or not attr.columns: continue
            v = attr.__get__(item)
            if isinstance(v, Entity): v = v.get_pk()
            bycol[attr.columns[0].lower()] = v
        return tuple(bycol.get(c.lower()) for c in colnames)
    if isinstance(item, Entity):
        vals = []
        for attr in item._attrs_:
            if attr.is_collection or not attr.columns: continue
            v = attr.__get__(item)
            if isinstance(v, Entity): v = v.get_pk()
            vals.append(v)
        return tuple(vals)
    if isinstance(item, tuple):
        return tuple(x.get_pk() if isinstance(x, Entity) else x for x in item)
    return (item,)


def norm_list(rows):
    """sorted LIST of normalised rows (duplicates kept)"""
    def nv(v):
        if isinstance(v, bool): return int(v)
        if isinstance(v, float) and v == int(v): return int(v)
        return v
    return sorted((tuple(nv(v) for v in r) for r in rows), key=repr)


def norm_rows(rows):
    def nv(v):
        if isinstance(v, bool): return int(v)
        if isinstance(v, float) and v == int(v): return int(v)
        return v
    return sorted({tuple(nv(v) for v in r) for r in rows}, key=repr)


# ---------------------------------------------------------------------------------------------------------------------
# query-method chains (C24): list semantics of the ordered result
def _pos_terms(rows, keys_of):
    """position of every row in the list sorted by its keys: number of selected rows that sort strictly before it"""
    pos = []
    for i in range(len(rows)):
        before = []
        for j in range(len(rows)):
            if i == j: continue
            before.append(z3.If(z3.And(rows[j]['g'], _before(keys_of(j), keys_of(i))), z3.IntVal(1), z3.IntVal(0)))
        pos.append(z3.Sum(before) if before else z3.IntVal(0))
    return pos


def _before(ka, kb):
    res = FALSE
    for (a, desc), (b, _) in reversed(list(zip(ka, kb))):
        from .values import unify
        a, b = unify(a, b)
        if a.sort == 'bool': a, b = to_int(a), to_int(b)
        lt = z3.And(a.t != b.t, a.t <= b.t) if a.sort == 'str' else a.t < b.t
        gt = z3.And(a.t != b.t, z3.Not(lt))
        if desc: lt, gt = gt, lt
        res = z3.If(lt, TRUE, z3.If(gt, FALSE, res))
    return res


def encode_chain(db, S, prog, dialect):
    """like encode(), for a program with a method chain; returns the two results as lists of (guard, [position] + values)"""
    from pony.orm import db_session
    c = prog.chain or {}
    final = c.get('final', ('list',))
    limit = offset = aggr = None
    window = None                       # python slice applied to the ordered list
    if final[0] == 'slice':
        a, b = final[1], final[2]
        window = (a or 0, b)
    elif final[0] == 'limit':
        l, o = final[1], final[2]
        window = (o or 0, None if l is None else (o or 0) + l)
    elif final[0] == 'page':
        pnum, size = final[1], final[2]
        window = ((pnum - 1) * size, pnum * size)
    elif final[0] == 'first': window = (0, 1)
    elif final[0] == 'exists': window = (0, 1)
    elif final[0] == 'get': window = (0, 2)
    try:
        with db_session:
            q = build_query(db, prog)
            if final[0] == 'aggr':
                sql, params, translator = real_sql(db, q, None, None, final[1], final[2] if len(final) > 2 else None, final[3] if len(final) > 3 else None)
            else:
                # run the REAL method up to the point where it fetches: intercept Query._actual_fetch / QueryResult
                lim_off = capture_fetch(q, final)
                if final[0] == 'first':
                    q2, (limit, offset) = lim_off
                    sql, params, translator = real_sql(db, q2, limit, offset)
                    q = q2
                else:
                    limit, offset = lim_off
                    sql, params, translator = real_sql(db, q, limit, offset)
            qvars = dict(q._vars)
            distinct_flag = q._distinct
            tr_distinct = translator.distinct
    except Unmodelled:
        raise
    except Exception as e:
        if type(e).__name__ in REJECT: raise Rejected('%s: %s' % (type(e).__name__, str(e)[:120]))
        raise
    paramstyle = db.provider.paramstyle
    tree = sqlparse.parse(sql, dialect, paramstyle)
    exists_only = False
    if final[0] == 'exists':
        # exists() fetches q[:1]; which row comes back is irrelevant, only whether one does: the LIMIT 1 is checked here and
        # the statement is evaluated without it
        if limit != 1 or offset not in (None, 0): raise Unmodelled('exists() fetched limit=%r offset=%r' % (limit, offset))
        if tree[1]['limit'] != ('lit', 1): raise Unmodelled('exists(): unexpected LIMIT %r' % (tree[1]['limit'],))
        tree[1]['limit'] = None; tree[1]['offset'] = None
        exists_only = True; window = None
    scope_syms, cons = sym_scope(prog.scope)
    penv = pysem.PEnv(S, scope_syms, dialect)
    class _Q: pass
    qq = _Q(); qq._vars = qvars
    pvals, pcons = param_values(params, translator, qq, penv, paramstyle)
    ctx = sqlsem.Ctx(S.tables, pvals, dialect)
    res = sqlsem.eval_select(tree, sqlsem.Env(ctx))
    src_tree = ast.parse(prog.src, mode='eval').body
    prows = pysem.eval_query(src_tree, penv, with_env=True)
    var = loop_var(prog.src)
    rows = []
    for g, vals, e in prows:
        gg = g
        for f in list(c.get('filters', ())) + list(c.get('filters_after', ())):
            lam = ast.parse(f, mode='eval').body
            arg = lam.args.args[0].arg
            if not (len(vals) == 1 and isinstance(vals[0], pysem.ERef)): raise Unmodelled('filter() on a non-entity result')
            e2 = e.child(**{arg: vals[0]})
            with e2.under(gg):
                gg = z3.And(gg, z3.And(z3.Not(pysem.truth(e2, pysem.ev(lam.body, e2)).n), pysem.truth(e2, pysem.ev(lam.body, e2)).t))
        for kw in c.get('kwfilters', ()):
            if not (len(vals) == 1 and isinstance(vals[0], pysem.ERef)): raise Unmodelled('filter(**kw) on a non-entity result')
            for k_, v_ in sorted(kw.items()):
                cnd = pysem.cmp_values(penv, '==', pysem.attr_of(e, vals[0], k_), const(v_))
                gg = z3.And(gg, z3.Not(cnd.n), cnd.t)
        keys = []
        for k, desc in c.get('order', ()):
            with e.under(gg): kv = pysem.as_data(pysem.ev(ast.parse(k, mode='eval').body, e))
            if not isinstance(kv, SV): raise Unmodelled('order key is not a scalar')
            keys.append((kv, desc))
        rows.append({'g': gg, 'vals': vals, 'keys': keys})
    flat = flatten_python([(r['g'], r['vals']) for r in rows], tree[1]['cols'] if final[0] != 'aggr' else [(None, None)] * len(rows[0]['vals']) if rows else [], S) \
        if final[0] != 'aggr' else [(r['g'], [v if isinstance(v, SV) else pysem.pk_of(penv, v) for v in r['vals']]) for r in rows]
    for r, (g, fv) in zip(rows, flat): r['flat'] = fv
    for n_, keys in enumerate(c.get('order_numbers', ()) and [c['order_numbers']] or []):
        for r in rows:
            r['keys'] = [(r['flat'][abs(k) - 1], k < 0) for k in keys]
    assumptions = list(S.constraints) + cons + pcons
    entity_result = bool(rows) and len(rows[0]['vals']) == 1 and isinstance(rows[0]['vals'][0], pysem.ERef)
    # the full result R as pony documents it: entity results and (by default) projections are duplicate-free
    set_semantics = entity_result or (distinct_flag is not False and (distinct_flag is True or tr_distinct))
    explicit_aggr_distinct = final[3] if final[0] == 'aggr' and len(final) > 3 else None
    if explicit_aggr_distinct is not None and not entity_result:
        # q.count(distinct=...) / q.sum(distinct=...): the aggregate is taken over the distinct items / over every item, as asked
        set_semantics = explicit_aggr_distinct
    if final[0] == 'first' and not c.get('order') and not c.get('order_numbers'):
        # first() on an unordered query orders by the result columns itself
        for r in rows: r['keys'] = [(v, False) for v in r['flat']]
    if set_semantics and not entity_result:
        dups = [z3.And(rows[i]['g'], rows[j]['g'], rows_equal(rows[j]['flat'], rows[i]['flat'])) for i in range(len(rows)) for j in range(i)]
        if dups:
            if c.get('order') or c.get('order_numbers') or final[0] == 'first':
                penv.region('order-by-drops-distinct', z3.Or(dups))
            if final[0] == 'aggr' and final[1] in ('SUM', 'AVG') and explicit_aggr_distinct is None:
                penv.region('sum-avg-ignore-default-distinct', z3.Or(dups))
        for i, r in enumerate(rows):
            dup = z3.Or([z3.And(rows[j]['g'], rows_equal(rows[j]['flat'], r['flat'])) for j in range(i)]) if i else FALSE
            r['g'] = z3.And(r['g'], z3.Not(dup))
    out = dict(sql=sql, tree=tree, scope_syms=scope_syms, regions=penv.regions, result=res, entity_result=entity_result, qvars=qvars)
    if final[0] == 'aggr':
        name = final[1]
        bag = pysem.Bag([(r['g'], r['flat'][0] if len(r['flat']) == 1 or name != 'COUNT' else r['flat'][0]) for r in rows])
        if name == 'COUNT':
            val = SV('int', z3.Sum([z3.If(r['g'], z3.IntVal(1), z3.IntVal(0)) for r in rows]) if rows else z3.IntVal(0))
        elif name == 'GROUP_CONCAT':
            # Python: sep.join(R) over the non-missing items (slot order, as the SQL model), None for an empty result
            sepv = z3.StringVal(',' if len(final) < 3 or final[2] is None else final[2])
            acc, started = z3.StringVal(''), FALSE
            for r in rows:
                v = r['flat'][0]
                if v.sort != 'str': raise Unmodelled('group_concat of %s' % v.sort)
                live = z3.And(r['g'], z3.Not(v.n))
                acc = z3.If(live, z3.If(started, z3.Concat(acc, sepv, v.t), v.t), acc)
                started = z3.Or(started, live)
            val = SV('str', acc, z3.Not(started))
        else:
            val = pysem.aggregate(penv, {'SUM': 'sum', 'MIN': 'min', 'MAX': 'max', 'AVG': 'avg'}[name], bag)
        py_rows = [(TRUE, [val])]
        sql_rows = [(g, vals) for g, vals, _ in res.rows]
        if name == 'SUM':
            # Query.sum() turns a NULL total into 0 in Python after fetching
            sql_rows = [(g, [SV(v.sort, z3.If(v.n, (z3.IntVal(0) if v.sort == 'int' else z3.RealVal(0)), v.t)) if v.sort in ('int', 'real') else v for v in vals]) for g, vals in sql_rows]
    else:
        have_keys = bool(rows) and bool(rows[0].get('keys'))
        if window is not None and not have_keys and (window != (0, None)):
            raise Unmodelled('slice of an unordered query (result not determined)')
        if have_keys:
            # total order on the selected rows (ties make the order implementation-defined) and keys present
            for i in range(len(rows)):
                assumptions.append(z3.Implies(rows[i]['g'], z3.And([z3.Not(k.n) for k, _ in rows[i]['keys']]) if rows[i]['keys'] else TRUE))
                for j in range(i):
                    assumptions.append(z3.Implies(z3.And(rows[i]['g'], rows[j]['g']),
                                                  z3.Or(_before(rows[i]['keys'], rows[j]['keys']), _before(rows[j]['keys'], rows[i]['keys']))))
            pos = _pos_terms(rows, lambda i: rows[i]['keys'])
        else:
            pos = [z3.IntVal(0)] * len(rows)
        py_rows = []
        for r, p_ in zip(rows, pos):
            g = r['g']
            if window is not None:
                a, b = window
                g = z3.And(g, p_ >= a)
                if b is not None: g = z3.And(g, p_ < b)
                p_ = p_ - a
            py_rows.append((g, ([SV('int', p_)] if have_keys else []) + r['flat']))
        sql_rows = []
        for g, vals, p_ in res.rows:
            if have_keys:
                if p_ is None: raise Unmodelled('SQL result carries no positions although the query is ordered')
                sql_rows.append((g, [SV('int', p_)] + vals))
            else:
                sql_rows.append((g, vals))
    if exists_only:
        sql_rows = [(z3.Or([g for g, _ in sql_rows]) if sql_rows else FALSE, [])]
        py_rows = [(z3.Or([g for g, _ in py_rows]) if py_rows else FALSE, [])]
    if penv._undefined: assumptions.append(z3.Not(z3.Or(penv._undefined)))
    out.update(sql_rows=[(g, v, None) for g, v in sql_rows], py_rows=py_rows, assumptions=assumptions,
               sql_errors=[cnd for tag, cnd in ctx.side if tag == 'sql_error'], set_semantics=set_semantics)
    return out


def capture_fetch(q, final):
    """run the real Query method on the real Query object with its fetching step intercepted: what (limit, offset) does it ask for?"""
    from pony.orm import core
    captured = []
    class Stop(Exception): pass
    orig = core.Query._actual_fetch
    def fake(query, limit=None, offset=None):
        captured.append((query, limit, offset)); raise Stop()
    core.Query._actual_fetch = fake
    try:
        try:
            if final[0] == 'list': r = q[:]
            elif final[0] == 'slice': r = q[final[1]:final[2]]
            elif final[0] == 'limit': r = q.limit(final[1], offset=final[2])
            elif final[0] == 'page': r = q.page(final[1], final[2])
            elif final[0] == 'first': r = q.first()
            elif final[0] == 'exists': r = q.exists()
            elif final[0] == 'get': r = q.get()
            else: raise ValueError(final)
            if hasattr(r, '_get_items'): r._get_items()
            elif hasattr(r, '__iter__'): list(r)
        except Stop:
            pass
    finally:
        core.Query._actual_fetch = orig
    if not captured: raise Unmodelled('the method did not fetch')
    query, limit, offset = captured[0]
    if final[0] == 'first': return query, (limit, offset)
    return limit, offset


def decide_chain(db, S, prog, dialect, timeout_ms=10000, exclude_regions=()):
    t0 = time.time()
    try:
        enc = encode_chain(db, S, prog, dialect)
    except Unmodelled as e:
        return dict(verdict='unmodelled', detail=str(e), time_s=time.time() - t0)
    except sqlparse.SQLSyntaxError as e:
        return dict(verdict='unmodelled', detail='SQL text not parsed: %s' % e, time_s=time.time() - t0)
    except Rejected as e:
        return dict(verdict='rejected', detail=str(e), time_s=time.time() - t0)
    s = z3.Solver(); s.set('timeout', timeout_ms)
    s.add(*enc['assumptions'])
    for k in exclude_regions:
        if k in enc['regions']: s.add(z3.Not(z3.Or(enc['regions'][k])))
    r = s.check()
    if r != z3.sat:
        return dict(verdict='unknown', detail='assumptions alone are %s' % r, sql=enc['sql'], time_s=time.time() - t0)
    ob = obligation(enc['sql_rows'], enc['py_rows'], False)
    bad = z3.Not(ob)
    if enc['sql_errors']: bad = z3.Or(bad, z3.Or(enc['sql_errors']))
    s.push(); s.add(bad)
    r = s.check()
    out = dict(sql=enc['sql'], enc=enc, solver=s, time_s=time.time() - t0)
    if r == z3.unsat: out['verdict'] = 'unsat'
    elif r == z3.sat:
        out['verdict'] = 'sat'; out['z3model'] = s.model(); out['model'] = model_dump(S, enc, s.model())
    else:
        out['verdict'] = 'unknown'; out['detail'] = 'solver: %s' % r
    out['time_s'] = time.time() - t0
    return out


def run_real_chain(db, prog, scope_vals):
    """execute the chained program for real -> list of rows ([position] + values for ordered results)"""
    from pony.orm import db_session
    p2 = Program(prog.src, {k: (prog.scope[k][0], scope_vals.get(k, prog.scope[k][1])) for k in prog.scope}, prog.form, chain=prog.chain)
    c = prog.chain or {}
    final = c.get('final', ('list',))
    ordered = bool(c.get('order') or c.get('order_numbers')) or final[0] == 'first'
    with db_session:
        q = build_query(db, p2)
        if final[0] == 'aggr':
            kw = {'distinct': final[3]} if len(final) > 3 and final[3] is not None else {}
            if final[1] == 'GROUP_CONCAT': v = q.group_concat(final[2] if len(final) > 2 else None, **kw)
            else: v = getattr(q, final[1].lower())(**kw)
            return [(v,)]
        if final[0] == 'list': items = q[:]
        elif final[0] == 'slice': items = q[final[1]:final[2]]
        elif final[0] == 'limit': items = list(q.limit(final[1], offset=final[2]))
        elif final[0] == 'page': items = list(q.page(final[1], final[2]))
        elif final[0] == 'first':
            x = q.first(); items = [] if x is None else [x]
        elif final[0] == 'exists': return [('exists', q.exists())]
        elif final[0] == 'get':
            try:
                x = q.get(); items = [] if x is None else [x]
            except Exception as ex: return [('raised', type(ex).__name__)]
        out = []
        for i, item in enumerate(items):
            row = real_row(item)
            out.append(((i,) + row) if ordered else row)
        return out


# ---------------------------------------------------------------------------------------------------------------------
# bulk delete (C24): the DELETE statement removes exactly the rows the query selects
def decide_delete(db, S, prog, dialect, timeout_ms=10000, exclude_regions=()):
    from pony.orm import db_session
    t0 = time.time()
    try:
        try:
            with db_session:
                q = build_query(db, prog)
                translator = q._translator
                sql_ast = translator.construct_delete_sql_ast()
                builder = db.provider.sqlbuilder_cls(db.provider, sql_ast)
                sql = builder.sql
                params = [x for x in builder.result if hasattr(x, 'paramkey')]
                qvars = dict(q._vars)
                ent = translator.expr_type.__name__
        except Exception as e:
            if type(e).__name__ in REJECT: raise Rejected('%s: %s' % (type(e).__name__, str(e)[:120]))
            raise
        paramstyle = db.provider.paramstyle
        tree = sqlparse.parse(sql, dialect, paramstyle)
        if tree[0] != 'delete': raise Unmodelled('not a DELETE statement: %s' % sql)
        scope_syms, cons = sym_scope(prog.scope)
        penv = pysem.PEnv(S, scope_syms, dialect)
        class _Q: pass
        qq = _Q(); qq._vars = qvars
        pvals, pcons = param_values(params, translator, qq, penv, paramstyle)
        ctx = sqlsem.Ctx(S.tables, pvals, dialect)
        d = tree[1]
        srcs = d['from']
        if d.get('alias') is not None: target_alias = d['alias']
        else: target_alias = srcs[0]['alias']
        combos = sqlsem.base_rows({'from': srcs, 'where': d['where']}, sqlsem.Env(ctx))
        info = S.ents[ent]
        table_rows = S.tables[info.table]
        deleted = {id(r): [] for r in table_rows}
        for g, e in combos:
            r = sqlsem._ci_get(e.rows, target_alias)
            if r is None or id(r) not in deleted: raise Unmodelled('DELETE target row not identified')
            deleted[id(r)].append(g)
        src_tree = ast.parse(prog.src, mode='eval').body
        prows = pysem.eval_query(src_tree, penv)
        selected = {id(r): [] for r in table_rows}
        for g, vals in prows:
            if not (len(vals) == 1 and isinstance(vals[0], pysem.ERef) and vals[0].row is not None and id(vals[0].row) in selected):
                raise Unmodelled('delete query does not yield rows of one entity')
            selected[id(vals[0].row)].append(g)
    except Unmodelled as e:
        return dict(verdict='unmodelled', detail=str(e), time_s=time.time() - t0)
    except sqlparse.SQLSyntaxError as e:
        return dict(verdict='unmodelled', detail='SQL text not parsed: %s' % e, time_s=time.time() - t0)
    except Rejected as e:
        return dict(verdict='rejected', detail=str(e), time_s=time.time() - t0)
    s = z3.Solver(); s.set('timeout', timeout_ms)
    s.add(*S.constraints); s.add(*cons); s.add(*pcons)
    if penv._undefined: s.add(z3.Not(z3.Or(penv._undefined)))
    for k in exclude_regions:
        if k in penv.regions: s.add(z3.Not(z3.Or(penv.regions[k])))
    if s.check() != z3.sat:
        return dict(verdict='unknown', detail='assumptions not satisfiable', sql=sql, time_s=time.time() - t0)
    diffs = []
    for r in table_rows:
        dl = z3.Or(deleted[id(r)]) if deleted[id(r)] else FALSE
        sl = z3.Or(selected[id(r)]) if selected[id(r)] else FALSE
        diffs.append(z3.And(r.present, dl != sl))
    s.add(z3.Or(diffs))
    r = s.check()
    out = dict(sql=sql, time_s=time.time() - t0)
    if r == z3.unsat: out['verdict'] = 'unsat'
    elif r == z3.sat:
        m = s.model()
        out['verdict'] = 'sat'
        pk = info.pk
        out['model'] = {'tables': symdb.concrete_rows(S, m),
                        'scope': {n: (tuple(symdb.model_value(m, x) for x in v.items) if isinstance(v, pysem.PyTuple) else symdb.model_value(m, v)) for n, v in scope_syms.items()},
                        'entity': ent, 'table': info.table, 'pk': pk,
                        'deleted_by_sql': sorted(symdb.model_value(m, r_.cols[pk]) for r_ in table_rows if symdb.mtrue(m, r_.present) and deleted[id(r_)] and symdb.mtrue(m, z3.Or(deleted[id(r_)]))),
                        'selected_by_python': sorted(symdb.model_value(m, r_.cols[pk]) for r_ in table_rows if symdb.mtrue(m, r_.present) and selected[id(r_)] and symdb.mtrue(m, z3.Or(selected[id(r_)])))}
    else:
        out['verdict'] = 'unknown'; out['detail'] = 'solver: %s' % r
    out['time_s'] = time.time() - t0
    return out


def run_real_delete(db, prog, model):
    """real bulk delete on the real database -> sorted primary keys that were removed"""
    from pony.orm import db_session
    populate(db, model['tables'])
    p2 = Program(prog.src, {k: (prog.scope[k][0], model['scope'].get(k, prog.scope[k][1])) for k in prog.scope}, prog.form)
    with db_session:
        def keys():
            con = db.get_connection()
            return set(r[0] for r in con.execute('select "%s" from "%s"' % (model['pk'], model['table'])).fetchall())
        before = keys()
        build_query(db, p2).delete(bulk=True)
        after = keys()
    return sorted(before - after)
