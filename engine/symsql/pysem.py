"""Python-side meaning of a query program over the symbolic database (the oracle of E1).

The semantics are the ones the property statement fixes:
  * a comparison with a missing operand is UNKNOWN; UNKNOWN propagates through and/or/not (Kleene); a row is selected
    iff its condition is TRUE;
  * a missing *value* used in a truth test is falsy (`not x.b` is TRUE when b is None), as are 0, '' and False;
  * arithmetic and string operations propagate missing values;
  * everything else is Python: // and % floor, slicing/indexing with Python normalisation, in/startswith/endswith, len,
    abs, min/max, conditional expressions, sum() of nothing is 0, min()/max()/avg() of nothing is None.
Where Python itself raises (ZeroDivisionError, IndexError, arithmetic / string methods / len / subscript / `in <str>` on a
missing value, attribute of a missing reference, ordering None in min/max) there is no result to compare with: the
condition under which that happens - guarded by the short-circuit path that reaches it - is collected in `env.undefined`
and the obligation assumes it away.  Comparisons with a missing operand are NOT treated that way: the property fixes
three-valued logic for them.
"""
import ast
import z3
from .values import *  # noqa
from .values import SV, Unmodelled, TRUE, FALSE
from . import sqlsem
from .symdb import member_of


class ERef(object):
    """reference to a row of entity `ent`: either a definite row slot or a (nullable) primary key value"""
    def __init__(self, ent, row=None, pk=None):
        self.ent, self.row, self.pk = ent, row, pk


class Coll(object):
    """collection of entity rows: [(guard, Row)]"""
    def __init__(self, ent, items): self.ent, self.items = ent, items


class Bag(object):
    """multiset of values: [(guard, value)]"""
    def __init__(self, items): self.items = items


class PyTuple(object):
    def __init__(self, items): self.items = items


class EntityName(object):
    def __init__(self, ent): self.ent = ent


class PEnv(object):
    def __init__(self, schema, scope, dialect='SQLite'):
        self.S = schema
        self.vars = dict(scope)       # name -> value
        self._undefined = []          # z3 Bools: Python raises here (already guarded by the path condition)
        self.path = []                # stack of z3 Bools: conditions under which the current sub-expression is evaluated at all
        self.dialect = dialect
        self.undefined = _Undef(self)
        self.regions = {}             # known-finding key -> [z3 Bool]: inputs on which a recorded pony defect can show

    def child(*args, **kw):
        self = args[0]                    # (bound names may include `self`: hybrid methods)
        if len(args) > 1: kw = dict(args[1], **kw)
        e = PEnv.__new__(PEnv)
        e.S, e._undefined, e.path, e.dialect, e.undefined = self.S, self._undefined, self.path, self.dialect, self.undefined
        e.regions = self.regions
        e.vars = dict(self.vars); e.vars.update(kw)
        return e

    def under(self, c):
        return _Under(self, c)

    def region(self, key, c):
        self.regions.setdefault(key, []).append(c)


class _Undef(object):
    """list-like: append(c) records 'Python raises when c' guarded by the current evaluation path (short-circuiting)"""
    def __init__(self, env): self.env = env
    def append(self, c):
        e = self.env
        e._undefined.append(z3.And(*(e.path + [c])) if e.path else c)
    def __bool__(self): return bool(self.env._undefined)
    def __iter__(self): return iter(self.env._undefined)


class _Under(object):
    def __init__(self, env, c): self.env, self.c = env, c
    def __enter__(self): self.env.path.append(self.c)
    def __exit__(self, *a): self.env.path.pop()


def cond(t, n=FALSE):
    return SV('cond', t, n)


def pk_of(env, v):
    """SV('int') primary key of an entity reference"""
    if v.row is not None:
        info = env.S.ents[v.ent]
        return v.row.cols[info.pk]
    return v.pk


def rows_of(env, ent):
    info = env.S.ents[ent]
    return [(z3.And(r.present, member_of(env.S, info, r)), r) for r in env.S.tables[info.table]]


def attr_of(env, v, name):
    S = env.S
    if isinstance(v, Coll):
        # attribute lifting: coll.attr is the multiset / collection of the items' attribute values
        info = S.ents[v.ent]
        ai = info.attrs.get(name)
        if ai is None: raise Unmodelled('unknown attribute %s.%s' % (v.ent, name))
        if ai.kind == 'scalar':
            bag = Bag([(g, r.cols[ai.col]) for g, r in v.items])
            bag.multi = getattr(v, 'multi', False)
            return bag
        # entity-valued attribute: the objects reached from any item.  Through a to-one or many-to-many hop an object can be reached
        # along several paths: in memory pony keeps a Multiset with one occurrence per path, its SQL counts DISTINCT objects but
        # sums attribute values per path.  Multiplicity-sensitive aggregates over such paths are outside the claim (`multi`);
        # membership, emptiness, min and max are not sensitive to it.
        acc, order = {}, []
        def reach(r2, g):
            if id(r2) not in acc: acc[id(r2)] = (r2, []); order.append(id(r2))
            acc[id(r2)][1].append(g)
        if ai.kind == 'ref':
            tinfo = S.ents[ai.target]
            for g, r in v.items:
                sub = attr_of(env, ERef(v.ent, row=r), name)
                for g2, r2 in rows_of(env, ai.target):
                    reach(r2, z3.And(g, g2, z3.Not(sub.pk.n), r2.cols[tinfo.pk].t == sub.pk.t))
        elif ai.kind in ('set', 'm2m'):
            for g, r in v.items:
                for g2, r2 in attr_of(env, ERef(v.ent, row=r), name).items:
                    reach(r2, z3.And(g, g2))
        else: raise Unmodelled('attribute lifting through %s' % ai.kind)
        res = Coll(ai.target, [(z3.Or(acc[k][1]), acc[k][0]) for k in order])
        res.multi = getattr(v, 'multi', False) or ai.kind in ('ref', 'm2m')
        return res
    if isinstance(v, SV) and v.sort == 'date' and name in ('year', 'month', 'day'):
        env.undefined.append(v.n)                      # Python: 'NoneType' object has no attribute 'year'
        k = v.t
        return SV('int', {'year': k / 10000, 'month': (k / 100) % 100, 'day': k % 100}[name], v.n)
    if not isinstance(v, ERef): raise Unmodelled('attribute %s of a non-entity value' % name)
    info = S.ents[v.ent]
    ai = info.attrs.get(name)
    if ai is None:
        hyb = hybrid(env, v.ent, name)
        if hyb is not None and hyb[0] == 'property':
            return call_hybrid(env, v, hyb[1], [])
        raise Unmodelled('unknown attribute %s.%s' % (v.ent, name))
    if v.row is not None:
        if ai.kind == 'scalar': return v.row.cols[ai.col]
        if ai.kind == 'ref': return ERef(ai.target, pk=v.row.cols[ai.col])
        mypk = v.row.cols[info.pk]
        mynull = FALSE
    else:
        mypk, mynull = v.pk, v.pk.n
        env.undefined.append(mynull)          # Python: AttributeError: 'NoneType' object has no attribute ...
        env.region('optional-reference-navigation-inner-join', mynull)
        if ai.kind in ('scalar', 'ref'):
            res = None
            for g, r in rows_of(env, v.ent):
                val = r.cols[ai.col]
                hit = z3.And(g, r.cols[info.pk].t == mypk.t)
                res = val if res is None else ite(hit, val, res)
            res = SV(res.sort, res.t, z3.Or(res.n, mynull))
            if ai.kind == 'scalar': return res
            return ERef(ai.target, pk=res)
    if ai.kind == 'set':
        tinfo = S.ents[ai.target]
        rcol = tinfo.attrs[ai.reverse].col
        items = [(z3.And(g, z3.Not(mynull), z3.Not(r.cols[rcol].n), r.cols[rcol].t == mypk.t), r) for g, r in rows_of(env, ai.target)]
        return Coll(ai.target, items)
    if ai.kind == 'm2m':
        table, mine, other = ai.m2m
        tinfo = S.ents[ai.target]
        items = []
        for g, r in rows_of(env, ai.target):
            link = z3.Or([z3.And(l.present, l.cols[mine].t == mypk.t, l.cols[other].t == r.cols[tinfo.pk].t) for l in S.tables[table]])
            items.append((z3.And(g, z3.Not(mynull), link), r))
        return Coll(ai.target, items)
    raise Unmodelled('attribute kind %s' % ai.kind)


def hybrid(env, ent, name):
    """a hybrid property / method of the entity class: ('property'|'method', FunctionDef) - pony inlines its body into the query;
    the oracle evaluates the same source with `self` bound to the row"""
    import inspect, textwrap
    classes = getattr(env.S, 'classes', None)
    if not classes or ent not in classes: return None
    attr = None
    for klass in classes[ent].__mro__:
        if name in vars(klass): attr = vars(klass)[name]; break
    if attr is None: return None
    kind, fn = ('property', attr.fget) if isinstance(attr, property) else ('method', attr)
    if not callable(fn) or not hasattr(fn, '__code__'): return None
    try: tree = ast.parse(textwrap.dedent(inspect.getsource(fn)))
    except (OSError, SyntaxError, TypeError): return None
    fdef = tree.body[0]
    if not isinstance(fdef, ast.FunctionDef): return None
    return kind, fdef


def call_hybrid(env, self_val, fdef, args):
    body = [st for st in fdef.body if not (isinstance(st, ast.Expr) and isinstance(st.value, ast.Constant))]
    if len(body) != 1 or not isinstance(body[0], ast.Return): raise Unmodelled('hybrid method with more than a return statement')
    params = [a.arg for a in fdef.args.args]
    if len(params) != 1 + len(args): raise Unmodelled('hybrid method arity')
    e2 = env.child(dict(zip(params, [self_val] + list(args))))
    return ev(body[0].value, e2)


def truth(env, v):
    """three-valued truth of a value used as a condition"""
    if isinstance(v, SV):
        if v.sort == 'cond': return v
        if v.sort == 'null': return cond(FALSE)
        if v.sort == 'bool': return cond(z3.And(z3.Not(v.n), v.t))
        if v.sort == 'int': return cond(z3.And(z3.Not(v.n), v.t != 0))
        if v.sort == 'real': return cond(z3.And(z3.Not(v.n), v.t != 0))
        if v.sort == 'str':
            return cond(z3.And(z3.Not(v.n), z3.Length(v.t) > 0))
    if isinstance(v, ERef): return cond(z3.Not(pk_of(env, v).n))
    if isinstance(v, (Coll, Bag)): return cond(z3.Or([g for g, _ in v.items]) if v.items else FALSE)
    raise Unmodelled('truth value of %r' % (v,))


def as_data(v):
    """a condition used as a value"""
    if isinstance(v, SV) and v.sort == 'cond': return SV('bool', v.t, v.n)
    return v


def is_none(env, v):
    if isinstance(v, SV) and v.sort == 'str' and env.dialect == 'Oracle':
        env.region('oracle-empty-string-is-null', z3.And(z3.Not(v.n), z3.Length(v.t) == 0))
    if isinstance(v, SV): return TRUE if v.sort == 'null' else v.n
    if isinstance(v, ERef): return pk_of(env, v).n
    raise Unmodelled('None test of %r' % (v,))


def cmp_values(env, op, a, b):
    a, b = as_data(a), as_data(b)
    if isinstance(a, ERef) or isinstance(b, ERef):
        if not (isinstance(a, ERef) and isinstance(b, ERef)):
            if isinstance(a, SV) and a.sort == 'null' or isinstance(b, SV) and b.sort == 'null':
                e = a if isinstance(a, ERef) else b
                n = is_none(env, e)
                return cond(n if op == '==' else z3.Not(n))
            raise Unmodelled('comparison of an entity with a scalar')
        pa, pb = pk_of(env, a), pk_of(env, b)
        if op not in ('==', '!='): raise Unmodelled('ordering of entities')
        return cond(pa.t == pb.t if op == '==' else pa.t != pb.t, z3.Or(pa.n, pb.n))
    if isinstance(a, PyTuple) or isinstance(b, PyTuple):
        if not (isinstance(a, PyTuple) and isinstance(b, PyTuple) and len(a.items) == len(b.items) and op in ('==', '!=')):
            raise Unmodelled('tuple comparison')
        parts = [cmp_values(env, '==', x, y) for x, y in zip(a.items, b.items)]
        r = and3(parts)
        r = cond(r.t, r.n)
        return r if op == '==' else cond(z3.Not(r.t), r.n)
    if not (isinstance(a, SV) and isinstance(b, SV)): raise Unmodelled('comparison of %r and %r' % (a, b))
    # literal None on either side: Python's == / != with None is an identity-like test, pony translates it to IS NULL
    if a.sort == 'null' or b.sort == 'null':
        if op in ('==', '!='):
            o = b if a.sort == 'null' else a
            n = TRUE if o.sort == 'null' else o.n
            if env.dialect == 'Oracle' and o.sort == 'str':
                env.region('oracle-empty-string-is-null', z3.And(z3.Not(o.n), z3.Length(o.t) == 0))
            return cond(n if op == '==' else z3.Not(n))
        env.undefined.append(TRUE)
        return cond(FALSE, TRUE)
    if env.dialect == 'Oracle' and a.sort == 'str' and b.sort == 'str':
        env.region('oracle-empty-string-is-null', z3.Or(z3.And(z3.Not(a.n), z3.Length(a.t) == 0), z3.And(z3.Not(b.n), z3.Length(b.t) == 0)))
    sqlop = {'==': '=', '!=': '<>', '<': '<', '<=': '<=', '>': '>', '>=': '>='}[op]
    fake = _FakeEnv(env.dialect)
    r = sqlsem.compare(sqlop, _plain(a), _plain(b), fake)
    return cond(r.t, r.n)


class _FakeCtx(object):
    def __init__(self, dialect): self.dialect = dialect; self.side = []; self.div_by_zero = []


class _FakeEnv(object):
    def __init__(self, dialect): self.ctx = _FakeCtx('SQLite')     # comparison of values of equal Python type: no dialect delta


def _plain(v):
    if v.sort == 'cond': return SV('bool', v.t, v.n)
    return v


def arith(env, op, a, b):
    a, b = as_data(a), as_data(b)
    if not (isinstance(a, SV) and isinstance(b, SV)): raise Unmodelled('arithmetic on %r, %r' % (a, b))
    if a.sort == 'null' or b.sort == 'null':
        other = b if a.sort == 'null' else a
        return null(other.sort if other.sort != 'null' else 'null')
    if a.sort == 'str' or b.sort == 'str':
        if op == '+' and a.sort == b.sort == 'str':
            env.undefined.append(z3.Or(a.n, b.n))          # Python: TypeError
            return SV('str', z3.Concat(a.t, b.t), z3.Or(a.n, b.n))
        raise Unmodelled('string arithmetic %s' % op)
    x, y = unify(a, b)
    if x.sort == 'bool': x, y = to_int(x), to_int(y)
    n = z3.Or(x.n, y.n)
    env.undefined.append(n)              # Python: TypeError (unsupported operand type NoneType)
    if op == '+': return SV(x.sort, x.t + y.t, n)
    if op == '-': return SV(x.sort, x.t - y.t, n)
    if op == '*': return SV(x.sort, x.t * y.t, n)
    if op in ('//', '%', '/'):
        env.undefined.append(z3.And(z3.Not(n), y.t == 0))
        if x.sort == 'int':
            yy = z3.If(y.t == 0, z3.IntVal(1), y.t)
            if op in ('//', '%'):
                env.region('floordiv-mod-negative-operand', z3.And(z3.Not(n), z3.Or(x.t < 0, y.t < 0)))
                if op == '//' and env.dialect in ('MySQL', 'Oracle'):
                    env.region('floordiv-rendered-as-real-division', z3.And(z3.Not(n), fmod(x.t, yy) != 0))
            else:
                env.region('int-true-division-truncates', z3.And(z3.Not(n), fmod(x.t, yy) != 0))
            if op == '//': return SV('int', fdiv(x.t, yy), n)
            if op == '%': return SV('int', fmod(x.t, yy), n)
            return SV('real', z3.ToReal(x.t) / z3.ToReal(yy), n)
        if op == '/':
            yy = z3.If(y.t == 0, z3.RealVal(1), y.t)
            return SV('real', x.t / yy, n)
        raise Unmodelled('%s on reals' % op)
    if op == '**':
        if x.sort != 'int' or not z3.is_int_value(y.t) or not (0 <= y.t.as_long() <= 3): raise Unmodelled('power with a non-constant or large exponent')
        t = z3.IntVal(1)
        for _ in range(y.t.as_long()): t = t * x.t
        return SV('int', t, n)
    raise Unmodelled('operator %s' % op)


BINOPS = {ast.Add: '+', ast.Sub: '-', ast.Mult: '*', ast.FloorDiv: '//', ast.Mod: '%', ast.Div: '/', ast.Pow: '**'}
CMPOPS = {ast.Eq: '==', ast.NotEq: '!=', ast.Lt: '<', ast.LtE: '<=', ast.Gt: '>', ast.GtE: '>='}


def ev(node, env):
    m = _EV.get(type(node))
    if m is None: raise Unmodelled('python node %s' % type(node).__name__)
    return m(node, env)


def _name(node, env):
    if node.id in env.vars: return env.vars[node.id]
    if node.id in env.S.ents: return EntityName(node.id)
    if node.id in ('True', 'False', 'None'): return const({'True': True, 'False': False, 'None': None}[node.id])
    raise Unmodelled('unknown name %s' % node.id)


def _const(node, env):
    return const(node.value)


def _attr(node, env):
    v = ev(node.value, env)
    return attr_of(env, v, node.attr)


def _compare(node, env):
    left = ev(node.left, env)
    parts = []
    for op, right_node in zip(node.ops, node.comparators):
        if isinstance(op, (ast.In, ast.NotIn)):
            r = contains(env, left, right_node, negated=isinstance(op, ast.NotIn))
            parts.append(r if isinstance(op, ast.In) else cond(z3.Not(r.t), r.n))
            right = None
        else:
            right = ev(right_node, env)
            if isinstance(op, (ast.Is, ast.IsNot)):
                if not (isinstance(right, SV) and right.sort == 'null'): raise Unmodelled('`is` with a non-None operand')
                n = is_none(env, as_data(left))
                parts.append(cond(n if isinstance(op, ast.Is) else z3.Not(n)))
            else:
                parts.append(cmp_values(env, CMPOPS[type(op)], left, right))
        left = right
    if len(parts) == 1: return parts[0]
    r = and3(parts)
    return cond(r.t, r.n)


def contains(env, item, container_node, negated=False):
    """item in container"""
    if isinstance(container_node, (ast.Tuple, ast.List, ast.Set)):
        vals = [(TRUE, ev(x, env)) for x in container_node.elts]
    else:
        c = ev(container_node, env)
        if isinstance(c, PyTuple): vals = [(TRUE, x) for x in c.items]
        elif isinstance(c, Bag): vals = c.items
        elif isinstance(c, Coll): vals = [(g, ERef(c.ent, row=r)) for g, r in c.items]
        elif isinstance(c, SV) and c.sort == 'str':
            item = as_data(item)
            if not (isinstance(item, SV) and item.sort in ('str', 'null')): raise Unmodelled('substring test of a non-string')
            if item.sort == 'null': return cond(FALSE, TRUE)
            env.undefined.append(z3.Or(c.n, item.n))       # Python: TypeError ('in <string>' needs strings)
            if env.dialect == 'Oracle':
                env.region('oracle-empty-string-is-null', z3.Or(z3.And(z3.Not(c.n), z3.Length(c.t) == 0), z3.And(z3.Not(item.n), z3.Length(item.t) == 0)))
            return cond(z3.Contains(c.t, item.t), z3.Or(c.n, item.n))
        else: raise Unmodelled('membership in %r' % (c,))
    if not vals: return cond(FALSE)
    if isinstance(item, PyTuple) and not isinstance(container_node, (ast.Tuple, ast.List, ast.Set)):
        # (a, b) in (subquery of tuples): Python compares component-wise with ==; a None component of an ELEMENT never equals a
        # value, so such an element simply does not match (pony adds IS NOT NULL filters for that).  A None component of the ITEM
        # could match an element's None in Python (None == None) but never in SQL: left to the recorded region.
        comps = [as_data(x) for x in item.items]
        if not all(isinstance(x, SV) for x in comps): raise Unmodelled('tuple membership over non-scalars')
        env.region('null-element-in-subquery-membership', z3.Or([x.n if x.sort != 'null' else TRUE for x in comps]))
        hits = []
        if not negated:
            # `(a, b) in S` can still end up under a `not (...)`: pony adds its IS NOT NULL filters only for the `not in` spelling, so
            # elements with a None component belong to the recorded region for the `in` spelling (same as for scalar items)
            env.region('null-element-in-subquery-membership',
                       z3.Or([z3.And(g, z3.Or([as_data(e_).n for e_ in v.items if isinstance(as_data(e_), SV)])) for g, v in vals if isinstance(v, PyTuple)] or [FALSE]))
        for g, v in vals:
            if not isinstance(v, PyTuple) or len(v.items) != len(comps): raise Unmodelled('tuple membership: element shape')
            parts = []
            for x, y in zip(comps, [as_data(e) for e in v.items]):
                if not isinstance(y, SV): raise Unmodelled('tuple membership over non-scalars')
                c = cmp_values(env, '==', x, y)
                parts.append(z3.And(z3.Not(c.n), c.t))
            hits.append(z3.And(g, *parts))
        return cond(z3.Or(hits))
    if not isinstance(container_node, (ast.Tuple, ast.List, ast.Set)):
        # a collection / subquery: Python compares the item with each element by ==, and `x == None` is simply False, so a
        # missing ELEMENT never makes the test UNKNOWN (pony filters NULL elements out to match this); a missing ITEM does
        nulls = [z3.And(g, is_none(env, as_data(v))) for g, v in vals]
        env.region('null-element-in-subquery-membership', z3.Or(nulls))
        vals = [(z3.And(g, z3.Not(is_none(env, as_data(v)))), v) for g, v in vals]
    eqs = [(g, cmp_values(env, '==', item, v)) for g, v in vals]
    any_true = z3.Or([z3.And(g, is_true(c)) for g, c in eqs])
    any_unknown = z3.Or([z3.And(g, c.n) for g, c in eqs])
    return cond(any_true, z3.And(z3.Not(any_true), any_unknown))


def _boolop(node, env):
    vals = []
    pushed = 0
    is_and = isinstance(node.op, ast.And)
    try:
        for v in node.values:
            raw = ev(v, env)
            t = truth(env, raw)
            if isinstance(raw, SV) and raw.sort not in ('cond', 'null') and not z3.is_false(raw.n):
                env.region('null-truth-test-inside-and-or', raw.n)
            vals.append(t)
            # Python evaluates the next operand only if this one did not decide the result (UNKNOWN counts as "goes on")
            go_on = z3.Or(t.n, t.t) if is_and else z3.Or(t.n, z3.Not(t.t))
            env.path.append(go_on); pushed += 1
    finally:
        for _ in range(pushed): env.path.pop()
    r = and3(vals) if is_and else or3(vals)
    return cond(r.t, r.n)


def _unary(node, env):
    v = ev(node.operand, env)
    if isinstance(node.op, ast.Not):
        t = truth(env, v)
        return cond(z3.Not(t.t), t.n)
    v = as_data(v)
    if isinstance(node.op, ast.USub):
        if not isinstance(v, SV) or v.sort not in ('int', 'real', 'bool', 'null'): raise Unmodelled('negation')
        if v.sort == 'null': return v
        if v.sort == 'bool': v = to_int(v)
        env.undefined.append(v.n)                          # Python: bad operand type for unary -: 'NoneType'
        return SV(v.sort, -v.t, v.n)
    if isinstance(node.op, ast.UAdd): return v
    raise Unmodelled('unary %s' % type(node.op).__name__)


def _binop(node, env):
    op = BINOPS.get(type(node.op))
    if op is None: raise Unmodelled('binary %s' % type(node.op).__name__)
    return arith(env, op, ev(node.left, env), ev(node.right, env))


def _ifexp(node, env):
    t = is_true(truth(env, ev(node.test, env)))
    with env.under(t): a = as_data(ev(node.body, env))
    with env.under(z3.Not(t)): b = as_data(ev(node.orelse, env))
    if isinstance(a, SV) and isinstance(b, SV): return ite(t, a, b)
    raise Unmodelled('conditional expression over non-scalars')


def _subscript(node, env):
    v = as_data(ev(node.value, env))
    if not (isinstance(v, SV) and v.sort == 'str'): raise Unmodelled('subscript of a non-string')
    env.undefined.append(v.n)                              # Python: 'NoneType' object is not subscriptable
    n = z3.Length(v.t)
    sl = node.slice
    if isinstance(sl, ast.Slice):
        if sl.step is not None: raise Unmodelled('slice step')
        def bound(x):
            if x is None: return None
            b = as_data(ev(x, env))
            if not isinstance(b, SV) or b.sort not in ('int', 'null'): raise Unmodelled('slice bound')
            return b
        lo_b, hi_b = bound(sl.lower), bound(sl.upper)
        if hi_b is not None and hi_b.sort == 'int':
            zero_start = TRUE if lo_b is None or lo_b.sort == 'null' else z3.Or(lo_b.n, lo_b.t == 0)
            env.region('slice-from-0-to-minus-1-returns-whole-string', z3.And(z3.Not(hi_b.n), hi_b.t == -1, zero_start))
        lo, hi = sqlsem.py_slice_window(n, lo_b, hi_b)
        return sqlsem.str_window(v, lo, hi, FALSE)
    i = as_data(ev(sl, env))
    if not isinstance(i, SV) or i.sort != 'int': raise Unmodelled('string index')
    env.undefined.append(z3.And(z3.Not(v.n), z3.Or(i.n, i.t >= n, i.t < -n)))
    lo = z3.If(i.t < 0, i.t + n, i.t)
    return SV('str', z3.SubString(v.t, lo, 1), z3.Or(v.n, i.n))


def _tuple(node, env):
    return PyTuple([ev(x, env) for x in node.elts])


def gen_items(node, env):
    """[(guard, env)] for the for/if clauses of a generator expression"""
    combos = [(TRUE, env)]
    for comp in node.generators:
        if not isinstance(comp.target, ast.Name): raise Unmodelled('tuple loop target')
        new = []
        for g, e in combos:
            src = ev(comp.iter, e)
            if isinstance(src, EntityName): items = rows_of(e, src.ent); ent = src.ent
            elif isinstance(src, Coll): items, ent = src.items, src.ent
            else: raise Unmodelled('iteration over %r' % (src,))
            for g2, r in items:
                e2 = e.child(**{comp.target.id: ERef(ent, row=r)})
                gg = z3.And(g, g2)
                for c in comp.ifs:
                    with e2.under(gg):
                        gg = z3.And(gg, is_true(truth(e2, ev(c, e2))))
                new.append((gg, e2))
        combos = new
    return combos


def _genexp(node, env):
    out = []
    for g, e in gen_items(node, env):
        with e.under(g): v = as_data(ev(node.elt, e))
        if isinstance(v, ERef) and v.row is None:
            # (p.g for p in ...) : an indirect reference -> the referenced rows
            for g2, r2 in rows_of(env, v.ent):
                tinfo = env.S.ents[v.ent]
                out.append((z3.And(g, g2, z3.Not(v.pk.n), r2.cols[tinfo.pk].t == v.pk.t), ERef(v.ent, row=r2)))
            out.append((z3.And(g, v.pk.n), NONE_REF(v.ent)))
            continue
        out.append((g, v))
    out = [(g, v) for g, v in out if not isinstance(v, _NoneRef)] if all(isinstance(v, (ERef, _NoneRef)) for _, v in out) and False else out
    if out and all(isinstance(v, ERef) and v.row is not None for _, v in out):
        return Coll(out[0][1].ent, [(g, v.row) for g, v in out])
    return Bag(out)


class _NoneRef(object):
    def __init__(self, ent): self.ent = ent


def NONE_REF(ent):
    return ERef(ent, pk=SV('int', z3.IntVal(0), TRUE))


def bag_values(env, v):
    if isinstance(v, Bag): return v.items
    if isinstance(v, Coll): return [(g, ERef(v.ent, row=r)) for g, r in v.items]
    raise Unmodelled('aggregate over %r' % (v,))


def aggregate(env, name, v, distinct=False):
    if getattr(v, 'multi', False) and name in ('count', 'len', 'sum', 'avg'):
        raise Unmodelled('multiplicity-sensitive aggregate over a path through a to-one / many-to-many hop (Multiset in memory, DISTINCT in SQL)')
    items = bag_values(env, v)
    Z = z3.IntVal
    if name in ('count', 'len'):
        if items and isinstance(items[0][1], ERef):
            # a collection of entities is a set: count distinct rows
            pks = [(g, pk_of(env, x)) for g, x in items]
            live = []
            for j, (g, p) in enumerate(pks):
                dup = z3.Or([z3.And(pks[k][0], pks[k][1].t == p.t) for k in range(j)]) if j else FALSE
                live.append(z3.And(g, z3.Not(dup)))
            return SV('int', z3.Sum([z3.If(l, Z(1), Z(0)) for l in live]) if live else Z(0))
        raise Unmodelled('count of scalar values (DISTINCT semantics are pony-specific)')
    vals = [(g, as_data(x)) for g, x in items]
    if not vals:
        return SV('int', Z(0)) if name == 'sum' else null('int')
    if not all(isinstance(x, SV) for _, x in vals): raise Unmodelled('%s over entities' % name)
    sort0 = [x.sort for _, x in vals if x.sort != 'null']
    sort0 = sort0[0] if sort0 else 'int'
    vals = [(g, typed_null(x, sort0)) for g, x in vals]
    if sort0 == 'bool': vals = [(g, to_int(x)) for g, x in vals]; sort0 = 'int'
    live = [z3.And(g, z3.Not(x.n)) for g, x in vals]
    none = z3.Not(z3.Or(live))
    if name == 'sum':
        if sort0 not in ('int', 'real'): raise Unmodelled('sum of %s' % sort0)
        zero = Z(0) if sort0 == 'int' else z3.RealVal(0)
        return SV(sort0, z3.Sum([z3.If(l, x.t, zero) for l, (_, x) in zip(live, vals)]))     # sum of nothing is 0
    if name in ('min', 'max'):
        acc_t, acc_set = vals[0][1].t, live[0]
        for l, (_, x) in list(zip(live, vals))[1:]:
            better = (x.t <= acc_t) if name == 'min' else (acc_t <= x.t)
            take = z3.And(l, z3.Or(z3.Not(acc_set), better))
            acc_t = z3.If(take, x.t, acc_t)
            acc_set = z3.Or(acc_set, l)
        return SV(sort0, acc_t, none)
    if name == 'avg':
        if sort0 not in ('int', 'real'): raise Unmodelled('avg of %s' % sort0)
        cnt = z3.Sum([z3.If(l, Z(1), Z(0)) for l in live])
        tot = z3.Sum([z3.If(l, z3.ToReal(x.t) if sort0 == 'int' else x.t, z3.RealVal(0)) for l, (_, x) in zip(live, vals)])
        res = z3.RealVal(0)
        for k in range(len(vals), 0, -1):
            res = z3.If(cnt == k, tot / k, res)
        return SV('real', res, none)
    raise Unmodelled('aggregate %s' % name)


def _call(node, env):
    f = node.func
    if isinstance(f, ast.Name):
        name = f.id
        args = node.args
        if name in ('len', 'count') and len(args) == 1:
            v = as_data(ev(args[0], env))
            if isinstance(v, SV):
                if name == 'len' and v.sort == 'str':
                    env.undefined.append(v.n)              # Python: object of type 'NoneType' has no len()
                    return SV('int', z3.Length(v.t), v.n)
                raise Unmodelled('%s of a scalar' % name)
            return aggregate(env, name, v)
        if name in ('sum', 'avg') and len(args) == 1:
            return aggregate(env, name, ev(args[0], env))
        if name in ('min', 'max'):
            if len(args) == 1:
                return aggregate(env, name, ev(args[0], env))
            vals = [as_data(ev(a, env)) for a in args]
            if not all(isinstance(v, SV) for v in vals): raise Unmodelled('min/max of non-scalars')
            res = vals[0]
            for v in vals[1:]:
                x, y = unify(res, v)
                if x.sort == 'bool': x, y = to_int(x), to_int(y)
                env.undefined.append(z3.Or(x.n, y.n))          # Python: TypeError when ordering None
                c = (x.t >= y.t) if name == 'max' else (x.t <= y.t)
                res = SV(x.sort, z3.If(c, x.t, y.t), z3.Or(x.n, y.n))
            return res
        if name == 'abs' and len(args) == 1:
            v = as_data(ev(args[0], env))
            if not isinstance(v, SV) or v.sort not in ('int', 'real', 'bool'): raise Unmodelled('abs')
            if v.sort == 'bool': v = to_int(v)
            env.undefined.append(v.n)                      # Python: bad operand type for abs(): 'NoneType'
            return SV(v.sort, z3.If(v.t < 0, -v.t, v.t), v.n)
        if name == 'date' and len(args) == 3:
            parts = [as_data(ev(a_, env)) for a_ in args]
            if not all(isinstance(x, SV) and x.sort == 'int' and z3.is_int_value(x.t) for x in parts): raise Unmodelled('date() of non-constant parts')
            y, mo, d = [x.t.as_long() for x in parts]
            return SV('date', z3.IntVal(y * 10000 + mo * 100 + d))
        if name == 'JOIN' and len(args) == 1:
            return ev(args[0], env)                      # a translation hint: no effect on the value
        if name == 'exists' and len(args) == 1:
            return truth(env, ev(args[0], env))
        if name == 'between' and len(args) == 3:
            # pony.orm.core.between(x, a, b): a <= x <= b
            x, lo, hi = [as_data(ev(a_, env)) for a_ in args]
            r = and3([cmp_values(env, '<=', lo, x), cmp_values(env, '<=', x, hi)])
            return cond(r.t, r.n)
        if name == 'concat' and len(args) >= 2:
            # pony.orm.core.concat(*args): ''.join(str(arg) ...); str(None) == 'None' has no SQL counterpart and is left out of the claim
            vals = [as_data(ev(a_, env)) for a_ in args]
            parts = []
            for v in vals:
                if not isinstance(v, SV) or v.sort not in ('str', 'int'): raise Unmodelled('concat of %r' % (v,))
                env.undefined.append(v.n)
                parts.append(v.t if v.sort == 'str' else sqlsem.INT2STR(v.t))
            return SV('str', z3.Concat(*parts), z3.Or([v.n for v in vals]))
        if name == 'str' and len(args) == 1:
            v = as_data(ev(args[0], env))
            if not isinstance(v, SV) or v.sort not in ('int', 'str'): raise Unmodelled('str() of %r' % (v,))
            env.undefined.append(v.n)                      # str(None) == 'None': no SQL counterpart, outside the claim
            return v if v.sort == 'str' else SV('str', sqlsem.INT2STR(v.t), v.n)
        if name == 'coalesce':
            vals = [as_data(ev(a, env)) for a in args]
            res = vals[-1]
            for v in reversed(vals[:-1]):
                res = ite(v.n if v.sort != 'null' else TRUE, res, v)
            return res
        if name == 'select' and len(args) == 1 and isinstance(args[0], ast.GeneratorExp):
            return ev(args[0], env)
        if name == 'isinstance' and len(args) == 2:
            v = ev(args[0], env)
            if not isinstance(v, ERef): raise Unmodelled('isinstance of a non-entity')
            classes = args[1].elts if isinstance(args[1], ast.Tuple) else [args[1]]
            info = env.S.ents[v.ent]
            conds = []
            for c in classes:
                cinfo = env.S.ents[c.id]
                if v.row is not None:
                    conds.append(member_of(env.S, cinfo, v.row))
                else:
                    hit = FALSE
                    for g, r in rows_of(env, v.ent):
                        hit = z3.If(z3.And(g, r.cols[info.pk].t == v.pk.t), member_of(env.S, cinfo, r), hit)
                    conds.append(z3.And(z3.Not(v.pk.n), hit))
            return cond(z3.Or(conds))
        raise Unmodelled('function %s' % name)
    if isinstance(f, ast.Attribute):
        recv = as_data(ev(f.value, env))
        m = f.attr
        if isinstance(recv, ERef):
            hyb = hybrid(env, recv.ent, m)
            if hyb is not None and hyb[0] == 'method':
                return call_hybrid(env, recv, hyb[1], [ev(a, env) for a in node.args])
            raise Unmodelled('method %s of an entity' % m)
        if isinstance(recv, SV) and recv.sort in ('str', 'null'):
            if recv.sort == 'null': raise Unmodelled('method of None')
            env.undefined.append(recv.n)                   # Python: 'NoneType' object has no attribute ...
            args = [as_data(ev(a, env)) for a in node.args]
            for a_ in args:
                if isinstance(a_, SV): env.undefined.append(a_.n)      # Python: TypeError (must be str, not None)
            if m in ('startswith', 'endswith') and len(args) == 1 and isinstance(args[0], SV) and args[0].sort == 'str':
                if env.dialect == 'Oracle':
                    env.region('oracle-empty-string-is-null', z3.Or(z3.And(z3.Not(recv.n), z3.Length(recv.t) == 0), z3.And(z3.Not(args[0].n), z3.Length(args[0].t) == 0)))
                t = z3.PrefixOf(args[0].t, recv.t) if m == 'startswith' else z3.SuffixOf(args[0].t, recv.t)
                return cond(t, z3.Or(recv.n, args[0].n))
            if m == 'upper' and not args: return SV('str', sqlsem.UPPER(recv.t), recv.n)
            if m == 'lower' and not args: return SV('str', sqlsem.LOWER(recv.t), recv.n)
            if m in ('strip', 'lstrip', 'rstrip') and len(args) <= 1:
                k = {'strip': 'trim', 'lstrip': 'ltrim', 'rstrip': 'rtrim'}[m]
                if not args: return SV('str', sqlsem.py_trim(k, recv.t), recv.n)
                c = args[0]
                if not isinstance(c, SV) or c.sort != 'str': raise Unmodelled('strip characters')
                if env.dialect == 'MySQL':        # TRIM(BOTH remstr FROM s) removes the STRING remstr, not a set of characters
                    env.region('mysql-trim-removes-a-substring-not-a-character-set', z3.And(z3.Not(recv.n), z3.Not(c.n), z3.Length(c.t) >= 2))
                return SV('str', sqlsem.py_trim(k, recv.t, c.t), z3.Or(recv.n, c.n))
            raise Unmodelled('string method %s' % m)
        if isinstance(recv, EntityName) and m in ('select', 'exists', 'count') and len(node.args) <= 1:
            # Entity.select(lambda x: ...) / Entity.exists(lambda x: ...) nested in a query: the objects of that class (or a subclass)
            items = rows_of(env, recv.ent)
            if node.args:
                lam = node.args[0]
                if not isinstance(lam, ast.Lambda) or len(lam.args.args) != 1: raise Unmodelled('entity method argument')
                var = lam.args.args[0].arg
                kept = []
                for g, r in items:
                    e2 = env.child(**{var: ERef(recv.ent, row=r)})
                    with e2.under(g): kept.append((z3.And(g, is_true(truth(e2, ev(lam.body, e2)))), r))
                items = kept
            coll = Coll(recv.ent, items)
            if m == 'select': return coll
            if m == 'exists': return cond(z3.Or([g for g, _ in items]) if items else FALSE)
            return aggregate(env, 'count', coll)
        if isinstance(recv, (Coll, Bag)):
            if m in ('count',) and not node.args: return aggregate(env, 'count', recv)
            if m == 'is_empty' and not node.args:
                t = truth(env, recv); return cond(z3.Not(t.t))
            if m in ('select', 'filter') and len(node.args) == 1 and isinstance(node.args[0], ast.Lambda) and isinstance(recv, Coll):
                lam = node.args[0]
                var = lam.args.args[0].arg
                items = []
                for g, r in recv.items:
                    e2 = env.child(**{var: ERef(recv.ent, row=r)})
                    items.append((z3.And(g, is_true(truth(e2, ev(lam.body, e2)))), r))
                return Coll(recv.ent, items)
            raise Unmodelled('collection method %s' % m)
        raise Unmodelled('method call %s' % m)
    raise Unmodelled('call')


_EV = {ast.Name: _name, ast.Constant: _const, ast.Attribute: _attr, ast.Compare: _compare, ast.BoolOp: _boolop, ast.UnaryOp: _unary,
       ast.BinOp: _binop, ast.IfExp: _ifexp, ast.Subscript: _subscript, ast.Tuple: _tuple, ast.GeneratorExp: _genexp, ast.Call: _call}


def eval_query(tree, env, with_env=False):
    """top-level generator expression -> [(guard, [element values])]; element values are SV or ERef (definite row).
    with_env: rows are (guard, values, row environment) so that order keys / later filters can be evaluated per row"""
    if not isinstance(tree, ast.GeneratorExp): raise Unmodelled('query is not a generator expression')
    rows = []
    if with_env:
        for g, e in gen_items(tree, env):
            elt = tree.elt
            parts = elt.elts if isinstance(elt, ast.Tuple) else [elt]
            with e.under(g): vals = [as_data(ev(p, e)) for p in parts]
            if any(isinstance(v, ERef) and v.row is None for v in vals): raise Unmodelled('indirect reference in an ordered query')
            rows.append((g, vals, e))
        return rows
    for g, e in gen_items(tree, env):
        elt = tree.elt
        parts = elt.elts if isinstance(elt, ast.Tuple) else [elt]
        with e.under(g): vals = [as_data(ev(p, e)) for p in parts]
        if len(vals) == 1 and isinstance(vals[0], ERef) and vals[0].row is None:
            # (p.g for p in P): the referenced rows; a None reference is a None element
            v = vals[0]
            tinfo = env.S.ents[v.ent]
            for g2, r2 in rows_of(env, v.ent):
                rows.append((z3.And(g, g2, z3.Not(v.pk.n), r2.cols[tinfo.pk].t == v.pk.t), [ERef(v.ent, row=r2)]))
            env.region('optional-reference-navigation-inner-join', z3.And(g, v.pk.n))
            nullrow = sqlsem.NullRow(env.S.tables[tinfo.table][0])
            rows.append((z3.And(g, v.pk.n), [ERef(v.ent, row=nullrow)]))
            continue
        if env.dialect == 'Oracle':
            for v in vals:
                if isinstance(v, SV) and v.sort == 'str':
                    env.region('oracle-empty-string-is-null', z3.And(g, z3.Not(v.n), z3.Length(v.t) == 0))
        rows.append((g, vals))
    return rows
