"""Symbolic database for a mapped pony Database: R row slots per table, every column a z3 constant.

Built from the *real* mapping (entity._table_, attr.columns, attr.nullable, converters' py_type), so a schema change in
the harness is picked up without touching this file.  Only what E1 needs is modelled: single-column integer primary
keys, scalar columns of int / bool / str / float, to-one references (foreign key column) and their reverse sets.
Many-to-many tables get their own row slots (two FK columns).
"""
import z3
from .values import SV, TRUE, FALSE, Unmodelled
from .sqlsem import Row

import datetime as _dt
SORTS = {int: 'int', bool: 'bool', str: 'str', float: 'real', _dt.date: 'date'}


class AttrInfo(object):
    def __init__(self, name, kind, col=None, sort=None, nullable=False, target=None, reverse=None, m2m=None):
        self.name, self.kind, self.col, self.sort, self.nullable = name, kind, col, sort, nullable
        self.target, self.reverse, self.m2m = target, reverse, m2m      # m2m = (table, my_col, other_col)


class EntInfo(object):
    def __init__(self, name, table, pk):
        self.name, self.table, self.pk = name, table, pk
        self.attrs = {}
        self.discriminator = None       # (col, {code: class name}) for inheritance roots
        self.codes = None               # set of discriminator codes that denote this class or a subclass
        self.root = name


class Schema(object):
    def __init__(self):
        self.ents = {}
        self.tables = {}          # table name -> [Row]
        self.constraints = []
        self.symbols = []         # (description, z3 term) for model printing
        self.strlen = 3


def tname(t):
    return t if isinstance(t, str) else t[-1]


def build(db, R=2, strlen=3, prefix=''):
    S = Schema(); S.strlen = strlen
    S.classes = {e.__name__: e for e in db.entities.values()}      # for hybrid methods / properties (source is read by pysem)
    ents = sorted(db.entities.values(), key=lambda e: e.__name__)
    Z = z3.IntVal
    # pass 1: tables of root entities
    for ent in ents:
        root = ent._root_
        table = tname(root._table_)
        pk_attrs = ent._pk_attrs_
        if len(pk_attrs) != 1 or len(pk_attrs[0].columns) != 1 or pk_attrs[0].py_type is not int:
            raise Unmodelled('entity %s: only single int primary keys are modelled' % ent.__name__)
        info = EntInfo(ent.__name__, table, pk_attrs[0].columns[0])
        info.root = root.__name__
        S.ents[ent.__name__] = info
    for ent in ents:
        info = S.ents[ent.__name__]
        root = ent._root_
        if ent is root:
            rows = []
            for i in range(R):
                rows.append(Row(info.table, i, z3.Bool('%s%s_%d_present' % (prefix, info.table, i)), {}))
            S.tables[info.table] = rows
    # pass 2: columns
    for ent in ents:
        info = S.ents[ent.__name__]
        rows = S.tables[info.table]
        for attr in ent._attrs_:
            if attr.is_collection:
                rev = attr.reverse
                if rev.is_collection:
                    info.attrs[attr.name] = AttrInfo(attr.name, 'm2m', target=rev.entity.__name__, reverse=rev.name)
                else:
                    info.attrs[attr.name] = AttrInfo(attr.name, 'set', target=rev.entity.__name__, reverse=rev.name)
                continue
            if not attr.columns:
                # one-to-one without column on this side
                info.attrs[attr.name] = AttrInfo(attr.name, 'backref', target=attr.reverse.entity.__name__, reverse=attr.reverse.name)
                continue
            if len(attr.columns) != 1: raise Unmodelled('composite column attribute %s' % attr)
            col = attr.columns[0]
            if attr.reverse is not None:
                sort, kind, target = 'int', 'ref', attr.reverse.entity.__name__
            else:
                sort = SORTS.get(attr.py_type)
                if sort is None: raise Unmodelled('attribute %s of type %s' % (attr, attr.py_type))
                kind, target = 'scalar', None
            nullable = bool(attr.nullable)
            ai = AttrInfo(attr.name, kind, col, sort, nullable, target, attr.reverse.name if attr.reverse is not None else None)
            info.attrs[attr.name] = ai
            for r in rows:
                if col in r.cols: continue
                base = '%s%s_%d_%s' % (prefix, info.table, r.slot, col)
                if sort == 'date':
                    t = date_term(base, S.constraints)
                else:
                    t = {'int': z3.Int, 'bool': z3.Bool, 'str': z3.String, 'real': z3.Real}[sort](base)
                # a column declared on a subclass is nullable at table level
                tbl_nullable = nullable or (attr.entity is not ent._root_)
                n = z3.Bool(base + '_null') if tbl_nullable else FALSE
                r.cols[col] = SV(sort, t, n)
                S.symbols.append((base, t, n))
                if sort == 'str':
                    S.constraints.append(z3.Length(t) <= strlen)
                    S.constraints.append(printable(t))
                    if attr.is_required and not tbl_nullable:
                        S.constraints.append(z3.Length(t) > 0)      # Required(str) rejects '' on every write path (C08)
    # discriminators.  Class membership follows Python's own subclass relation between the entity classes (issubclass), NOT the
    # _subclasses_ / _all_bases_ tables pony derives from it - those are part of what is being checked
    def subclasses_of(e0):
        return [e for e in ents if e is not e0 and issubclass(e, e0)]
    for ent in ents:
        root = ent._root_
        if root._discriminator_attr_ is not None and (root._subclasses_ or True):
            dattr = root._discriminator_attr_
            info = S.ents[ent.__name__]
            codes = {e._discriminator_ for e in [ent] + subclasses_of(ent)}
            info.discriminator = dattr.columns[0]
            info.codes = codes
            if ent is root:
                allcodes = {e._discriminator_ for e in [root] + subclasses_of(root)}
                for r in S.tables[info.table]:
                    v = r.cols[dattr.columns[0]]
                    S.constraints.append(z3.Or([v.t == const_term(c) for c in sorted(allcodes, key=repr)]))
                # columns declared on a subclass are NULL in rows of classes that do not have them
                for sub in subclasses_of(root):
                    sub_codes = {e._discriminator_ for e in [sub] + subclasses_of(sub)}
                    for attr in sub._new_attrs_:
                        if not attr.columns or attr.is_collection: continue
                        for r in S.tables[info.table]:
                            v = r.cols[attr.columns[0]]
                            d = r.cols[dattr.columns[0]]
                            member = z3.Or([d.t == const_term(c) for c in sorted(sub_codes, key=repr)])
                            S.constraints.append(z3.Implies(z3.Not(member), v.n))
                            if not attr.nullable:
                                S.constraints.append(z3.Implies(member, z3.Not(v.n)))
    # primary keys distinct and positive; foreign keys valid
    for table, rows in S.tables.items():
        pkcols = {S.ents[e].pk for e in S.ents if S.ents[e].table == table}
        pk = sorted(pkcols)[0]
        for i, r in enumerate(rows):
            S.constraints.append(r.cols[pk].t >= 1)
            for r2 in rows[:i]:
                S.constraints.append(r.cols[pk].t != r2.cols[pk].t)
    for ent in ents:
        info = S.ents[ent.__name__]
        for ai in info.attrs.values():
            if ai.kind != 'ref': continue
            tinfo = S.ents[ai.target]
            for r in S.tables[info.table]:
                v = r.cols[ai.col]
                ok = z3.Or([z3.And(t.present, t.cols[tinfo.pk].t == v.t, member_of(S, tinfo, t)) for t in S.tables[tinfo.table]])
                S.constraints.append(z3.Implies(z3.And(r.present, z3.Not(v.n)), ok))
            # unique (one-to-one) references
            attr = getattr(ent, ai.name)
            if attr.is_unique:
                rows = S.tables[info.table]
                for i, r in enumerate(rows):
                    for r2 in rows[:i]:
                        a, b = r.cols[ai.col], r2.cols[ai.col]
                        S.constraints.append(z3.Implies(z3.And(r.present, r2.present, z3.Not(a.n), z3.Not(b.n)), a.t != b.t))
    # m2m tables: one row slot set per table; column attr.columns[0] holds the key of the OTHER side (attr.reverse.entity),
    # attr.reverse.columns[0] the key of attr.entity
    S.m2m_sides = {}
    for ent in ents:
        info = S.ents[ent.__name__]
        for ai in info.attrs.values():
            if ai.kind != 'm2m': continue
            attr = getattr(ent, ai.name)
            rev = attr.reverse
            table = tname(attr.table)
            mine, other = rev.columns[0], attr.columns[0]
            ai.m2m = (table, mine, other)
            if table in S.tables: continue
            rows = []
            for i in range(R):
                r = Row(table, i, z3.Bool('%s%s_%d_present' % (prefix, table, i)), {})
                for c in (mine, other):
                    r.cols[c] = SV('int', z3.Int('%s%s_%d_%s' % (prefix, table, i, c)))
                    S.symbols.append(('%s_%d_%s' % (table, i, c), r.cols[c].t, FALSE))
                rows.append(r)
            S.tables[table] = rows
            S.m2m_sides[table] = {mine: ent.__name__, other: rev.entity.__name__}
            for r in rows:
                for c, ename in S.m2m_sides[table].items():
                    tinfo = S.ents[ename]
                    v = r.cols[c]
                    okk = z3.Or([z3.And(t.present, t.cols[tinfo.pk].t == v.t) for t in S.tables[tinfo.table]])
                    S.constraints.append(z3.Implies(r.present, okk))
            for i, r in enumerate(rows):
                for r2 in rows[:i]:
                    S.constraints.append(z3.Implies(z3.And(r.present, r2.present), z3.Or([r.cols[c].t != r2.cols[c].t for c in r.cols])))
    return S


_PRINTABLE = None


def printable(t):
    """characters restricted to printable ASCII (no NUL / control characters: SQLite's C string functions stop at NUL)"""
    global _PRINTABLE
    if _PRINTABLE is None:
        _PRINTABLE = z3.Star(z3.Range(' ', '~'))
    return z3.InRe(t, _PRINTABLE)


def date_term(base, constraints):
    """a calendar date as the integer yyyymmdd (ordered like the dates, and like SQLite's 'YYYY-MM-DD' text); days 1..28 so that
    every (y, m, d) is a real date"""
    y, mo, d = z3.Int(base + '_y'), z3.Int(base + '_m'), z3.Int(base + '_d')
    constraints += [y >= 1, y <= 9999, mo >= 1, mo <= 12, d >= 1, d <= 28]
    return y * 10000 + mo * 100 + d


def const_term(c):
    if isinstance(c, bool): return z3.BoolVal(c)
    if isinstance(c, int): return z3.IntVal(c)
    if isinstance(c, str): return z3.StringVal(c)
    raise Unmodelled('discriminator value %r' % (c,))


def member_of(S, info, row):
    """z3 Bool: the row belongs to entity `info` (or a subclass) according to its discriminator"""
    if info.discriminator is None or info.codes is None: return TRUE
    d = row.cols[info.discriminator]
    return z3.Or([d.t == const_term(c) for c in sorted(info.codes, key=repr)])


def mtrue(m, e):
    """truth of a z3 Bool under model m (m.eval leaves some string equalities unsimplified)"""
    v = m.eval(e, model_completion=True)
    if z3.is_true(v): return True
    if z3.is_false(v): return False
    v = z3.simplify(v)
    if z3.is_true(v): return True
    if z3.is_false(v): return False
    s = z3.Solver(); s.add(v)
    return s.check() == z3.sat


def model_value(m, sv):
    """concrete Python value of an SV under a z3 model (None for NULL)"""
    if sv.sort == 'null': return None
    if mtrue(m, sv.n): return None
    v = z3.simplify(m.eval(sv.t, model_completion=True))
    if sv.sort in ('int',): return v.as_long()
    if sv.sort == 'date':
        k = v.as_long()
        return _dt.date(k // 10000, k // 100 % 100, k % 100)
    if sv.sort in ('bool', 'cond'): return mtrue(m, sv.t)
    if sv.sort == 'str': return z3str(v)
    if sv.sort == 'real':
        f = v.as_fraction() if hasattr(v, 'as_fraction') else None
        return float(f) if f is not None else float(str(v))
    raise Unmodelled('model value of sort %s' % sv.sort)


def z3str(v):
    import re
    s = v.as_string()
    return re.sub(r'\\u\{([0-9a-fA-F]+)\}', lambda mo: chr(int(mo.group(1), 16)), s)


def concrete_rows(S, m):
    """{table: [ {col: value} ]} for present rows under model m"""
    out = {}
    for table, rows in S.tables.items():
        out[table] = []
        for r in rows:
            if mtrue(m, r.present):
                out[table].append({c: model_value(m, v) for c, v in r.cols.items()})
    return out
