"""Denotational semantics of the parsed SQL text over a symbolic database (z3 terms).

Dialect deltas (each with the manual paragraph it encodes) live in `Dialect*` helper
functions at the bottom.  Anything not modelled raises Unmodelled.
"""
import itertools
import z3
from .values import *  # noqa
from .values import SV, Window, Unmodelled, SQLError, TRUE, FALSE

AGG_FUNCS = {'count', 'sum', 'avg', 'group_concat', 'string_agg', 'listagg'}


class Row(object):
    """one row slot of a symbolic table"""
    __slots__ = ('present', 'cols', 'table', 'slot')
    def __init__(self, table, slot, present, cols):
        self.table, self.slot, self.present, self.cols = table, slot, present, cols


class NullRow(object):
    present = TRUE
    def __init__(self, like):
        self.cols = {k: SV(v.sort, v.t, TRUE) for k, v in like.cols.items()}


class Env(object):
    def __init__(self, ctx, rows=None, parent=None, agg=None):
        self.ctx = ctx            # Ctx: db, params, dialect
        self.rows = rows or {}    # alias -> Row
        self.parent = parent
        self.agg = agg            # list of (guard, Env) members when evaluating in aggregate context

    def child(self, rows):
        r = dict(self.rows); r.update(rows)
        e = Env(self.ctx, r, self.parent, None)
        e.scopes = getattr(self, 'scopes', []) + [list(rows)]       # innermost last: an unqualified name binds to the nearest scope
        return e

    def lookup(self, alias, name):
        e = self
        while e is not None:
            if alias is not None:
                row = _ci_get(e.rows, alias)
                if row is not None:
                    v = _ci_get(row.cols, name)
                    if v is None: raise Unmodelled('unknown column %s.%s' % (alias, name))
                    return v
            else:
                for scope in reversed(getattr(e, 'scopes', [])):
                    inner = [e.rows[k] for k in scope if k in e.rows and _ci_get(e.rows[k].cols, name) is not None]
                    if len(inner) == 1: return _ci_get(inner[0].cols, name)
                    if len(inner) > 1: raise Unmodelled('ambiguous column %s' % name)
                hits = [r for r in e.rows.values() if _ci_get(r.cols, name) is not None]
                if len(hits) == 1: return _ci_get(hits[0].cols, name)
                if len(hits) > 1: raise Unmodelled('ambiguous column %s' % name)
            e = e.parent
        raise Unmodelled('unknown column %s.%s' % (alias, name))


def _ci_get(d, key):
    if key in d: return d[key]
    kl = key.lower()
    for k, v in d.items():
        if k.lower() == kl: return v
    return None


class Ctx(object):
    def __init__(self, db, params, dialect):
        self.db = db              # dict table name -> [Row]
        self.params = params      # dict key -> SV
        self.dialect = dialect
        self.side = []            # side constraints (definedness assumptions), z3 Bools
        self.div_by_zero = []     # conditions under which SQL divides by zero


def has_agg(e):
    """does expression e contain an aggregate call at this query level?"""
    if not isinstance(e, tuple): return False
    k = e[0]
    if k == 'func':
        name, args = e[1], e[2]
        if name in AGG_FUNCS: return True
        if name in ('min', 'max') and len(args) == 1: return True
        return any(has_agg(a) for a in args)
    if k in ('select', 'subquery', 'exists'): return False
    if k == 'in':
        return has_agg(e[1]) or (isinstance(e[2], list) and any(has_agg(x) for x in e[2]))
    if k == 'case':
        return has_agg(e[1]) or any(has_agg(c) or has_agg(v) for c, v in e[2]) or has_agg(e[3])
    return any(has_agg(x) if isinstance(x, tuple) else (any(has_agg(y) for y in x) if isinstance(x, list) else False) for x in e[1:])


# ---------------------------------------------------------------- scalar expressions
def ev(e, env):
    k = e[0]
    return _EV[k](e, env)


def _lit(e, env): return const(e[1])
def _null(e, env): return null()
def _param(e, env):
    p = env.ctx.params
    if e[1] not in p: raise Unmodelled('unbound parameter %r' % (e[1],))
    return p[e[1]]
def _col(e, env): return env.lookup(e[1], e[2])


def arith(op, a, b, env, python=False):
    dialect = env.ctx.dialect
    if a.sort == 'str' or b.sort == 'str':
        if op == '||' or (python and op == '+'):
            if op == '||':      # SQL concatenation converts numbers to their text rendering
                if a.sort == 'int': a = SV('str', INT2STR(a.t), a.n)
                if b.sort == 'int': b = SV('str', INT2STR(b.t), b.n)
            a, b = unify(a, b)
            return SV('str', z3.Concat(a.t, b.t), z3.Or(a.n, b.n))
        raise Unmodelled('arithmetic %s on strings' % op)
    if op == '||':
        raise Unmodelled('|| on non-strings')
    a, b = unify(a, b)
    if a.sort == 'bool': a, b = to_int(a), to_int(b)
    n = z3.Or(a.n, b.n)
    if a.sort == 'int':
        if op == '+': return SV('int', a.t + b.t, n)
        if op == '-': return SV('int', a.t - b.t, n)
        if op == '*': return SV('int', a.t * b.t, n)
        if op in ('/', '%'):
            zero = z3.And(z3.Not(n), b.t == 0)
            env.ctx.div_by_zero.append(zero)
            if dialect == 'MySQL' and op == '/':
                # MySQL manual 12.6.1: "/" on integers yields a DECIMAL quotient, not an integer
                return SV('real', z3.ToReal(a.t) / z3.ToReal(b.t), z3.Or(n, b.t == 0))
            if dialect == 'Oracle' and op == '/':
                return SV('real', z3.ToReal(a.t) / z3.ToReal(b.t), n)
            # SQLite lang_expr: integer division truncates; division by zero yields NULL.
            # PostgreSQL 9.3 "division (integer division truncates the result)"; % "modulo (remainder)" sign of dividend.
            bb = z3.If(b.t == 0, z3.IntVal(1), b.t)
            t = tdiv(a.t, bb) if op == '/' else tmod(a.t, bb)
            return SV('int', t, z3.Or(n, b.t == 0))
    if a.sort == 'real':
        if op == '+': return SV('real', a.t + b.t, n)
        if op == '-': return SV('real', a.t - b.t, n)
        if op == '*': return SV('real', a.t * b.t, n)
        if op == '/':
            env.ctx.div_by_zero.append(z3.And(z3.Not(n), b.t == 0))
            return SV('real', a.t / b.t, z3.Or(n, b.t == 0))
    raise Unmodelled('arithmetic %s on %s' % (op, a.sort))


def compare(op, a, b, env):
    if a.sort == 'row' or b.sort == 'row':
        raise Unmodelled('row comparison')
    dialect = env.ctx.dialect
    if {a.sort, b.sort} == {'int', 'bool'} and dialect == 'PostgreSQL':
        raise SQLError('PostgreSQL: operator does not exist: boolean %s integer' % op)
    a, b = unify(a, b)
    n = z3.Or(a.n, b.n)
    if a.sort == 'win':
        raise Unmodelled('comparison of window strings')
    if a.sort == 'bool':
        a, b = to_int(a), to_int(b)
    if op == '=': t = a.t == b.t
    elif op == '<>': t = a.t != b.t
    elif a.sort == 'str':
        # binary collation assumed: z3 string order is lexicographic by code point
        if op == '<': t = z3.And(a.t != b.t, z3.StrLE(a.t, b.t)) if hasattr(z3, 'StrLE') else None
        elif op == '<=': t = a.t <= b.t
        elif op == '>': t = z3.And(a.t != b.t, b.t <= a.t)
        elif op == '>=': t = b.t <= a.t
        if op == '<': t = z3.And(a.t != b.t, a.t <= b.t)
    else:
        t = {'<': a.t < b.t, '<=': a.t <= b.t, '>': a.t > b.t, '>=': a.t >= b.t}[op]
    return SV('bool', t, n)


def _bin(e, env):
    op = e[1]
    a, b = ev(e[2], env), ev(e[3], env)
    if op in ('=', '<>', '<', '<=', '>', '>='):
        return compare(op, a, b, env)
    return arith(op, a, b, env)


def _neg(e, env):
    a = ev(e[1], env)
    if a.sort == 'bool': a = to_int(a)
    if a.sort == 'null': return a
    if a.sort not in ('int', 'real'): raise Unmodelled('negation of %s' % a.sort)
    return SV(a.sort, -a.t, a.n)


def _not(e, env): return not3(b3(ev(e[1], env), env.ctx.dialect))
def _and(e, env): return and3([b3(ev(x, env), env.ctx.dialect) for x in e[1]])
def _or(e, env): return or3([b3(ev(x, env), env.ctx.dialect) for x in e[1]])


def _isnull(e, env):
    a = ev(e[1], env)
    if a.sort == 'str' and env.ctx.dialect == 'Oracle':
        isn = z3.Or(a.n, z3.Length(a.t) == 0)      # Oracle: the empty string is NULL
    else:
        isn = a.n
    return SV('bool', z3.Not(isn) if e[2] else isn)


def _in(e, env):
    neg = e[3]
    if isinstance(e[1], tuple) and e[1][0] == 'row':
        # row value constructor on the left: (a, b) [NOT] IN (SELECT x, y ...).  SQL-92 8.2: the row comparison is TRUE when every
        # component pair is equal, FALSE when some pair is definitely different, UNKNOWN otherwise
        lefts = [ev(x, env) for x in e[1][1]]
        if not (isinstance(e[2], tuple) and e[2][0] == 'select'): raise Unmodelled('row value IN a list')
        res = eval_select(e[2], env)
        if len(res.rows) and len(res.rows[0][1]) != len(lefts): raise Unmodelled('row value width')
        if not res.rows: return SV('bool', z3.BoolVal(bool(neg)))
        any_true, any_unknown = [], []
        for g, vals, _ in res.rows:
            cs = [compare('=', x, y, env) for x, y in zip(lefts, vals)]
            all_true = z3.And([is_true(c) for c in cs])
            some_false = z3.Or([z3.And(z3.Not(c.n), z3.Not(c.t)) for c in cs])
            any_true.append(z3.And(g, all_true))
            any_unknown.append(z3.And(g, z3.Not(all_true), z3.Not(some_false)))
        t = z3.Or(any_true)
        r = SV('bool', t, z3.And(z3.Not(t), z3.Or(any_unknown)))
        return not3(r) if neg else r
    a = ev(e[1], env)
    if isinstance(e[2], tuple) and e[2][0] == 'select':
        res = eval_select(e[2], env)
        if len(res.rows) and len(res.rows[0][1]) != 1:
            raise Unmodelled('IN subquery with several columns')
        items = [(g, vals[0]) for g, vals, _ in res.rows]
    else:
        items = [(TRUE, ev(x, env)) for x in e[2]]
    if not items:
        return SV('bool', z3.BoolVal(bool(neg)))
    eqs = []
    for g, v in items:
        c = compare('=', a, v, env)
        eqs.append((g, c))
    any_true = z3.Or([z3.And(g, is_true(c)) for g, c in eqs])
    any_row = z3.Or([g for g, c in eqs])
    any_unknown = z3.Or([z3.And(g, c.n) for g, c in eqs])
    t = any_true
    n = z3.And(z3.Not(any_true), any_unknown)
    r = SV('bool', t, n)
    return not3(r) if neg else r


def like_match(s, pat, esc):
    """LIKE with a *concrete* pattern string -> z3 Bool over the z3 string s.  % = any run, _ = one char."""
    # split into literal pieces separated by wildcards
    parts = []      # list of ('lit', text) | ('any',) | ('one',)
    i = 0
    buf = []
    while i < len(pat):
        c = pat[i]
        if esc is not None and c == esc:
            if i + 1 >= len(pat): raise SQLError('LIKE pattern ends with the escape character')
            buf.append(pat[i + 1]); i += 2; continue
        if c in '%_':
            if buf: parts.append(('lit', ''.join(buf))); buf = []
            parts.append(('any',) if c == '%' else ('one',))
            i += 1; continue
        buf.append(c); i += 1
    if buf: parts.append(('lit', ''.join(buf)))
    re_parts = []
    for p in parts:
        if p[0] == 'lit': re_parts.append(z3.Re(z3.StringVal(p[1])))
        elif p[0] == 'any': re_parts.append(z3.Full(z3.ReSort(z3.StringSort())))
        else: re_parts.append(z3.AllChar(z3.ReSort(z3.StringSort())))
    kinds = [p[0] for p in parts]
    # simple shapes use PrefixOf / SuffixOf / Contains (decided quickly), everything else a regex
    if kinds == []: return s == z3.StringVal('')
    if kinds == ['lit']: return s == z3.StringVal(parts[0][1])
    if kinds == ['any']: return TRUE
    if kinds == ['lit', 'any']: return z3.PrefixOf(z3.StringVal(parts[0][1]), s)
    if kinds == ['any', 'lit']: return z3.SuffixOf(z3.StringVal(parts[1][1]), s)
    if kinds == ['any', 'lit', 'any']: return z3.Contains(s, z3.StringVal(parts[1][1]))
    rx = re_parts[0] if len(re_parts) == 1 else z3.Concat(*re_parts)
    return z3.InRe(s, rx)


def _like(e, env):
    a = ev(e[1], env)
    pat_e, esc_e, neg = e[2], e[3], e[4]
    esc = None
    if esc_e is not None:
        if esc_e[0] != 'lit': raise Unmodelled('non-constant ESCAPE')
        esc = esc_e[1]
    if pat_e[0] == 'lit' and isinstance(pat_e[1], str):
        if a.sort == 'null': return SV('bool', FALSE, TRUE)
        if a.sort != 'str': raise Unmodelled('LIKE on %s' % a.sort)
        if esc is None and env.ctx.dialect == 'MySQL': esc = '\\'     # MySQL: default escape character is backslash
        t = like_match(a.t, pat_e[1], esc)
        r = SV('bool', t, a.n)
    else:
        pat = ev(pat_e, env)
        r = like_dynamic(a, pat, esc, env)
    return not3(r) if neg else r


def like_dynamic(a, pat, esc, env):
    """LIKE with a computed pattern.  Supported shape (what pony emits for startswith/endswith/contains with a
    non-constant operand): the pattern is a concatenation of '%' constants and ONE escaped operand
    replace(replace(replace(x,'!','!!'),'%','!%'),'_','!_'); the evaluator tracks it as an EscPat value."""
    if pat.sort != 'pat': raise Unmodelled('LIKE with a dynamic pattern of unknown shape')
    p = pat.t
    if esc is None or p.esc != esc: raise Unmodelled('escape character mismatch %r vs %r' % (esc, p.esc))
    if a.sort == 'null': return SV('bool', FALSE, TRUE)
    if p.before and p.after: t = z3.Contains(a.t, p.operand.t)
    elif p.after: t = z3.PrefixOf(p.operand.t, a.t)
    elif p.before: t = z3.SuffixOf(p.operand.t, a.t)
    else: t = a.t == p.operand.t
    return SV('bool', t, z3.Or(a.n, pat.n))


class EscPat(object):
    """abstract value: operand string, fully escaped for LIKE with escape char esc, with optional leading/trailing %"""
    def __init__(self, operand, esc, stages, before=False, after=False):
        self.operand, self.esc, self.stages, self.before, self.after = operand, esc, stages, before, after


def _between(e, env):
    a, lo, hi = ev(e[1], env), ev(e[2], env), ev(e[3], env)
    r = and3([compare('>=', a, lo, env), compare('<=', a, hi, env)])
    return not3(r) if e[4] else r


def _case(e, env):
    operand, cases, default = e[1], e[2], e[3]
    res = ev(default, env) if default is not None else null()
    for c, v in reversed(cases):
        if operand is not None:
            cond = compare('=', ev(operand, env), ev(c, env), env)
        else:
            cond = b3(ev(c, env), env.ctx.dialect)
        res = ite(is_true(cond), ev(v, env), res)
    return res


def _exists(e, env):
    res = eval_select(e[1], env)
    t = z3.Or([g for g, _, _ in res.rows]) if res.rows else FALSE
    return SV('bool', z3.Not(t) if e[2] else t)


def _subquery(e, env):
    res = eval_select(e[1], env)
    if not res.single:
        raise Unmodelled('scalar subquery that is not a plain aggregate')
    g, vals, _ = res.rows[0]
    if len(vals) != 1: raise Unmodelled('scalar subquery with several columns')
    return vals[0]


def _row(e, env):
    raise Unmodelled('row value')


def _cast(e, env):
    a = ev(e[1], env)
    ty = e[2]
    if ty.startswith('int') or ty in ('signed', 'bigint', 'integer'):
        if a.sort in ('int', 'bool', 'null'): return to_int(a)
        if a.sort == 'digits': return SV('int', a.t, a.n)        # a group of decimal digits read as a number
    if ty in ('text', 'varchar', 'char') and a.sort == 'str': return a
    if ty in ('text', 'varchar', 'char') and a.sort == 'int': return SV('str', INT2STR(a.t), a.n)
    if ty in ('bool', 'boolean') and a.sort == 'bool': return a
    raise Unmodelled('cast of %s to %s' % (a.sort, ty))


def _typed_lit(e, env):
    import re
    v = e[2]
    text = v[1] if isinstance(v, tuple) else v
    mo = re.match(r'(\d{4})-(\d{2})-(\d{2})$', text) if isinstance(text, str) and str(e[1]).lower() == 'date' else None
    if mo is None: raise Unmodelled('date/time literal')
    return SV('date', z3.IntVal(int(mo.group(1)) * 10000 + int(mo.group(2)) * 100 + int(mo.group(3))))


def substr_window(dialect, n, start, length, has_len):
    """1-based SQL substr(s, start[, length]) on a string of length n -> (lo, hi, null, error) as z3 terms; 0-based half-open.
    SQLite (func.c substrFunc / lang_corefunc "substr(X,Y,Z)"): negative Y counts from the right; Y=0 behaves like
      position 0 "before the first character"; negative Z takes characters preceding Y.
    PostgreSQL (9.4 string functions; SQL standard SUBSTRING): characters at positions start..start+len-1 intersected
      with [1, n]; negative length raises "negative substring length not allowed".
    MySQL (12.8 SUBSTRING): pos=0 -> ''; pos<0 counts from the end, |pos|>n -> ''; len<1 -> ''.
    Oracle (SUBSTR): pos=0 is treated as 1; pos<0 counts backward from the end, |pos|>n -> NULL; len<1 -> NULL;
      an empty result is NULL."""
    Z = z3.IntVal
    err = FALSE
    nul = FALSE
    if dialect == 'SQLite':
        p1 = start
        p2 = length if has_len else n + z3.If(start < 0, -start, start) + 1   # "to the end"
        negp2 = p2 < 0 if has_len else FALSE
        p2a = z3.If(negp2, -p2, p2)
        # if p1 < 0: p1 += len; if p1 < 0: p2 += p1 (>=0), p1 = 0   elif p1 > 0: p1--  elif p2 > 0: p2--
        p1b = z3.If(p1 < 0, z3.If(p1 + n < 0, Z(0), p1 + n), z3.If(p1 > 0, p1 - 1, Z(0)))
        p2b = z3.If(p1 < 0, z3.If(p1 + n < 0, zmax(p2a + p1 + n, Z(0)), p2a), z3.If(p1 > 0, p2a, z3.If(p2a > 0, p2a - 1, p2a)))
        # if negP2: p1 -= p2; if p1 < 0: p2 += p1; p1 = 0
        p1c = z3.If(negp2, z3.If(p1b - p2b < 0, Z(0), p1b - p2b), p1b)
        p2c = z3.If(negp2, z3.If(p1b - p2b < 0, p2b + (p1b - p2b), p2b), p2b)
        # if p1 + p2 > len: p2 = len - p1, if p2 < 0: p2 = 0
        p2d = z3.If(p1c + p2c > n, zmax(n - p1c, Z(0)), p2c)
        return p1c, p1c + p2d, nul, err
    if dialect == 'PostgreSQL':
        s0 = start - 1
        if has_len:
            err = length < 0
            e0 = s0 + length
        else:
            e0 = zmax(n, s0)
        lo = zmin(zmax(s0, Z(0)), n)
        hi = zmin(zmax(e0, Z(0)), n)
        return lo, zmax(hi, lo), nul, err
    if dialect == 'MySQL':
        pos0 = z3.If(start > 0, start - 1, n + start)
        empty = z3.Or(start == 0, z3.And(start < 0, -start > n), start > n)
        if has_len:
            empty = z3.Or(empty, length < 1)
            e0 = pos0 + length
        else:
            e0 = n
        lo = z3.If(empty, Z(0), pos0)
        hi = z3.If(empty, Z(0), zmin(e0, n))
        return lo, zmax(hi, lo), nul, err
    if dialect == 'Oracle':
        st = z3.If(start == 0, Z(1), start)
        pos0 = z3.If(st > 0, st - 1, n + st)
        nul = z3.Or(z3.And(st < 0, -st > n), st > n)
        if has_len:
            nul = z3.Or(nul, length < 1)
            e0 = pos0 + length
        else:
            e0 = n
        lo = pos0
        hi = zmin(e0, n)
        nul = z3.Or(nul, hi <= lo)
        return lo, hi, nul, err
    raise Unmodelled('substr on dialect %s' % dialect)


def py_slice_window(n, start, stop):
    """Python s[start:stop] on a string of length n; start/stop are SV('int') (NULL = omitted bound) -> (lo, hi)"""
    Z = z3.IntVal
    def norm(v, dflt):
        if v is None or v.sort == 'null': return dflt
        x = z3.If(v.t < 0, zmax(v.t + n, Z(0)), zmin(v.t, n))
        return z3.If(v.n, dflt, x)
    lo = norm(start, Z(0))
    hi = norm(stop, n)
    return lo, hi


def str_window(v, lo, hi, nul):
    """apply window [lo, hi) (0-based, within 0..len) to string value v (sort 'str' or 'win')"""
    if v.sort == 'win':
        w = v.t
        cur = w.length()
        return SV('win', Window(w.lo + lo, w.lo + zmin(hi, cur), w.base_len), z3.Or(v.n, nul))
    ln = z3.If(hi > lo, hi - lo, z3.IntVal(0))
    return SV('str', z3.SubString(v.t, lo, ln), z3.Or(v.n, nul))


def str_length(v):
    if v.sort == 'win': return v.t.length()
    return z3.Length(v.t)


UPPER = z3.Function('py_upper', z3.StringSort(), z3.StringSort())
LOWER = z3.Function('py_lower', z3.StringSort(), z3.StringSort())
TRIM_L = 10      # strings in this universe are far shorter (attributes <= 3 characters, a few concatenations)


def _in_set(s, i, chars):
    c = z3.SubString(s, i, 1)
    member = (c == z3.StringVal(' ')) if chars is None else z3.Contains(chars, c)
    return z3.And(z3.IntVal(i) < z3.Length(s), member)


def py_trim(kind, s, chars=None):
    """exact definition of Python's strip/lstrip/rstrip (= SQL trim/ltrim/rtrim on printable ASCII, where the only whitespace is the
    space) for strings of at most TRIM_L characters"""
    n = z3.Length(s)
    lead = z3.IntVal(TRIM_L)
    for i in range(TRIM_L - 1, -1, -1):
        lead = z3.If(_in_set(s, i, chars), lead, z3.IntVal(i))
    lead = z3.If(lead > n, n, lead)
    if kind == 'ltrim': return z3.SubString(s, lead, n - lead)
    # trailing run: first index from the end that is not in the set
    trail = z3.IntVal(TRIM_L)
    for i in range(TRIM_L - 1, -1, -1):
        c = z3.SubString(s, n - 1 - i, 1)
        member = (c == z3.StringVal(' ')) if chars is None else z3.Contains(chars, c)
        trail = z3.If(z3.And(z3.IntVal(i) < n, member), trail, z3.IntVal(i))
    trail = z3.If(trail > n, n, trail)
    if kind == 'rtrim': return z3.SubString(s, 0, n - trail)
    # both ends: when everything is stripped the two runs overlap
    return z3.If(lead + trail >= n, z3.StringVal(''), z3.SubString(s, lead, n - lead - trail))


MYSQL_TRIM = {k: z3.Function('mysql_' + k + '_substring', z3.StringSort(), z3.StringSort(), z3.StringSort()) for k in ('trim', 'ltrim', 'rtrim')}


def INT2STR(t):
    """decimal rendering of an int (str() in Python, CAST AS text in SQL)"""
    return z3.If(t < 0, z3.Concat(z3.StringVal('-'), z3.IntToStr(-t)), z3.IntToStr(t))


def _func(e, env):
    name, args, distinct, star = e[1], e[2], e[3], e[4]
    dialect = env.ctx.dialect
    if name in AGG_FUNCS or (name in ('min', 'max') and len(args) == 1):
        return eval_aggregate(e, env)
    a = [ev(x, env) for x in args]
    if name == 'coalesce':
        res = a[-1]
        for v in reversed(a[:-1]):
            isn = v.n
            if v.sort == 'str' and dialect == 'Oracle': isn = z3.Or(v.n, z3.Length(v.t) == 0)
            res = ite(isn, res, v)
        return res
    if name == 'nullif':
        x, y = unify(a[0], a[1])
        c = compare('=', x, y, env)
        return SV(x.sort, x.t, z3.Or(x.n, is_true(c)))
    if name == 'abs':
        v = to_int(a[0]) if a[0].sort in ('bool', 'null') else a[0]
        return SV(v.sort, z3.If(v.t < 0, -v.t, v.t), v.n)
    if name in ('length', 'char_length'):
        v = a[0]
        if v.sort == 'null': return SV('int', z3.IntVal(0), TRUE)
        if v.sort not in ('str', 'win'): raise Unmodelled('length of %s' % v.sort)
        n = v.n
        if dialect == 'Oracle' and v.sort == 'str': n = z3.Or(n, z3.Length(v.t) == 0)   # LENGTH('') IS NULL
        return SV('int', str_length(v), n)
    if name in ('substr', 'substring'):
        s = a[0]
        if s.sort == 'null': return s
        if s.sort == 'date':
            # the fixed-width text 'YYYY-MM-DD' of a date: substr with constant positions picks digit groups of it
            if len(a) != 3 or not (z3.is_int_value(a[1].t) and z3.is_int_value(a[2].t)): raise Unmodelled('substr of a date with non-constant positions')
            st, ln = a[1].t.as_long(), a[2].t.as_long()
            text = 'YYYY-MM-DD'
            piece = text[st - 1:st - 1 + ln] if st >= 1 else None
            k = s.t
            part = {'YYYY': k / 10000, 'MM': (k / 100) % 100, 'DD': k % 100}.get(piece)
            if part is None: raise Unmodelled('substr(date, %d, %d)' % (st, ln))
            return SV('digits', part, s.n)
        if s.sort not in ('str', 'win'): raise Unmodelled('substr of %s' % s.sort)
        start = to_int(a[1])
        has_len = len(a) > 2
        ln = to_int(a[2]) if has_len else None
        lo, hi, nul, err = substr_window(dialect, str_length(s), start.t, ln.t if has_len else None, has_len)
        nul = z3.Or(nul, start.n, ln.n if has_len else FALSE)
        env.ctx.side.append(('sql_error', z3.And(z3.Not(z3.Or(s.n, nul)), err)))
        return str_window(s, lo, hi, nul)
    if name == 'py_string_slice':
        # the real UDF is executed on a duck-typed string whose __getitem__ records the slice (see run_py_string_slice)
        return run_py_string_slice(a[0], a[1], a[2])
    if name in ('greatest', 'least') or (name in ('max', 'min') and len(a) >= 2):
        big = name in ('greatest', 'max')
        res = a[0]
        for v in a[1:]:
            x, y = unify(res, v)
            if x.sort == 'bool': x, y = to_int(x), to_int(y)
            c = (x.t >= y.t) if big else (x.t <= y.t)
            if dialect == 'PostgreSQL':
                # 9.18.4: "NULL values in the list are ignored. The result will be NULL only if all the expressions evaluate to NULL"
                t = z3.If(x.n, y.t, z3.If(y.n, x.t, z3.If(c, x.t, y.t)))
                res = SV(x.sort, t, z3.And(x.n, y.n))
            else:
                # SQLite max(X,Y,..), MySQL/Oracle GREATEST: NULL if any argument is NULL
                res = SV(x.sort, z3.If(c, x.t, y.t), z3.Or(x.n, y.n))
        return res
    if name == 'mod' and len(a) == 2:
        # Oracle MOD(n2, n1): "returns n2 if n1 is 0"; sign follows the dividend (uses FLOOR only in REMAINDER's sibling, not here)
        x, y = unify(a[0], a[1])
        if x.sort == 'bool': x, y = to_int(x), to_int(y)
        if x.sort != 'int': raise Unmodelled('mod of %s' % x.sort)
        yy = z3.If(y.t == 0, z3.IntVal(1), y.t)
        return SV('int', z3.If(y.t == 0, x.t, tmod(x.t, yy)), z3.Or(x.n, y.n))
    if name in ('upper', 'py_upper'):
        v = a[0]
        if v.sort == 'null': return v
        return SV('str', UPPER(v.t), v.n)
    if name in ('lower', 'py_lower'):
        v = a[0]
        if v.sort == 'null': return v
        return SV('str', LOWER(v.t), v.n)
    if name == 'concat':
        # MySQL CONCAT: NULL if any argument is NULL
        res = a[0]
        for v in a[1:]:
            res = arith('||', typed_null(res, 'str'), typed_null(v, 'str'), env)
        return res
    if name == 'replace':
        s, frm, to = a
        if s.sort == 'pat' or frm.sort != 'str' or to.sort != 'str' or not (z3.is_string_value(frm.t) and z3.is_string_value(to.t)):
            raise Unmodelled('replace with non-constant arguments')
        f, t = frm.t.as_string(), to.t.as_string()
        # recognise the LIKE-escaping chain replace(replace(replace(x,'!','!!'),'%','!%'),'_','!_')
        if s.sort == 'str' and len(f) == 1 and t == f + f:
            return SV('esc', EscPat(s, f, {f}), s.n)
        if s.sort == 'esc' and len(f) == 1 and t == s.t.esc + f and f in '%_' and f not in s.t.stages:
            return SV('esc', EscPat(s.t.operand, s.t.esc, s.t.stages | {f}), s.n)
        if s.sort == 'str':
            return SV('str', z3.Replace(s.t, frm.t, to.t) if len(f) and False else _replace_all(s.t, f, t), s.n)
        raise Unmodelled('replace chain of unknown shape')
    if name in ('trim', 'ltrim', 'rtrim') and len(a) in (1, 2):
        # SQLite lang_corefunc trim(X[,Y]): removes any characters that appear in Y (default: spaces) from both ends of X
        v = a[0]
        if v.sort == 'null': return v
        if v.sort != 'str': raise Unmodelled('%s of %s' % (name, v.sort))
        if len(a) == 1: return SV('str', py_trim(name, v.t), v.n)
        c = a[1]
        if c.sort == 'null': return typed_null(c, 'str')
        if c.sort != 'str': raise Unmodelled('%s characters of sort %s' % (name, c.sort))
        return SV('str', py_trim(name, v.t, c.t), z3.Or(v.n, c.n))
    if name in ('trim_str', 'ltrim_str', 'rtrim_str') and len(a) == 2:
        # MySQL 12.8 TRIM([{BOTH | LEADING | TRAILING} [remstr] FROM] str): removes all remstr PREFIXES / SUFFIXES (the string, not a
        # character set).  For a one-character remstr that is Python's strip(chars); for longer ones it is not (known region).
        v, c = a
        if v.sort == 'null': return v
        if c.sort == 'null': return typed_null(c, 'str')
        if v.sort != 'str' or c.sort != 'str': raise Unmodelled('%s of %s, %s' % (name, v.sort, c.sort))
        if dialect != 'MySQL': raise Unmodelled('TRIM(... FROM ...) semantics of %s' % dialect)
        kind = name[:-4]
        return SV('str', z3.If(z3.Length(c.t) == 1, py_trim(kind, v.t, c.t), z3.If(z3.Length(c.t) == 0, v.t, MYSQL_TRIM[kind](v.t, c.t))), z3.Or(v.n, c.n))
    if name in ('extract_year', 'extract_month', 'extract_day', 'year', 'month', 'day') and len(a) == 1:
        v = a[0]
        if v.sort == 'null': return typed_null(v, 'int')
        if v.sort != 'date': raise Unmodelled('%s of %s' % (name, v.sort))
        part = name.split('_')[-1]
        return SV('int', {'year': v.t / 10000, 'month': (v.t / 100) % 100, 'day': v.t % 100}[part], v.n)
    if name in ('power', 'pow') and len(a) == 2:
        x, y = a
        if x.sort == 'bool': x = to_int(x)
        if x.sort != 'int' or y.sort != 'int' or not z3.is_int_value(y.t) or not (0 <= y.t.as_long() <= 3):
            raise Unmodelled('power with a non-constant or large exponent')
        t = z3.IntVal(1)
        for _ in range(y.t.as_long()): t = t * x.t
        return SV('int', t, x.n)
    if name == 'to_char' and len(a) == 1 and a[0].sort in ('int', 'str', 'null'):
        return a[0] if a[0].sort != 'int' else SV('str', INT2STR(a[0].t), a[0].n)
    if name == 'int_to_str' and len(a) == 1:
        return SV('str', INT2STR(a[0].t), a[0].n)
    raise Unmodelled('function %s/%d' % (name, len(a)))


def _replace_all(s, f, t):
    raise Unmodelled('replace_all on symbolic strings')


def concat_pattern(parts, env):
    """|| / concat over parts where one part is an 'esc' value and the others are '%' constants -> SV('pat')"""
    esc_parts = [p for p in parts if p.sort == 'esc']
    if len(esc_parts) != 1: raise Unmodelled('pattern concatenation')
    i = parts.index(esc_parts[0])
    ep = esc_parts[0].t
    if ep.stages != {ep.esc, '%', '_'}: raise Unmodelled('LIKE operand not fully escaped: %r' % (ep.stages,))
    def is_pct(p): return p.sort == 'str' and z3.is_string_value(p.t) and p.t.as_string() == '%'
    before, after = parts[:i], parts[i + 1:]
    if any(not is_pct(p) for p in before + after) or len(before) > 1 or len(after) > 1:
        raise Unmodelled('pattern concatenation with non-% pieces')
    return SV('pat', EscPat(ep.operand, ep.esc, ep.stages, bool(before), bool(after)), esc_parts[0].n)


_arith_plain = arith


def arith(op, a, b, env, python=False):   # noqa: F811  (adds pattern tracking in front of the plain version)
    if op == '||' and (a.sort in ('esc', 'pat') or b.sort in ('esc', 'pat')):
        parts = []
        for v in (a, b):
            if v.sort == 'pat':
                ep = v.t
                if ep.before: parts.append(const('%'))
                parts.append(SV('esc', EscPat(ep.operand, ep.esc, ep.stages), v.n))
                if ep.after: parts.append(const('%'))
            else:
                parts.append(v)
        return concat_pattern(parts, env)
    return _arith_plain(op, a, b, env, python)


class _SliceProbe(object):
    """duck-typed 'string' handed to pony's real py_string_slice: records the slice it is asked for"""
    def __init__(self, v): self.v = v; self.asked = None
    def __getitem__(self, sl):
        self.asked = sl
        return self


class _IntProbe(object):
    def __init__(self, sv): self.sv = sv


def run_py_string_slice(s, start, stop):
    from pony.orm.dbproviders import sqlite as sq
    if s.sort == 'null': return s
    probe = _SliceProbe(s)
    # NULL arguments arrive as None in the UDF; a symbolic possibly-NULL bound is passed as a probe object whose
    # null bit is honoured by py_slice_window (Python's None bound == omitted bound)
    def arg(v):
        if v.sort == 'null': return None
        return _IntProbe(to_int(v))
    r = sq.py_string_slice(probe, arg(start), arg(stop))
    if r is None: return null('str')
    if r is not probe or not isinstance(probe.asked, slice) or probe.asked.step is not None:
        raise Unmodelled('py_string_slice did something other than s[start:end]')
    a, b = probe.asked.start, probe.asked.stop
    sa = a.sv if isinstance(a, _IntProbe) else (None if a is None else const(a))
    sb = b.sv if isinstance(b, _IntProbe) else (None if b is None else const(b))
    lo, hi = py_slice_window(str_length(s), sa, sb)
    return str_window(s, lo, hi, FALSE)


_EV = {'lit': _lit, 'null': _null, 'param': _param, 'col': _col, 'bin': _bin, 'neg': _neg, 'not': _not, 'and': _and,
       'or': _or, 'isnull': _isnull, 'in': _in, 'like': _like, 'between': _between, 'case': _case, 'exists': _exists,
       'subquery': _subquery, 'row': _row, 'cast': _cast, 'typed_lit': _typed_lit, 'func': _func}


# ---------------------------------------------------------------- aggregates
def eval_aggregate(e, env):
    name, args, distinct, star = e[1], e[2], e[3], e[4]
    if env.agg is None: raise Unmodelled('aggregate outside an aggregating SELECT')
    members = env.agg
    Z = z3.IntVal
    if name == 'count' and (star or not args):
        return SV('int', z3.Sum([z3.If(g, Z(1), Z(0)) for g, _ in members]) if members else Z(0))
    if name == 'count' and len(args) > 1:
        raise Unmodelled('count of several expressions')
    if name == 'group_concat':
        # SQLite group_concat(X[, Y]): non-NULL values of X joined by Y (default ','), NULL when there is none; the order is the
        # order in which rows are visited - modelled as slot order (replay inserts rows in slot order)
        if distinct: raise Unmodelled('group_concat(DISTINCT ...)')
        sep = z3.StringVal(',')
        if len(args) > 1:
            sv = ev(args[1], Env(env.ctx, env.rows, env.parent, None))
            if sv.sort != 'str': raise Unmodelled('group_concat separator of sort %s' % sv.sort)
            sep = sv.t
        acc, started = z3.StringVal(''), FALSE
        for g, menv in members:
            v = ev(args[0], Env(menv.ctx, menv.rows, menv.parent, None))
            if v.sort != 'str': raise Unmodelled('group_concat of %s' % v.sort)
            live = z3.And(g, z3.Not(v.n))
            acc = z3.If(live, z3.If(started, z3.Concat(acc, sep, v.t), v.t), acc)
            started = z3.Or(started, live)
        return SV('str', acc, z3.Not(started))
    vals = []
    for g, menv in members:
        v = ev(args[0], Env(menv.ctx, menv.rows, menv.parent, None))
        vals.append((g, v))
    if vals:
        sort0 = [v.sort for _, v in vals if v.sort != 'null']
        sort0 = sort0[0] if sort0 else 'int'
        vals = [(g, typed_null(v, sort0)) for g, v in vals]
        if sort0 == 'bool': vals = [(g, to_int(v)) for g, v in vals]
    live = [z3.And(g, z3.Not(v.n)) for g, v in vals]
    if distinct:
        live = [z3.And(live[j], z3.Not(z3.Or([z3.And(live[k], vals[k][1].t == vals[j][1].t) for k in range(j)]))) if j else live[j]
                for j in range(len(vals))]
    cnt = z3.Sum([z3.If(l, Z(1), Z(0)) for l in live]) if live else Z(0)
    if name == 'count':
        return SV('int', cnt)
    none = z3.Not(z3.Or(live)) if live else TRUE
    if not vals:
        return SV('int', Z(0), TRUE)
    sort = vals[0][1].sort
    if name == 'sum':
        if sort not in ('int', 'real'): raise Unmodelled('sum of %s' % sort)
        zero = Z(0) if sort == 'int' else z3.RealVal(0)
        return SV(sort, z3.Sum([z3.If(l, v.t, zero) for l, (_, v) in zip(live, vals)]), none)
    if name in ('min', 'max'):
        if sort not in ('int', 'real', 'str'): raise Unmodelled('%s of %s' % (name, sort))
        acc_t, acc_set = vals[0][1].t, live[0]
        for l, (_, v) in list(zip(live, vals))[1:]:
            better = (v.t <= acc_t) if name == 'min' else (acc_t <= v.t)
            take = z3.And(l, z3.Or(z3.Not(acc_set), better))
            acc_t = z3.If(take, v.t, acc_t)
            acc_set = z3.Or(acc_set, l)
        return SV(sort, acc_t, none)
    if name == 'avg':
        if sort not in ('int', 'real'): raise Unmodelled('avg of %s' % sort)
        tot = z3.Sum([z3.If(l, z3.ToReal(v.t) if sort == 'int' else v.t, z3.RealVal(0)) for l, (_, v) in zip(live, vals)])
        res = z3.RealVal(0)
        for k in range(len(vals), 0, -1):
            res = z3.If(cnt == k, tot / k, res)
        return SV('real', res, none)
    raise Unmodelled('aggregate %s' % name)


# ---------------------------------------------------------------- SELECT
class Result(object):
    def __init__(self, rows, ncols, distinct, single=False, ordered=False):
        self.rows = rows          # list of (guard, [SV], position term or None)
        self.ncols = ncols
        self.distinct = distinct
        self.single = single      # exactly one row (aggregate without GROUP BY)
        self.ordered = ordered


def _source_rows(src, env):
    if src['src'][0] == 'table':
        rows = _ci_get(env.ctx.db, src['src'][1])
        if rows is None: raise Unmodelled('unknown table %s' % src['src'][1])
        return rows
    # derived table
    res = eval_select(src['src'], env)
    names = [alias or (c[2] if c[0] == 'col' else 'col%d' % i) for i, (c, alias) in enumerate(src['src'][1]['cols'])]
    return [Row(src['alias'], i, g, dict(zip(names, vals))) for i, (g, vals, _) in enumerate(res.rows)]


def base_rows(s, env):
    """guarded environments produced by FROM + JOINs + WHERE"""
    combos = [(TRUE, env.child({}))]
    for src in s['from']:
        rows = _source_rows(src, env)
        new = []
        for g, e in combos:
            matched = []
            for r in rows:
                e2 = e.child({src['alias']: r})
                gg = z3.And(g, r.present)
                if src['on'] is not None:
                    on = is_true(b3(ev(src['on'], e2), env.ctx.dialect))
                    gg = z3.And(gg, on)
                    matched.append(z3.And(r.present, on))
                else:
                    matched.append(r.present)
                new.append((gg, e2))
            if src['kind'] == 'left':
                if not rows: raise Unmodelled('left join with an empty-slot table')
                e2 = e.child({src['alias']: NullRow(rows[0])})
                new.append((z3.And(g, z3.Not(z3.Or(matched))), e2))
        combos = new
    if s['where'] is not None:
        combos = [(z3.And(g, is_true(b3(ev(s['where'], e), env.ctx.dialect))), e) for g, e in combos]
    return combos


def eval_select(sel, env):
    s = sel[1]
    dialect = env.ctx.dialect
    combos = base_rows(s, env)
    aggregating = bool(s['group']) or any(has_agg(c) for c, _ in s['cols']) or (s['having'] is not None and has_agg(s['having']))
    out = []
    if aggregating:
        if s['group']:
            keys = [[ev(k, e) for k in s['group']] for g, e in combos]
            for i, (g, e) in enumerate(combos):
                def samekey(j):
                    return z3.And([same(a, b) for a, b in zip(keys[i], keys[j])])
                rep = z3.And(g, z3.Not(z3.Or([z3.And(combos[j][0], samekey(j)) for j in range(i)]))) if i else g
                members = [(z3.And(combos[j][0], samekey(j)), combos[j][1]) for j in range(len(combos))]
                ae = Env(e.ctx, e.rows, e.parent, members)
                guard = rep
                if s['having'] is not None:
                    guard = z3.And(guard, is_true(b3(ev(s['having'], ae), dialect)))
                out.append((guard, ae))
            single = False
        else:
            for c, _ in s['cols']:
                if not _only_agg(c): raise Unmodelled('bare column next to an aggregate without GROUP BY')
            ae = Env(env.ctx, env.rows, env.parent, combos)
            ae = env.child({}); ae.agg = combos
            guard = TRUE
            if s['having'] is not None:
                guard = is_true(b3(ev(s['having'], ae), dialect))
            out.append((guard, ae))
            single = s['having'] is None
    else:
        out = combos
        single = False
    rows = []
    for g, e in out:
        vals = []
        for c, alias in s['cols']:
            if c[0] == 'star':
                raise Unmodelled('SELECT *')
            vals.append(ev(c, e))
        rows.append([g, vals, None, e])
    # ORDER BY / LIMIT / OFFSET
    ordered = False
    if s['limit'] is not None or s['offset'] is not None:
        if not s['order']:
            raise Unmodelled('LIMIT/OFFSET without ORDER BY (result not determined)')
    if s['order'] and (s['limit'] is not None or s['offset'] is not None or env.parent is None):
        keys = []
        for g, vals, _, e in rows:
            ks = []
            for oe, desc, nulls in s['order']:
                if oe[0] == 'lit' and isinstance(oe[1], int): kv = vals[oe[1] - 1]
                else: kv = ev(oe, e)
                ks.append((kv, desc, nulls))
            keys.append(ks)
        pos = []
        for i in range(len(rows)):
            before = []
            for j in range(len(rows)):
                if i == j: continue
                before.append(z3.If(z3.And(rows[j][0], _precedes(keys[j], keys[i], dialect, j < i)), z3.IntVal(1), z3.IntVal(0)))
            pos.append(z3.Sum(before) if before else z3.IntVal(0))
        for i, r in enumerate(rows): r[2] = pos[i]
        ordered = True
        lim = ev(s['limit'], env) if s['limit'] is not None else None
        off = ev(s['offset'], env) if s['offset'] is not None else None
        for r in rows:
            g = r[0]
            if off is not None: g = z3.And(g, r[2] >= to_int(off).t)
            if lim is not None:
                l = to_int(lim)
                unlimited = l.n
                if dialect == 'SQLite': unlimited = z3.Or(l.n, l.t < 0)          # "a negative LIMIT means no upper bound"
                base = to_int(off).t if off is not None else z3.IntVal(0)
                g = z3.And(g, z3.Or(unlimited, r[2] < base + l.t))
            r[0] = g
            if off is not None: r[2] = r[2] - to_int(off).t
    res_rows = [(r[0], r[1], r[2]) for r in rows]
    if s['distinct']:
        # keep the first representative of each value
        new = []
        for i, (g, vals, p) in enumerate(res_rows):
            dup = z3.Or([z3.And(res_rows[j][0], z3.And([same(a, b) for a, b in zip(vals, res_rows[j][1])])) for j in range(i)]) if i else FALSE
            new.append((z3.And(g, z3.Not(dup)), vals, p))
        if ordered and (s['limit'] is not None or s['offset'] is not None):
            raise Unmodelled('DISTINCT together with LIMIT')
        res_rows = new
    return Result(res_rows, len(s['cols']), s['distinct'], single, ordered)


def _only_agg(c):
    """expression consists of aggregates / constants / outer references only"""
    k = c[0]
    if k in ('lit', 'null', 'param'): return True
    if k == 'func':
        if c[1] in AGG_FUNCS or (c[1] in ('min', 'max') and len(c[2]) == 1): return True
        return all(_only_agg(a) for a in c[2])
    if k == 'bin': return _only_agg(c[2]) and _only_agg(c[3])
    if k == 'neg': return _only_agg(c[1])
    if k == 'cast': return _only_agg(c[1])
    if k == 'case':
        return (c[1] is None or _only_agg(c[1])) and all(_only_agg(a) and _only_agg(b) for a, b in c[2]) and (c[3] is None or _only_agg(c[3]))
    if k == 'subquery': return True
    return False


def _precedes(ka, kb, dialect, tie):
    """z3 Bool: row with keys ka sorts strictly before row with keys kb (tie broken by slot order `tie`, which the
    obligation must make irrelevant by requiring total order keys)"""
    res = z3.BoolVal(bool(tie))   # all keys equal: slot order (rows with equal keys AND equal values are interchangeable;
                                  # obligations assume total keys wherever tied rows could differ)
    for (a, desc, nulls), (b, _, _) in reversed(list(zip(ka, kb))):
        a, b = unify(a, b)
        if a.sort == 'bool': a, b = to_int(a), to_int(b)
        # NULL ordering: SQLite/MySQL treat NULL as smallest; PostgreSQL/Oracle as largest (ASC: last)
        null_small = dialect in ('SQLite', 'MySQL')
        if a.sort == 'str':
            lt = z3.And(a.t != b.t, a.t <= b.t)
        else:
            lt = a.t < b.t
        both = z3.And(z3.Not(a.n), z3.Not(b.n))
        less = z3.Or(z3.And(both, lt), z3.And(a.n, z3.Not(b.n)) if null_small else z3.And(z3.Not(a.n), b.n))
        greater = z3.Or(z3.And(both, z3.Not(lt), a.t != b.t), z3.And(z3.Not(a.n), b.n) if null_small else z3.And(a.n, z3.Not(b.n)))
        if desc: less, greater = greater, less
        res = z3.If(less, True, z3.If(greater, False, res))
    return res
