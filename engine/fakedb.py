"""Recording fake DB-API (PEP 249) with numbered calls and injectable faults.

Shared by the fault-sequence / crash-point checks (C19, C36, ...).  Nothing here imports a
database driver; the real pony pools (`Pool`, `SQLitePool`, `PGPool`, `OraPool`) and providers
run unchanged on top of the fake module / connection / cursor objects.

    rec = Recorder()
    rec.reset(faults=(k1, k2))          # k may be a CrossHair symbolic int; 0 = never
    mod = FakeModule(rec, base=sqlite3) # .connect(), exception classes / constants from `base`
    con = mod.connect(...); cur = con.cursor(); cur.execute(sql, args); con.commit(); con.close()

Every *counted* DB-API call (`connect, cursor, execute, executemany, commit, rollback, close`;
`acquire` for the Oracle session-pool stand-in) gets the next number n = 1, 2, 3 ... and is written
to `rec.log` as an `Event`.  While `rec.armed`, the call whose number equals one of `rec.faults`
raises `rec.make_exc(op)` INSTEAD OF taking effect (a failed commit leaves the transaction open,
a failed close leaves the handle open but counts as a close attempt).  With a symbolic fault
number each counted call forks the path once: a scenario with N calls and one fault has N+1 paths.

A counted call on a connection whose close() succeeded is recorded, counted in `calls_after_close` and raises the
driver's "already closed" error (InterfaceError; ProgrammingError for SQLite) unless `rec.raise_on_closed` is off.

Per connection the fake keeps what a check needs to state "released or closed exactly once, never
used afterwards": `close_calls`, `closed`, `calls_after_close`, `in_tx` (transaction open),
`n_created`, `pid_created`, and the recorder keeps `rec.connections` in creation order.

Transaction models (`FakeConnection.tx_model`):
  'sqlite'  - isolation_level=None as pony opens SQLite: a transaction exists only between an executed
              BEGIN... and commit()/rollback() (or COMMIT/ROLLBACK text); BEGIN inside a transaction raises
              OperationalError like the real engine ("cannot start a transaction within a transaction").
  'pep249'  - every execute() while `autocommit` is false opens a transaction; commit()/rollback() end it.

`ForkClock` is the `os.getpid` stand-in for fork scenarios; `OsShim` wraps the real `os` module so that
only the module under test sees the stubbed getpid.  `RecordingPool` is a pool-level fake (a drop-in for
`pony_pool_mockup`) for checks that want to watch connect/release/drop without running the real pool.
`make_database(kind, rec)` at the bottom builds a real `Database` on the real provider and the REAL pool class of a
dialect over the fakes; `driver_exc_factory` builds the driver exceptions (reconnectable or not) to inject.

CrossHair use: `with untraced(rec[, clock]): scenario()` runs the concrete bulk of a scenario outside CrossHair's
opcode tracer and routes the one comparison `fault number == call number` through the tracer (see `untraced`), which
makes a whole-session path cost milliseconds; the path tree CrossHair explores is the same.

`ProbeLock` wraps a real threading.Lock so that a lock left held shows up as an exception / a counter instead of a
hang.  Minimal use with faults at two symbolic positions:

    rec = Recorder(); db = make_database('sqlite-file', rec)           # once per process
    def harness(k1: int, k2: int) -> bool:
        reset_sqlite_database(db); rec.reset(faults=(k1, k2), exc_factory=driver_exc_factory('sqlite-file'))
        with untraced(rec):
            try:
                with db_session: ...
            except Exception: pass
            return ok(not db.provider.transaction_lock.locked() and all(c.close_calls <= 1 for c in rec.connections))
"""

COUNTED = ('connect', 'cursor', 'execute', 'executemany', 'commit', 'rollback', 'close', 'acquire')


class InjectedFault(Exception):
    """Default injected exception when no DB-API class is configured (a non-DB-API failure)."""


class Event(object):
    __slots__ = ('n', 'con', 'op', 'detail', 'pid', 'faulted', 'phase', 'shortcut')

    def __init__(self, n, con, op, detail, pid, phase):
        self.n, self.con, self.op, self.detail, self.pid, self.phase = n, con, op, detail, pid, phase
        self.faulted = False
        self.shortcut = False         # True for sqlite3's Connection.execute() shortcut (what SQLitePool._connect uses)

    def __repr__(self):
        return '#%d %s%s.%s%s%s' % (self.n, '' if self.pid is None else 'pid%s ' % self.pid,
                                  'c%d' % self.con.id if self.con is not None else 'module', self.op,
                                  '(%s)' % self.detail if self.detail else '', ' !FAULT' if self.faulted else '')


class Recorder(object):
    def __init__(self):
        self.exc_factory = None
        self.responder = None
        self.clock = None
        self.raise_on_closed = True
        self.compare = None           # optional hook deciding `fault number == call number` (see untraced())
        self.reset()

    def reset(self, faults=(), exc_factory=None, responder=None, clock=None):
        self.n = 0
        self.log = []
        self.connections = []
        self.faults = tuple(faults)
        self.armed = True
        self.phase = 0
        self.natural_errors = 0
        if exc_factory is not None: self.exc_factory = exc_factory
        if responder is not None: self.responder = responder
        self.clock = clock
        return self

    # -- numbering and faults ------------------------------------------------------------------
    def pid(self):
        return self.clock.pid() if self.clock is not None else None

    def tick(self, con, op, detail=None, shortcut=False):
        pid = self.pid()              # observed before the call is numbered: a fork "before call f" is seen here with n == f-1
        self.n += 1
        n = self.n
        ev = Event(n, con, op, detail, pid, self.phase)
        ev.shortcut = shortcut
        self.log.append(ev)
        if con is not None:
            con.calls += 1
            if con.closed:
                con.calls_after_close += 1
                if self.raise_on_closed:      # what real drivers do ("connection already closed")
                    self.natural_errors += 1
                    raise con.rec_module_error('ProgrammingError' if con.tx_model == 'sqlite' else 'InterfaceError',
                                               'connection already closed')
        if self.armed:
            for k in self.faults:
                if (self.compare(k, n) if self.compare is not None else k == n):
                    ev.faulted = True
                    raise self.make_exc(op)
        return ev

    def make_exc(self, op):
        if self.exc_factory is not None:
            return self.exc_factory(op)
        return InjectedFault('injected fault in %s' % op)

    def respond(self, sql, args):
        """rows, description for an executed statement"""
        if self.responder is not None:
            r = self.responder(sql, args)
            if r is not None: return r
        return default_responder(sql, args)

    # -- queries over the journal ----------------------------------------------------------------
    def events(self, con=None, op=None, phase=None):
        return [e for e in self.log if (con is None or e.con is con) and (op is None or e.op == op)
                and (phase is None or e.phase == phase)]

    def fault_hit(self):
        return any(e.faulted for e in self.log)

    def dump(self):
        return ' | '.join(repr(e) for e in self.log)


def default_responder(sql, args):
    s = sql.strip().lower() if isinstance(sql, str) else ''
    if s.startswith('pragma foreign_keys') and '=' not in s: return [(1,)], [('foreign_keys',)]
    if s.startswith('select version from product_component_version'): return [('11.2.0.2.0',)], [('version',)]
    if s.startswith('select sys_context'): return [('VERIF',)], [('schema',)]
    if s.startswith('select version()'): return [('5.7.11',)], [('version',)]
    if s.startswith('select database()'): return [('verif',)], [('database',)]
    if s.startswith("show variables like 'foreign_key_checks'"): return [('foreign_key_checks', 'ON')], [('n',), ('v',)]
    return [], []


class FakeCursor(object):
    arraysize = 1

    def __init__(self, con):
        self.con = con
        self.rec = con.rec
        self._rows = []
        self.description = []
        self.rowcount = -1
        self.lastrowid = None
        self.closed = False

    def _run(self, op, sql, args, shortcut=False):
        self.rec.tick(self.con, op, sql if isinstance(sql, str) else repr(sql), shortcut)
        self.con._on_execute(sql)
        rows, descr = self.rec.respond(sql, args)
        self._rows = list(rows)
        self.description = list(descr)
        self.rowcount = len(self._rows) if self._rows else 1
        self.con.last_id += 1
        self.lastrowid = self.con.last_id
        return self

    def execute(self, sql, args=None): return self._run('execute', sql, args)
    def executemany(self, sql, args=None): return self._run('executemany', sql, args)
    def fetchone(self): return self._rows.pop(0) if self._rows else None
    def fetchmany(self, size=None):
        size = size or self.arraysize
        out, self._rows = self._rows[:size], self._rows[size:]
        return out
    def fetchall(self):
        out, self._rows = self._rows, []
        return out
    def close(self): self.closed = True
    def var(self, *a, **k): return None
    def setinputsizes(self, *a, **k): pass
    def __iter__(self): return iter(self.fetchall())


class FakeConnection(object):
    outputtypehandler = None
    server_version = 90200

    def __init__(self, rec, tx_model='sqlite', event=None):
        self.rec = rec
        self.id = len(rec.connections) + 1
        rec.connections.append(self)
        self.tx_model = tx_model
        self.autocommit = False
        self.closed = False
        self.close_calls = 0
        self.calls = 0
        self.calls_after_close = 0
        self.in_tx = False
        self.last_id = 0
        self.functions = []
        self.text_factory = None
        self.n_created = rec.n
        self.pid_created = event.pid if event is not None else rec.pid()    # the pid under which connect() was called
        self.pool_released = 0        # used by FakeSessionPool / RecordingPool
        self.pool_dropped = 0

    def __repr__(self): return '<FakeConnection c%d>' % self.id

    # transaction bookkeeping ------------------------------------------------------------------
    def _on_execute(self, sql):
        s = sql.strip().upper() if isinstance(sql, str) else ''
        if self.tx_model == 'sqlite':
            if s.startswith('BEGIN'):
                if self.in_tx:
                    self.rec.natural_errors += 1
                    raise self.rec_module_error('OperationalError', 'cannot start a transaction within a transaction')
                self.in_tx = True
            elif s.startswith('COMMIT') or s.startswith('ROLLBACK'):
                self.in_tx = False
        elif not self.autocommit:
            self.in_tx = True

    def rec_module_error(self, name, msg):
        mod = getattr(self, 'module', None)
        cls = getattr(mod, name, None) if mod is not None else None
        return (cls or InjectedFault)(msg)

    # DB-API ---------------------------------------------------------------------------------------
    def cursor(self):
        self.rec.tick(self, 'cursor')
        return FakeCursor(self)

    def execute(self, sql, args=None):          # sqlite3.Connection.execute shortcut
        return FakeCursor(self)._run('execute', sql, args, shortcut=True)

    def commit(self):
        self.rec.tick(self, 'commit')
        self.in_tx = False

    def rollback(self):
        self.rec.tick(self, 'rollback')
        self.in_tx = False

    def close(self):
        self.close_calls += 1
        self.rec.tick(self, 'close')
        self.closed = True
        self.in_tx = False

    # uncounted helpers the real pools / providers call
    def create_function(self, name, n, func, *a, **k): self.functions.append(name)
    def set_client_encoding(self, enc): self.rec.tick(self, 'set_client_encoding')      # (PGPool._connect: a counted, faultable driver call)
    def ping(self, *a): pass


class FakeModule(object):
    """DB-API module stand-in: `connect` is recorded (and can fail); every other attribute (exception classes,
    constants such as sqlite_version_info) comes from `base` (a real or stub driver module)."""

    def __init__(self, rec, base=None, tx_model='sqlite', name=None):
        self._rec, self._base, self._tx_model = rec, base, tx_model
        self.__name__ = name or getattr(base, '__name__', 'fakedb')

    def connect(self, *args, **kwargs):
        ev = self._rec.tick(None, 'connect')
        con = FakeConnection(self._rec, self._tx_model, ev)
        con.module = self
        con.connect_args = (args, kwargs)
        return con

    def __getattr__(self, name):
        if name.startswith('_'): raise AttributeError(name)
        return getattr(self._base, name)


class FakeSessionPool(object):
    """cx_Oracle.SessionPool stand-in: acquire() hands out a new recorded connection each time."""

    def __init__(self, rec, module, **kwargs):
        self.rec, self.module, self.kwargs = rec, module, kwargs
        self.id = len(getattr(rec, 'session_pools', ())) + 1
        if not hasattr(rec, 'session_pools'): rec.session_pools = []
        rec.session_pools.append(self)
        self.pid_created = rec.pid()
        self.acquired = []
        self.calls = 0
        self.journal = []              # (pid at the time of the call, op, connection id, recorder phase)

    def acquire(self):
        self.calls += 1
        self.journal.append((self.rec.pid(), 'acquire', None, self.rec.phase))
        ev = self.rec.tick(None, 'acquire', 'pool%d' % self.id)
        con = FakeConnection(self.rec, 'pep249', ev)
        con.module = self.module
        con.session_pool = self
        self.acquired.append(con)
        return con

    def release(self, con):
        self.calls += 1
        self.journal.append((self.rec.pid(), 'release', con.id, self.rec.phase))
        con.pool_released += 1
        con.rollback()

    def drop(self, con):
        self.calls += 1
        self.journal.append((self.rec.pid(), 'drop', con.id, self.rec.phase))
        con.pool_dropped += 1
        con.close()


class RecordingPool(object):
    """Pool-level fake for `pony_pool_mockup` (same surface as engine.env.FakePool, but recorded)."""

    def __init__(self, rec, tx_model='sqlite', module=None):
        self.rec, self.tx_model, self.module = rec, tx_model, module
        self.con = None
        self.journal = []

    def connect(self):
        new = self.con is None
        if new:
            ev = self.rec.tick(None, 'connect')
            self.con = FakeConnection(self.rec, self.tx_model, ev)
            self.con.module = self.module
        self.journal.append(('connect', self.con.id, new))
        return self.con, new

    def release(self, con):
        self.journal.append(('release', con.id))
        con.pool_released += 1
        try: con.rollback()
        except Exception:
            self.drop(con)
            raise

    def drop(self, con):
        self.journal.append(('drop', con.id))
        con.pool_dropped += 1
        if self.con is con: self.con = None
        con.close()

    def disconnect(self):
        con, self.con = self.con, None
        if con is not None: con.close()


# -- running the concrete bulk of a scenario outside CrossHair's opcode tracer ---------------------------
class untraced(object):
    """`with untraced(rec): scenario()` - when entered under CrossHair, switches the opcode tracer off for the body
    (pony's code handles no symbolic value in these scenarios: the only symbolic data are the fault / fork numbers,
    compared with the concrete call counter in exactly one place) and routes that one comparison through
    `traced_eq`, which switches tracing back on for the comparison so that the solver forks the path there as usual.
    Path exploration and the verdict are unchanged; a path costs milliseconds instead of ~0.5 s.  Outside CrossHair
    (replays) it does nothing."""

    def __init__(self, *holders):
        self.holders = holders
        self.swap = None

    def __enter__(self):
        from crosshair.tracers import NoTracing, is_tracing
        if is_tracing():
            for h in self.holders: h.compare = traced_eq
            self.swap = NoTracing()
            self.swap.__enter__()
        return self

    def __exit__(self, *exc):
        if self.swap is not None:
            self.swap.__exit__(*exc)
            for h in self.holders: h.compare = None
            if _STEERING:
                # a CrossHair control-flow exception was raised at a decision point; pony's bare `except:` clauses
                # may have converted or swallowed it - hand it back to CrossHair whatever the body did with it
                e = _STEERING[0]
                del _STEERING[:]
                raise e
        return False


_STEERING = []


def traced_eq(k, n):
    if type(k) is int: return k == n
    from crosshair.tracers import ResumedTracing
    try:
        with ResumedTracing():
            return True if k == n else False
    except BaseException as e:
        if not isinstance(e, Exception): _STEERING.append(e)
        raise


# -- os.getpid stand-in ------------------------------------------------------------------------------
class ForkClock(object):
    """pid() returns PARENT until the fork point, CHILD afterwards.  `f` may be a symbolic int (0 = never).
    mode 'getpid': the fork happens just before the f-th call of getpid() (so that call already answers CHILD);
    mode 'dbapi' : the fork happens right after DB-API call number f-1 of the recorder, i.e. before call f and
                   before any getpid() in between (f = 1: before the first call);
    mode 'manual': the scenario calls fork() itself."""
    PARENT, CHILD = 1000, 2000

    def __init__(self, rec, f=0, mode='getpid'):
        self.rec, self.f, self.mode = rec, f, mode
        self.compare = None
        self.getpid_calls = 0
        self.forked = False
        self.fork_n = None            # number of DB-API calls made before the fork
        self.fork_phase = None        # recorder phase (the scenario's session number) in which the fork happened
        self.fork_in_session = False

    def _eq(self, a, b):
        return self.compare(a, b) if self.compare is not None else a == b

    def fork(self):
        if not self.forked:
            self.forked = True
            self.fork_n = self.rec.n
            self.fork_phase = self.rec.phase
            # did the current phase (session) already talk to the database? then the child inherits it half-way
            self.fork_in_session = any(e.phase == self.rec.phase for e in self.rec.log)

    def getpid(self):
        self.getpid_calls += 1
        if self.mode == 'getpid' and not self.forked and self._eq(self.f, self.getpid_calls):
            self.fork()
        return self.pid()

    def pid(self):
        if self.mode == 'dbapi' and not self.forked and self._eq(self.f, self.rec.n + 1):
            self.fork()
        return self.CHILD if self.forked else self.PARENT


class OsShim(object):
    """Stands in for the `os` module global of ONE pony module: getpid comes from the clock."""

    def __init__(self, real_os, getpid):
        self._real = real_os
        self.getpid = getpid

    def __getattr__(self, name):
        if name.startswith('__'): raise AttributeError(name)
        return getattr(self._real, name)


# -- non-blocking lock probe -----------------------------------------------------------------------------
class WouldBlock(Exception):
    """Raised instead of blocking forever when a lock that is already held is acquired."""


class ProbeLock(object):
    """threading.Lock wrapper: acquire() on a held lock raises WouldBlock (and counts) instead of hanging;
    the underlying object is a real lock, probed with acquire(False)."""

    def __init__(self):
        import threading
        self._lock = threading.Lock()
        self.blocked = 0
        self.acquired = 0
        self.released = 0
        self.bad_release = 0

    def acquire(self, blocking=True, timeout=-1):
        if self._lock.acquire(False):
            self.acquired += 1
            return True
        if not blocking: return False
        self.blocked += 1
        raise WouldBlock('lock is already held: a real run would block here')

    def release(self):
        try: self._lock.release()
        except RuntimeError:
            self.bad_release += 1
            raise
        self.released += 1

    def locked(self): return self._lock.locked()
    __enter__ = acquire
    def __exit__(self, *a): self.release()


# -- real pony objects over the fakes ----------------------------------------------------------------------
def patch_sqlite_driver(rec):
    """Point the `sqlite` global of pony.orm.dbproviders.sqlite (the name SQLitePool._connect calls .connect on)
    at a recording module whose exception classes / version constants are sqlite3's own. Idempotent."""
    import sqlite3
    from pony.orm.dbproviders import sqlite as psqlite
    cur = psqlite.sqlite
    if isinstance(cur, FakeModule):
        cur._rec = rec
        return cur
    mod = FakeModule(rec, base=sqlite3, tx_model='sqlite', name='sqlite3')
    psqlite.sqlite = mod
    return mod


def _entities(db):
    from pony.orm import PrimaryKey, Required

    class T(db.Entity):
        id = PrimaryKey(int)
        a = Required(int)
    db.generate_mapping(check_tables=False)
    db.T = T
    return db


def patch_oracle_driver(rec):
    """Point the `cx_Oracle` global of pony.orm.dbproviders.oracle at a shim whose SessionPool is FakeSessionPool
    (everything else comes from the stub driver module installed by engine.env). Idempotent."""
    from engine import env
    env.install_driver_stubs()
    import cx_Oracle
    from pony.orm.dbproviders import oracle as pora
    cur = pora.cx_Oracle
    if isinstance(cur, FakeModule):
        cur._rec = rec
        return cur
    mod = FakeModule(rec, base=cx_Oracle, tx_model='pep249', name='cx_Oracle')
    mod.SessionPool = lambda **kw: FakeSessionPool(mod._rec, mod, **kw)
    pora.cx_Oracle = mod
    return mod


KINDS = ('sqlite-file', 'sqlite-memory', 'postgres', 'mysql', 'oracle')


def make_database(kind, rec, wrap_pool=None, probe_locks=True, entities=True):
    """A real pony Database on the real provider class and the REAL pool class of `kind`, over the recording driver.
    The pool object is constructed directly and handed over through the `pony_pool_mockup` keyword (no path handling,
    no file system, no driver import).  `wrap_pool(cls) -> cls` lets a check subclass the pool class (e.g. to count).
    kinds: 'sqlite-file' (SQLitePool with Pool's close-on-drop behaviour), 'sqlite-memory' (drop = rollback, never
    closed), 'postgres' (PGProvider + PGPool), 'mysql' (MySQLProvider + base Pool), 'oracle' (OraProvider + OraPool
    over FakeSessionPool).  With `entities`, one mapped entity `db.T(id: PrimaryKey(int), a: Required(int))` exists."""
    from pony.orm import Database
    from engine import env
    wrap_pool = wrap_pool or (lambda cls: cls)
    db = Database()
    if kind in ('sqlite-file', 'sqlite-memory'):
        from pony.orm.dbproviders import sqlite as psqlite
        patch_sqlite_driver(rec)
        filename = ':memory:' if kind == 'sqlite-memory' else '/verif-fake/db.sqlite'
        pool = wrap_pool(psqlite.SQLitePool)(False, filename, True)
        db.provider_name = 'sqlite'
        db._bind(psqlite.SQLiteProvider, filename, pony_pool_mockup=pool)
        if probe_locks:
            db.provider.transaction_lock = ProbeLock()
            db.provider.pre_transaction_lock = ProbeLock()
    elif kind == 'postgres':
        env.install_driver_stubs()
        import psycopg2
        from pony.orm.dbproviders import postgres as ppg
        mod = FakeModule(rec, base=psycopg2, tx_model='pep249', name='psycopg2')
        db.provider_name = 'postgres'
        db._bind(ppg.PGProvider, pony_pool_mockup=wrap_pool(ppg.PGPool)(mod))
    elif kind == 'mysql':
        env.install_driver_stubs()
        import MySQLdb
        from pony.orm.dbproviders import mysql as pmy
        from pony.orm.dbapiprovider import Pool
        mod = FakeModule(rec, base=MySQLdb, tx_model='pep249', name='MySQLdb')
        db.provider_name = 'mysql'
        db._bind(pmy.MySQLProvider, pony_pool_mockup=wrap_pool(Pool)(mod))
    elif kind == 'oracle':
        from pony.orm.dbproviders import oracle as pora
        patch_oracle_driver(rec)
        db.provider_name = 'oracle'
        db._bind(pora.OraProvider, pony_pool_mockup=wrap_pool(pora.OraPool)(user='u', password='p', dsn='d'))
    else:
        raise ValueError(kind)
    db.fake_kind = kind
    return _entities(db) if entities else db


def sqlite_database(rec, filename='/verif-fake/db.sqlite', probe_locks=True):
    """Shorthand kept for callers that want no entities: real SQLiteProvider + real SQLitePool over the recording driver."""
    return make_database('sqlite-memory' if filename == ':memory:' else 'sqlite-file', rec, probe_locks=probe_locks, entities=False)


def driver_exc_factory(kind, exc_class=0):
    """exc_class 0: the driver's OperationalError, built so that the provider's should_reconnect() answers yes where the
    provider has a reconnect rule (PostgreSQL: pgcode None; MySQL: code 2006; Oracle: ORA-03113); 1: the driver's
    IntegrityError (never reconnects); 2: an exception that is not a DB-API error."""
    if exc_class == 2:
        return lambda op: InjectedFault('injected fault in %s' % op)
    name = 'IntegrityError' if exc_class else 'OperationalError'
    if kind in ('sqlite-file', 'sqlite-memory'):
        import sqlite3
        return lambda op: getattr(sqlite3, name)('injected fault in %s' % op)
    if kind == 'postgres':
        import psycopg2
        def make(op):
            e = getattr(psycopg2, name)('injected fault in %s' % op)
            e.pgcode = None
            return e
        return make
    if kind == 'mysql':
        import MySQLdb
        return lambda op: getattr(MySQLdb, name)(2006, 'injected fault in %s' % op)
    if kind == 'oracle':
        import cx_Oracle
        class _OraErr(object):
            code = 3113
            message = 'ORA-03113: injected'
        return lambda op: getattr(cx_Oracle, name)(_OraErr())
    raise ValueError(kind)


def reset_sqlite_database(db):
    """Per-path reset of everything a previous explored path may have left behind."""
    from pony.orm import core
    prov = db.provider
    prov.pool.con = None
    prov.pool.__dict__.pop('pid', None)
    prov.transaction_lock = ProbeLock()
    prov.pre_transaction_lock = ProbeLock()
    reset_session_state(db)


def reset_session_state(*dbs):
    from pony.orm import core
    core.local.db2cache.clear()
    core.local.db_session = None
    core.local.db_context_counter = 0
    for db in dbs:
        db._dblocal.stats = {None: core.QueryStat(None)}
        db._dblocal.last_sql = None
