"""Source-level stub for error-message formatting (DESIGN.md: "formatting gets empty bodies").

CrossHair realises a symbolic integer as soon as it is rendered with `'%d' % n`; pony
builds every error message that way *before* calling throw(), which makes each error
path an unbounded family of concrete paths.  Message text is not the subject of any
property, so for symbolic execution the real function is re-read from /repo on every
run and exactly one kind of node is rewritten:

    throw(Exc, <str literal> % args ...)      ->  throw(Exc, <str literal>)
    raise Exc(<str literal> % args)           ->  raise Exc(<str literal>)
    '<literal>'.format(...) inside throw()    ->  '<literal>'

Nothing else is touched; the rewritten function is compiled with the original file
name and line numbers and installed over the original in the current process only.
Functions with closure cells are left alone (reported by `defang` in its return value).
"""
import ast, inspect, textwrap, types


class _Defang(ast.NodeTransformer):
    def __init__(self):
        self.changed = 0

    def _strip(self, node):
        # replace formatting expressions anywhere inside an error-constructor argument
        outer = self

        class S(ast.NodeTransformer):
            def visit_BinOp(self, n):
                self.generic_visit(n)
                if isinstance(n.op, ast.Mod) and isinstance(n.left, ast.Constant) and isinstance(n.left.value, str):
                    outer.changed += 1
                    return ast.copy_location(ast.Constant(n.left.value), n)
                return n

            def visit_Call(self, n):
                self.generic_visit(n)
                if (isinstance(n.func, ast.Attribute) and n.func.attr == 'format'
                        and isinstance(n.func.value, ast.Constant) and isinstance(n.func.value.value, str)):
                    outer.changed += 1
                    return ast.copy_location(ast.Constant(n.func.value.value), n)
                return n
        return S().visit(node)

    def visit_Call(self, node):
        self.generic_visit(node)
        if isinstance(node.func, ast.Name) and node.func.id == 'throw':
            node.args = [node.args[0]] + [self._strip(a) for a in node.args[1:]]
        return node

    def visit_Raise(self, node):
        self.generic_visit(node)
        if isinstance(node.exc, ast.Call):
            node.exc.args = [self._strip(a) for a in node.exc.args]
        return node


def defang_function(fn):
    """Return a rewritten copy of the plain function `fn` (or None if unchanged / impossible)."""
    if not isinstance(fn, types.FunctionType) or fn.__code__.co_freevars:
        return None
    try:
        src = textwrap.dedent(inspect.getsource(fn))
        tree = ast.parse(src)
    except (OSError, SyntaxError, TypeError):
        return None
    fdef = tree.body[0]
    if not isinstance(fdef, ast.FunctionDef):
        return None
    fdef.decorator_list = []            # decorators are re-applied by the caller if needed
    t = _Defang()
    t.visit(tree)
    if not t.changed:
        return None
    ast.fix_missing_locations(tree)
    ast.increment_lineno(tree, fn.__code__.co_firstlineno - fdef.lineno)
    code = compile(tree, fn.__code__.co_filename, 'exec')
    ns = {}
    exec(code, fn.__globals__, ns)
    new = ns[fdef.name]
    new.__defaults__ = fn.__defaults__
    new.__kwdefaults__ = fn.__kwdefaults__
    new.__qualname__ = fn.__qualname__
    new.__module__ = fn.__module__
    new.__verif_defanged__ = t.changed
    return new


def defang(*targets):
    """Install defanged copies over methods of the given classes / (module, name) pairs.
    Returns the list of qualified names that were rewritten."""
    done = []
    for t in targets:
        if isinstance(t, type):
            for name, val in list(vars(t).items()):
                if isinstance(val, types.FunctionType) and not hasattr(val, '__verif_defanged__') \
                        and getattr(val, '__wrapped__', None) is None:
                    new = defang_function(val)
                    if new is not None:
                        setattr(t, name, new)
                        done.append(new.__qualname__)
        elif isinstance(t, tuple):
            mod, name = t
            val = getattr(mod, name)
            if not hasattr(val, '__verif_defanged__'):
                new = defang_function(val)
                if new is not None:
                    setattr(mod, name, new)
                    done.append(new.__qualname__)
    return done
