"""Bounded enumeration of Python expression sources for C03 / C04 (programs are enumerated, their inputs are solver-quantified)."""
import itertools, random

ATOMS = ['a', 'b', 'c', 'x.p']
ATOMS_EXT = ['a', 'b', 'c', 'd']


def paren(s):
    return '(%s)' % s


def level1(atoms, ext=False):
    """all depth-1 expressions over atoms (each operator once with atom operands)"""
    A = atoms
    out = []
    a0, a1, a2 = A[0], A[1], A[2]
    for x, y in itertools.permutations(A[:3], 2):
        out += ['%s and %s' % (x, y), '%s or %s' % (x, y), '%s == %s' % (x, y), '%s < %s' % (x, y), '%s + %s' % (x, y)]
    for x in A[:3]:
        out += ['not %s' % x, '-%s' % x, '%s is None' % x, '%s is not None' % x, '%s.q' % x, 'f(%s)' % x, '%s[0]' % x,
                '%s[1:2]' % x, '%s in %s' % (x, A[(A.index(x) + 1) % 3]), '%s not in %s' % (x, A[(A.index(x) + 1) % 3])]
    out += ['%s and %s and %s' % (a0, a1, a2), '%s or %s or %s' % (a0, a1, a2), '%s < %s < %s' % (a0, a1, a2), '%s < %s <= %s' % (a0, a1, a2),
            '%s == %s != %s' % (a0, a1, a2), '%s if %s else %s' % (a0, a1, a2), '%s * %s' % (a0, a1), '%s - %s' % (a0, a1), '%s // %s' % (a0, a1),
            '%s %% %s' % (a0, a1), '%s ** %s' % (a0, a1), '%s / %s' % (a0, a1), 'f(%s, %s)' % (a0, a1), 'f(%s, k=%s)' % (a0, a1),
            '%s.m(%s)' % (a0, a1), '%s[%s]' % (a0, a1), '%s[%s:%s]' % (a0, a1, a2), '%s[:%s]' % (a0, a1), '%s[%s:]' % (a0, a1),
            '(%s, %s)' % (a0, a1), '%s.q.r' % a0, "f'{%s}'" % a0, "f'{%s!r}'" % a0, "f'p{%s}q{%s}'" % (a0, a1), '%s != 1' % a0,
            '%s[%s::%s]' % (a0, a1, a2), '%s[::%s]' % (a0, a1), '%s[%s:%s:%s]' % (a0, a1, a2, a0), '%s[:%s:%s]' % (a0, a1, a2), '%s[1::2]' % a0,
            '%s[-1]' % a0, '%s[%s, %s]' % (a0, a1, a2), '%s[1:2, %s]' % (a0, a1), '-1 ** %s' % a0, '(-1) ** %s' % a0, '%s - (-1)' % a0,
            "%s == 'k'" % a0, '%s >= %s' % (a0, a1), '%s > %s' % (a0, a1), '%s <= %s' % (a0, a1), '%s != %s' % (a0, a1)]
    if ext:
        out += ['%s | %s' % (a0, a1), '%s & %s' % (a0, a1), '%s ^ %s' % (a0, a1), '%s << %s' % (a0, a1), '%s >> %s' % (a0, a1),
                "f'{%s:>3}'" % a0, "f'{{%s}}'" % a0, "f'{{x}}{%s}'" % a0, "f'{%s!s:{%s}}'" % (a0, a1), '+%s' % a0, '[%s, %s]' % (a0, a1),
                '%s[%s, %s]' % (a0, a1, a2), '%s[::2]' % a0, 'f(*%s)' % a0, 'f(**%s)' % a0, '{%s: %s}' % (a0, a1), '(%s,)' % a0, '1.5 + %s' % a0,
                '%s.m()' % a0, '%s(%s)(%s)' % ('f', a0, a1)]
    seen = set(); res = []
    for e in out:
        if e not in seen: seen.add(e); res.append(e)
    return res


# operator templates with holes for composition: {0} {1} {2} are sub-expressions (parenthesised by the caller when needed)
COMPOSE = [
    '{0} and {1}', '{0} or {1}', 'not {0}', '{0} == {1}', '{0} < {1}', '{0} if {1} else {2}', '{0} + {1}', '-{0}', '{0} is None',
    '{0} in {1}', 'f({0})', 'f({0}, k={1})', '{0}.q', '{0}[{1}]', '{0} and {1} and {2}', '{0} or {1} or {2}', '{0} < {1} < {2}',
    '({0}, {1})', '{0} * {1}', "f'{{{0}}}'", '{0}[{1}:{2}]', '{0} - {1}', '{0} != {1}', '{0} is not None', '{0} not in {1}',
]
COMPOSE_EXT = COMPOSE + ['{0} ** {1}', '{0} // {1}', '{0} % {1}', '{0} / {1}', '{0} | {1}', '{0} & {1}', '{0} << {1}', "f'{{{0}!r}}'",
                         "f'{{{0}:>{1}}}'", '+{0}', '[{0}, {1}]', '{0}.m({1})']


def needs_paren(sub):
    # anything that is not a plain atom / call / attribute / subscript / display gets parentheses (source precedence is
    # not the subject on the *source* side: the source is what the user wrote)
    s = sub.strip()
    if s.replace('.', '').replace('_', '').isalnum(): return False
    return True


def compose(template, subs):
    args = [paren(s) if needs_paren(s) else s for s in subs]
    return template.format(*args)


def level2(atoms, ext=False, limit=None, rng=None):
    """operators applied to depth-1 sub-expressions in one hole and atoms in the others"""
    l1 = level1(atoms, ext)
    temps = COMPOSE_EXT if ext else COMPOSE
    out = []
    for t in temps:
        holes = 1 + max(int(ch) for ch in '012' if '{%s}' % ch in t)
        for pos in range(holes):
            for sub in l1:
                subs = [atoms[(i + 1) % len(atoms)] for i in range(holes)]
                subs[pos] = sub
                try: out.append(compose(t, subs))
                except (IndexError, KeyError): pass
    seen = set(); res = []
    for e in out:
        if e not in seen: seen.add(e); res.append(e)
    if limit and len(res) > limit:
        rng = rng or random.Random(0)
        res = rng.sample(res, limit)
    return res


def random_deep(atoms, depth, count, rng, ext=False):
    temps = COMPOSE_EXT if ext else COMPOSE
    l1 = level1(atoms, ext)
    def gen(d):
        if d <= 0 or rng.random() < 0.15: return rng.choice(atoms)
        if d == 1: return rng.choice(l1)
        t = rng.choice(temps)
        holes = 1 + max(int(ch) for ch in '012' if '{%s}' % ch in t)
        return compose(t, [gen(d - 1 if rng.random() < 0.7 else 0) for _ in range(holes)])
    out = set()
    tries = 0
    while len(out) < count and tries < count * 20:
        tries += 1
        out.add(gen(depth))
    return sorted(out)


# ---------------------------------------------------------------------------------------------------------------------
# boolean skeletons: every and/or/not tree over n leaves (jump-threading in the decompiler depends on the exact shape)
LEAF_KINDS = ['{v}', '{v} is None', '{v} is not None', 'x.p == {v}', '{v} in b', 'f({v})']


def bool_skeletons(n):
    """all and/or/not formula shapes with n leaf holes; holes are written {0}..{n-1} left to right"""
    def trees(lo, hi):
        # returns list of strings for leaves lo..hi-1 (unparenthesised at top)
        if hi - lo == 1:
            return ['{%d}' % lo, 'not {%d}' % lo]
        out = []
        for mid in range(lo + 1, hi):
            for l in trees(lo, mid):
                for r in trees(mid, hi):
                    for op in ('and', 'or'):
                        e = '(%s) %s (%s)' % (l, op, r)
                        out.append(e)
                        out.append('not (%s)' % e)
        return out
    return trees(0, n)


def bool_family(n, kinds=None, names='acd', rotations=None):
    """skeletons x leaf-kind rotations: leaf i gets kind (i + r) % len(kinds)"""
    kinds = kinds or LEAF_KINDS
    out = []
    sk = bool_skeletons(n)
    for r in (rotations if rotations is not None else range(len(kinds))):
        for t in sk:
            leaves = ['(%s)' % kinds[(i + r) % len(kinds)].format(v=names[i % len(names)]) if (i + r) % len(kinds) else names[i % len(names)]
                      for i in range(n)]
            out.append(t.format(*leaves))
    seen = set(); res = []
    for e in out:
        if e not in seen: seen.add(e); res.append(e)
    return res


# ---------------------------------------------------------------------------------------------------------------------
# wide family: one instance of every expression form the bytecode can hold (operator tables, displays, call shapes, f-string
# conversions, nested functions); depth 1 over the atoms a b c plus a few fixed depth-2 shapes
def wide(atoms=('a', 'b', 'c')):
    a, b, c = atoms[:3]
    out = []
    for op in ('+', '-', '*', '/', '//', '%', '**', '@', '<<', '>>', '&', '|', '^'):
        out += ['%s %s %s' % (a, op, b), '%s %s %s' % (b, op, a), '%s %s %s %s %s' % (a, op, b, op, c), '%s %s (%s %s %s)' % (a, op, b, op, c)]
    for op in ('<', '<=', '>', '>=', '==', '!=', 'is', 'is not', 'in', 'not in'):
        out += ['%s %s %s' % (a, op, b), '%s %s %s' % (b, op, a), 'not (%s %s %s)' % (a, op, b), '%s %s %s %s %s' % (a, op, b, op, c)]
    out += ['~%s' % a, '+%s' % a, '-%s' % a, 'not %s' % a, '~-%s' % a, '-~%s' % a, 'not ~%s' % a, '- - %s' % a, 'not not %s' % a]
    out += ['{%s: %s, %s: %s}' % (a, b, c, a), '{%s: %s, %s: %s, %s: %s}' % (a, b, c, a, b, c), "{'k': %s, %s: %s}" % (a, b, c), "{'k': %s, 'j': %s}" % (a, b),
            "{%s: 1, %s: 2}" % (a, b), '{%s: %s}' % (a, b), '{}', '{%s, %s}' % (a, b), '{%s, %s, %s}' % (c, a, b), '[%s, %s, %s]' % (a, b, c), '[%s]' % a, '[]',
            '(%s, %s, %s)' % (a, b, c), '((%s, %s), %s)' % (a, b, c), '(%s, (%s, %s))' % (a, b, c), '(%s,)' % a, '()', '[(%s, %s), [%s]]' % (a, b, c),
            '{**%s, %s: %s}' % (a, b, c), '[*%s, %s]' % (a, b), '(*%s, %s)' % (a, b), '{*%s, %s}' % (a, b),
            '(1, 2)', '(1, %s)' % a, "('x', None, True)", '[1, 2]', '{1, 2}', '%s in (1, 2)' % a, '%s in [1, 2]' % a, '%s in {1, 2}' % a, '%s not in (%s, %s)' % (a, b, c),
            '%s in [%s, %s]' % (a, b, c)]
    for conv in ('', '!s', '!r', '!a'):
        out += ["f'{%s%s}'" % (a, conv), "f'{%s%s:>3}'" % (a, conv), "f'{%s%s:{%s}}'" % (a, conv, b), "f'x{%s%s}y{%s}'" % (a, conv, b), "f'{%s%s}{%s!r}'" % (a, conv, b)]
    out += ["f'{{{%s}}}'" % a, "f'{%s}{%s}{%s}'" % (a, b, c), "f'{%s:{%s}.{%s}}'" % (a, b, c), "f'{%s + %s}'" % (a, b), "f'{%s.p!r:^{%s}}'" % (a, b), "f''", "f'x'"]
    out += ['f(%s)' % a, 'f(%s, %s)' % (a, b), 'f(%s, %s, %s)' % (a, b, c), 'f()', 'f(k=%s)' % a, 'f(k=%s, j=%s)' % (a, b), 'f(j=%s, k=%s)' % (a, b), 'f(%s, k=%s)' % (a, b),
            'f(%s, %s, k=%s)' % (a, b, c), 'f(%s, k=%s, j=%s)' % (a, b, c), 'f(*%s)' % a, 'f(%s, *%s)' % (a, b), 'f(*%s, %s)' % (a, b), 'f(*%s, *%s)' % (a, b),
            'f(**%s)' % a, 'f(%s, **%s)' % (a, b), 'f(*%s, **%s)' % (a, b), 'f(%s, *%s, k=%s)' % (a, b, c), 'f(k=%s, **%s)' % (a, b), 'f(**%s, **%s)' % (a, b),
            '%s.m()' % a, '%s.m(%s)' % (a, b), '%s.m(%s, k=%s)' % (a, b, c), '%s.m(*%s)' % (a, b), '%s.m(k=%s)' % (a, b), '%s.p.m(%s).q' % (a, b), '%s.m(%s).n(%s)' % (a, b, c),
            'f(%s)(%s)' % (a, b), 'f(%s)[%s]' % (a, b), '%s[%s](%s)' % (a, b, c), 'f(g(%s), h(%s))' % (a, b), 'f(%s.p, k=%s.q)' % (a, b)]
    out += ['%s[%s,]' % (a, b), '%s[(%s,)]' % (a, b), '%s[%s,][%s]' % (a, b, c), '%s[(%s + %s,)]' % (a, b, c), '%s[1,]' % a,
            '%s[%s]' % (a, b), '%s[%s][%s]' % (a, b, c), '%s[%s, %s]' % (a, b, c), '%s[(%s, %s)]' % (a, b, c), '%s[%s:%s]' % (a, b, c), '%s[%s:]' % (a, b), '%s[:%s]' % (a, b), '%s[:]' % a,
            '%s[::%s]' % (a, b), '%s[%s::%s]' % (a, b, c), '%s[:%s:%s]' % (a, b, c), '%s[%s:%s:%s]' % (a, b, c, a), '%s[%s:%s, %s]' % (a, b, c, a), '%s[%s, %s:%s]' % (a, b, c, a),
            '%s[::2, 1:]' % a, '%s[-1]' % a, '%s[-1:]' % a, '%s[:-1]' % a, '%s[1:-1]' % a, '%s[...]' % a, "%s['k']" % a, '%s[%s.p:%s.q]' % (a, b, c), '%s[-%s:]' % (a, b)]
    out += ['(lambda: %s)' % a, '(lambda y: y + %s)' % a, '(lambda y=%s: y)' % a, '(lambda y=%s: y + %s)' % (a, b), '(lambda y=%s, z=%s: y + z)' % (a, b), '(lambda y, z=%s: y + z + %s)' % (a, b),
            '(lambda *y: %s)' % a, '(lambda **y: %s)' % a, '(lambda y, *, k=%s: y + %s)' % (a, b), '(lambda y, *, k: y + k)', '(lambda y, /, z: y + z + %s)' % a,
            'f(lambda y=%s: y + %s)' % (c, a), 'f(lambda y: y.p == %s)' % a, 'f(y for y in %s)' % a, 'f(y + %s for y in %s if %s)' % (b, a, c), 'f(y for y in %s if y.p == %s)' % (a, b),
            # closures over the loop variable x of the enclosing generator / lambda (MAKE_FUNCTION with a closure tuple)
            '(lambda y: y + x)', '(lambda y=%s: y + x)' % a, '(lambda y=x: y + %s)' % a, '(lambda y=%s, z=%s: y + z + x.p)' % (a, b), 'f(lambda y=%s: y.p == x.p)' % a,
            '(lambda *y: x)', 'f(y for y in %s if y.p == x.p)' % a, 'f(y + x for y in %s)' % a, '[y for y in %s if y == x]' % a, 'f(lambda: (x, %s))' % a,
            'f((y, z) for y in %s for z in y.q)' % a, '[y for y in %s]' % a, '{y for y in %s}' % a, '{y: %s for y in %s}' % (a, b)]
    out += ['%s if %s else %s' % (a, b, c), '%s if %s else (%s if %s else %s)' % (a, b, c, a, b), '(%s if %s else %s) if %s else %s' % (a, b, c, a, b), '1 if %s else 2' % a,
            '%s if not %s else %s' % (a, b, c), '(%s if %s else %s).p' % (a, b, c), 'f(%s if %s else %s)' % (a, b, c), '(%s if %s else %s)[%s]' % (a, b, c, a),
            '%s.p' % a, '%s.p.q' % a, '%s.p.q.r' % a, '-%s.p' % a, '(-%s).p' % a, '%s ** -%s' % (a, b), '-%s ** %s' % (a, b), '(-%s) ** %s' % (a, b), '%s ** %s ** %s' % (a, b, c),
            '(%s ** %s) ** %s' % (a, b, c), '%s - (%s - %s)' % (a, b, c), '%s / (%s * %s)' % (a, b, c), '%s * (%s + %s)' % (a, b, c), '(%s + %s) * %s' % (a, b, c), '%s %% (%s %% %s)' % (a, b, c),
            "%s == 'x'" % a, '%s == 1.5' % a, '%s == -1' % a, '%s == None' % a, '%s is True' % a, '%s == (1, 2)' % a, "%s == b'x'" % a, '%s == 100000000000000000000' % a, '%s == 1j' % a,
            'None', 'True', '1', "'s'", '-1', '1.5', '(%s, None)' % a, '[None, %s]' % a]
    seen = set(); res = []
    for e in out:
        if e not in seen: seen.add(e); res.append(e)
    return res
