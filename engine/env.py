"""E0 - environment: driver-module stubs, mock-pool databases, fake DB-API.

No PostgreSQL/MySQL/Oracle driver or server exists in the sandbox.  The provider modules
are imported against empty stand-in driver modules that carry only the names touched at
import time; the real translators/builders/converters of each dialect then run unchanged.
"""
import sys, types, importlib

STUBBED = []


def _mod(name, **attrs):
    if name in sys.modules:
        return sys.modules[name]
    m = types.ModuleType(name)
    m.__dict__.update(attrs)
    sys.modules[name] = m
    STUBBED.append(name)
    return m


class _DBAPIError(Exception): pass


def _dbapi_exceptions():
    class Warning(Exception): pass
    class Error(Exception): pass
    class InterfaceError(Error): pass
    class DatabaseError(Error): pass
    class DataError(DatabaseError): pass
    class OperationalError(DatabaseError): pass
    class IntegrityError(DatabaseError): pass
    class InternalError(DatabaseError): pass
    class ProgrammingError(DatabaseError): pass
    class NotSupportedError(DatabaseError): pass
    return {k: v for k, v in locals().items()}


def install_driver_stubs():
    """psycopg2, MySQLdb, cx_Oracle stand-ins (idempotent)."""
    try:
        import psycopg2  # noqa
    except ImportError:
        ext = _mod('psycopg2.extensions', ISOLATION_LEVEL_AUTOCOMMIT=0, TRANSACTION_STATUS_IDLE=0,
                   register_adapter=lambda *a, **k: None, new_type=lambda *a, **k: None, register_type=lambda *a, **k: None,
                   AsIs=lambda x: x, Binary=bytes)
        extras = _mod('psycopg2.extras', register_uuid=lambda *a, **k: None, register_default_json=lambda *a, **k: None,
                      register_default_jsonb=lambda *a, **k: None, Json=lambda x: x)
        p = _mod('psycopg2', extensions=ext, extras=extras, paramstyle='pyformat', **_dbapi_exceptions())
    try:
        import MySQLdb  # noqa
    except ImportError:
        class _NS(object):
            def __getattr__(self, name): return hash(name) % 251
        conv = _mod('MySQLdb.converters', conversions={}, escape_str=lambda s, *a: "'%s'" % s)
        consts = _mod('MySQLdb.constants', FIELD_TYPE=_NS(), FLAG=_NS(), CLIENT=_NS())
        def string_literal(s, *a):
            if isinstance(s, str): s = s.encode('utf8')
            # MySQLdb.string_literal: mysql_real_escape_string + surrounding quotes
            out = bytearray(b"'")
            esc = {0: b'\\0', 10: b'\\n', 13: b'\\r', 92: b'\\\\', 39: b"\\'", 34: b'\\"', 26: b'\\Z'}
            for ch in s:
                out += esc.get(ch, bytes([ch]))
            out += b"'"
            return bytes(out)
        _mod('MySQLdb', converters=conv, constants=consts, string_literal=string_literal, paramstyle='format',
             **_dbapi_exceptions())
    try:
        import cx_Oracle  # noqa
    except ImportError:
        class _T(object): pass
        _mod('cx_Oracle', paramstyle='named', LOB=_T, NUMBER=_T(), STRING=_T(), FIXED_CHAR=_T(), TIMESTAMP=_T(),
             SessionPool=lambda **kw: None, **_dbapi_exceptions())


class FakeCursor(object):
    description = []
    rowcount = 0
    arraysize = 1
    def execute(self, sql, args=None): pass
    def executemany(self, sql, args=None): pass
    def fetchone(self): return None
    def fetchmany(self, size=None): return []
    def fetchall(self): return []
    def close(self): pass
    def var(self, *a, **k): return None


class FakeConnection(object):
    autocommit = True
    outputtypehandler = None
    def __init__(self): self._cursor = FakeCursor()
    def commit(self): pass
    def rollback(self): pass
    def cursor(self): return self._cursor
    def close(self): pass
    def set_client_encoding(self, enc): pass
    def ping(self, *a): pass


class FakePool(object):
    def __init__(self): self.con = FakeConnection()
    def connect(self): return self.con, True
    def release(self, con): pass
    def drop(self, con): pass
    def disconnect(self): pass


SERVER_VERSIONS = {'sqlite': (3, 35, 0), 'postgres': 90200, 'mysql': (5, 7, 11), 'oracle': (11, 2, 0, 2, 0), 'cockroach': 90200}


def mock_database(provider_name):
    """A pony Database bound to the real provider class of `provider_name` over a fake pool."""
    install_driver_stubs()
    from pony.orm import Database
    mod = importlib.import_module('pony.orm.dbproviders.' + provider_name)
    base = mod.provider_cls

    class VerifProvider(base):
        json1_available = False
        server_version = SERVER_VERSIONS[provider_name]
        def inspect_connection(provider, connection): pass
    VerifProvider.__name__ = base.__name__
    db = Database()
    db.provider_name = provider_name
    args = (':memory:',) if provider_name == 'sqlite' else ()
    db._bind(VerifProvider, *args, pony_pool_mockup=FakePool())
    return db


def sqlite_memory_database():
    from pony.orm import Database
    db = Database()
    db.bind('sqlite', ':memory:')
    return db
