"""Shared plumbing: obligations, verdicts, known findings, evidence, exit codes.

Verdict vocabulary (DESIGN.md section 2):
  holds         solver said unsat / CrossHair "Confirmed over all paths"
  rejected      the real code raised the error the property allows instead of an answer
  cex           solver produced a counterexample; `reproduced` says whether the replay
                against the real code (outside any tracer / model) showed the same failure
  inconclusive  solver unknown / timeout / unmodelled construct; never counted as a pass
"""
import hashlib, inspect, json, os, sys, time, traceback

VERIF = os.path.dirname(os.path.dirname(os.path.abspath(__file__)))
HOLDS, REJECTED, CEX, INCONCLUSIVE = 'holds', 'rejected', 'cex', 'inconclusive'


class Ob(object):
    """One discharged (or not) proof obligation."""
    __slots__ = ('name', 'kind', 'verdict', 'detail', 'cex', 'time_s', 'reproduced', 'key', 'replay')

    def __init__(self, name, kind, verdict, detail='', cex=None, time_s=0.0, reproduced=None, key=None, replay=None):
        self.name = name          # human readable obligation id (program / harness + configuration)
        self.kind = kind          # 'z3', 'crosshair', 'structural', 'concrete-tie'
        self.verdict = verdict
        self.detail = detail
        self.cex = cex            # JSON-able counterexample (model / call arguments)
        self.time_s = time_s
        self.reproduced = reproduced
        self.key = key            # stable classification key used to match known findings
        self.replay = replay      # python source text of a stand-alone replay script

    def as_dict(self):
        return {k: getattr(self, k) for k in self.__slots__ if k != 'replay'}


class Report(object):
    def __init__(self, pid, level, explanation):
        self.pid = pid
        self.level = level
        self.explanation = explanation
        self.obs = []
        self.programs = 0            # enumerated programs (not solver-quantified)
        self.samples = []
        self.functions = []          # real functions whose code was executed/encoded
        self.bounds = {}
        self.assumptions = []
        self.trusted = []
        self.solver_time = 0.0
        self.extra = {}
        self.harness_errors = []

    def add(self, ob):
        self.obs.append(ob)
        self.solver_time += ob.time_s or 0.0
        return ob

    def fn(self, *fns):
        for f in fns:
            try:
                src = inspect.getsource(f)
                h = hashlib.sha1(src.encode()).hexdigest()[:10]
            except Exception:
                h = '?'
            name = getattr(f, '__module__', '?') + '.' + getattr(f, '__qualname__', repr(f))
            ent = '%s@%s' % (name, h)
            if ent not in self.functions:
                self.functions.append(ent)

    def sample(self, s, limit=6):
        if len(self.samples) < limit:
            self.samples.append(s)


def load_known(pid):
    path = os.path.join(VERIF, 'known_findings.json')
    try:
        data = json.load(open(path))
    except FileNotFoundError:
        return []
    return [e for e in data.get('findings', []) if e.get('property') == pid and e.get('status', 'known') == 'known']


def finish(report, tier, seed, t0):
    """Classify results, write evidence, print verdict lines, return exit code."""
    pid = report.pid
    known = load_known(pid)
    known_keys = {e['key']: e for e in known}
    violations, known_hit, nonrepro, inconclusive = [], {}, [], []
    counts = {HOLDS: 0, REJECTED: 0, CEX: 0, INCONCLUSIVE: 0}
    for ob in report.obs:
        counts[ob.verdict] = counts.get(ob.verdict, 0) + 1
        if ob.verdict == CEX:
            if ob.reproduced is False:
                nonrepro.append(ob)
            elif ob.key in known_keys:
                known_hit.setdefault(ob.key, []).append(ob)
            else:
                violations.append(ob)
        elif ob.verdict == INCONCLUSIVE:
            inconclusive.append(ob)

    rdir = os.path.join(VERIF, 'replays', pid)
    lines = []
    bykey = {}
    for ob in violations:
        bykey.setdefault(ob.key or ob.name, []).append(ob)
    if len(bykey) < len(violations):
        print('%d violating obligations in %d classes:' % (len(violations), len(bykey)))
        for k, obs in sorted(bykey.items()):
            print('  class %s: %d obligation(s), e.g. %s' % (k, len(obs), obs[0].name))
    violations = [obs[0] for k, obs in sorted(bykey.items())]
    for i, ob in enumerate(violations):
        os.makedirs(rdir, exist_ok=True)
        path = os.path.join(rdir, 'violation_%02d.py' % i)
        with open(path, 'w') as f:
            f.write(ob.replay or ('# no stand-alone replay script; counterexample:\n# %s\n# %s\n' % (ob.name, json.dumps(ob.cex, default=repr))))
        lines.append('VIOLATION property=%s replay=%s' % (pid, path))
        print('  obligation: %s\n  counterexample: %s\n  detail: %s' % (ob.name, json.dumps(ob.cex, default=repr)[:600], (ob.detail or '')[:600]))
        if i >= 20: break
    for key, obs in sorted(known_hit.items()):
        print('KNOWN-FINDING: property=%s %s [%s; %d obligation(s) this run, e.g. %s]' % (
            pid, known_keys[key]['what'], key, len(obs), json.dumps(obs[0].cex, default=repr)[:200]))
    for ob in nonrepro[:10]:
        print('HARNESS-ERROR: counterexample did not reproduce: %s %s' % (ob.name, json.dumps(ob.cex, default=repr)[:300]))
    for ob in inconclusive[:10]:
        print('INCONCLUSIVE: %s %s' % (ob.name, (ob.detail or '')[:200]))
    for e in report.harness_errors[:10]:
        print('HARNESS-ERROR: %s' % e)
    for l in lines:
        print(l)

    n_ob = len(report.obs)
    discharged = counts[HOLDS] + counts[REJECTED]
    cov = {
        'explanation': report.explanation,
        'programs': max(report.programs, 1) if report.level == 'translation_validation' else report.programs,
        'obligations': n_ob,
        'discharged': discharged,
        'disagreements_checked': counts[CEX],
        'evaluations': n_ob,
        'distinct_nontrivial': len({ob.name for ob in report.obs if ob.verdict != REJECTED}),
        'rule': 'one evaluation = one solver obligation (a z3 query, or one CrossHair condition explored over all paths); '
                'distinct = distinct obligation names; trivial = the real code rejected the program with an allowed error',
        'samples': report.samples or [ob.as_dict() for ob in report.obs[:3]],
        'queries_by_verdict': counts,
        'inconclusive': [ob.name for ob in inconclusive][:50],
        'non_reproducing_counterexamples': [ob.name for ob in nonrepro][:50],
        'known_findings_hit': {k: len(v) for k, v in known_hit.items()},
        'functions_encoded': report.functions,
        'bounds': report.bounds,
        'solver_time_s': round(report.solver_time, 3),
        'trusted_base': report.trusted,
        'exhaustive': False,
    }
    cov.update(report.extra)
    ev = {
        'property_id': pid, 'tier': tier, 'seed': seed, 'level': report.level,
        'coverage': cov, 'assumptions': report.assumptions,
        'wall_s': round(time.time() - t0, 2), 'violations': sum(len(v) for v in bykey.values()),
    }
    os.makedirs(os.path.join(VERIF, 'evidence'), exist_ok=True)
    with open(os.path.join(VERIF, 'evidence', pid + '.json'), 'w') as f:
        json.dump(ev, f, indent=1, default=repr)
    print('%s tier=%s obligations=%d holds=%d rejected=%d cex=%d (known=%d, violations=%d, non-reproducing=%d) inconclusive=%d solver_time=%.1fs wall=%.1fs' % (
        pid, tier, n_ob, counts[HOLDS], counts[REJECTED], counts[CEX], sum(len(v) for v in known_hit.values()),
        len(violations), len(nonrepro), counts[INCONCLUSIVE], report.solver_time, time.time() - t0))
    if violations:
        return 1
    strict = os.environ.get('VERIF_STRICT') == '1'
    if report.harness_errors or nonrepro:
        return 2
    if strict and inconclusive:
        return 2
    if n_ob == 0:
        print('HARNESS-ERROR: no obligations were generated')
        return 2
    return 0


def main(argv=None):
    import argparse, importlib
    ap = argparse.ArgumentParser()
    ap.add_argument('pid')
    ap.add_argument('--tier', default=os.environ.get('VERIF_TIER') or 'quick', choices=['quick', 'thorough'])
    ap.add_argument('--replay')
    ap.add_argument('--only', help='substring filter on obligation names (debugging)')
    args = ap.parse_args(argv)
    seed = int(os.environ.get('VERIF_SEED') or 0)
    if args.replay:
        import runpy
        try:
            runpy.run_path(args.replay, run_name='__main__')
        except SystemExit as e:
            return e.code or 0
        return 0
    t0 = time.time()
    mod = importlib.import_module('checks.' + args.pid.lower())
    try:
        report = mod.run(args.tier, seed, only=args.only)
    except Exception:
        traceback.print_exc()
        print('HARNESS-ERROR: check %s crashed' % args.pid)
        return 2
    return finish(report, args.tier, seed, t0)


if __name__ == '__main__':
    sys.exit(main())
