"""E2 - ExprEq: can two Python expression trees evaluate differently?  (z3, one query per pair)

Encoding (one function for both trees, so shared sub-terms get identical symbols):
  * every value is a z3 Int; truthiness is `v != 0`; True/False are 1/0 (bool is an int subtype)
  * names are free Int constants; `and`/`or` return operands (ite), `not`/comparisons return 0/1,
    chained comparisons expand with single evaluation, conditional expressions are ite
  * + and - (binary and unary) are exact; every other operator, attribute access, call, subscript, slice,
    container display, `in`, `is` and f-string piece is an uninterpreted function of its encoded operands --
    sound for *difference finding* because both trees share the symbols
  * `x is None` is a predicate isnone(x); None itself is a distinguished constant

sat  => an assignment (plus function interpretations) on which the trees differ; replayed by CPython's own
eval() of both trees with names bound to ModelVal objects whose operators consult the z3 model.
"""
import ast, itertools, warnings
import z3
warnings.filterwarnings('ignore', category=SyntaxWarning)


class NotEncodable(Exception):
    pass


I = z3.IntSort()
B = z3.BoolSort()
_funcs = {}


def UF(name, arity, rng=I):
    key = (name, arity, rng)
    f = _funcs.get(key)
    if f is None:
        f = z3.Function('%s/%d' % (name, arity), *([I] * arity + [rng]))
        _funcs[key] = f
    return f


_str_codes = {}


def const_code(v):
    """constants other than ints get distinct large codes (per value and type)"""
    if isinstance(v, bool): return z3.IntVal(1 if v else 0)
    if isinstance(v, int): return z3.IntVal(v)
    key = (type(v).__name__, repr(v))
    c = _str_codes.get(key)
    if c is None:
        c = 10 ** 9 + 7 * len(_str_codes) + 1
        _str_codes[key] = c
    return z3.IntVal(c)


NONE = z3.IntVal(-(10 ** 9) - 1)
BINOPS = {ast.Mult: 'mul', ast.Div: 'truediv', ast.FloorDiv: 'floordiv', ast.Mod: 'mod', ast.Pow: 'pow', ast.LShift: 'lshift',
          ast.RShift: 'rshift', ast.BitOr: 'or_', ast.BitAnd: 'and_', ast.BitXor: 'xor', ast.MatMult: 'matmul'}
CMPOPS = {ast.Eq: 'eq', ast.NotEq: 'ne', ast.Lt: 'lt', ast.LtE: 'le', ast.Gt: 'gt', ast.GtE: 'ge'}


def b2i(b):
    return z3.If(b, z3.IntVal(1), z3.IntVal(0))


def truth(v):
    return v != 0


class Encoder(object):
    def __init__(self):
        self.names = {}
        self.aux = []        # side constraints tying helper symbols

    def name(self, n):
        if n not in self.names:
            self.names[n] = z3.Int('name_' + n)
        return self.names[n]

    def enc(self, node):
        m = getattr(self, 'enc_' + type(node).__name__, None)
        if m is None:
            raise NotEncodable(type(node).__name__)
        return m(node)

    def enc_Expression(self, n): return self.enc(n.body)
    def enc_Expr(self, n): return self.enc(n.value)
    def enc_Name(self, n):
        if n.id == 'Ellipsis': return const_code(Ellipsis)      # the builtin name (pony renders `...` as `Ellipsis`); shadowing it is outside the claim
        return self.name(n.id)

    def enc_Constant(self, n):
        if n.value is None: return NONE
        if isinstance(n.value, (tuple, frozenset)):
            # the compiler folds displays of constants into one constant: same symbol as the display it came from
            vals = list(n.value) if isinstance(n.value, tuple) else sorted(n.value, key=repr)
            if not vals: return const_code(())
            if any(isinstance(x, (tuple, frozenset)) for x in vals): return const_code(n.value)
            kind = 'tuple' if isinstance(n.value, tuple) else 'set'
            r = UF('%s_%d' % (kind, len(vals)), len(vals))(*[const_code(x) if x is not None else NONE for x in vals])
            return self._truthy(r) if kind == 'tuple' else r
        return const_code(n.value)

    def enc_BoolOp(self, n):
        vals = [self.enc(v) for v in n.values]
        res = vals[-1]
        for v in reversed(vals[:-1]):
            if isinstance(n.op, ast.And): res = z3.If(truth(v), res, v)
            else: res = z3.If(truth(v), v, res)
        return res

    def enc_UnaryOp(self, n):
        v = self.enc(n.operand)
        if isinstance(n.op, ast.Not): return b2i(z3.Not(truth(v)))
        if isinstance(n.op, ast.USub): return -v
        if isinstance(n.op, ast.UAdd): return UF('pos', 1)(v)
        if isinstance(n.op, ast.Invert): return UF('invert', 1)(v)
        raise NotEncodable(type(n.op).__name__)

    def enc_BinOp(self, n):
        a, b = self.enc(n.left), self.enc(n.right)
        if isinstance(n.op, ast.Add): return a + b
        if isinstance(n.op, ast.Sub): return a - b
        nm = BINOPS.get(type(n.op))
        if nm is None: raise NotEncodable(type(n.op).__name__)
        return UF(nm, 2)(a, b)

    def cmp1(self, op, a, b):
        t = type(op)
        if t is ast.Eq: return a == b
        if t is ast.NotEq: return a != b
        if t is ast.Lt: return a < b
        if t is ast.LtE: return a <= b
        if t is ast.Gt: return a > b
        if t is ast.GtE: return a >= b
        if t in (ast.Is, ast.IsNot):
            if z3.eq(b, NONE): r = UF('isnone', 1, B)(a)
            elif z3.eq(a, NONE): r = UF('isnone', 1, B)(b)
            else: r = UF('is', 2, B)(a, b)
            return z3.Not(r) if t is ast.IsNot else r
        if t in (ast.In, ast.NotIn):
            r = UF('contains', 2, B)(b, a)
            return z3.Not(r) if t is ast.NotIn else r
        raise NotEncodable(t.__name__)

    def enc_Compare(self, n):
        operands = [self.enc(n.left)]
        for op, c in zip(n.ops, n.comparators):
            if isinstance(op, (ast.In, ast.NotIn)) and isinstance(c, ast.List):
                c = ast.Tuple(elts=c.elts, ctx=ast.Load())      # membership in a list display = membership in the tuple the compiler builds
            if isinstance(op, (ast.In, ast.NotIn)) and isinstance(c, ast.Set) and all(isinstance(e, ast.Constant) for e in c.elts):
                c = ast.Constant(frozenset(e.value for e in c.elts))
            operands.append(self.enc(c))
        parts = [self.cmp1(op, operands[i], operands[i + 1]) for i, op in enumerate(n.ops)]
        return b2i(z3.And(parts) if len(parts) > 1 else parts[0])

    def enc_IfExp(self, n):
        return z3.If(truth(self.enc(n.test)), self.enc(n.body), self.enc(n.orelse))

    def enc_Attribute(self, n):
        return UF('attr_' + n.attr, 1)(self.enc(n.value))

    def enc_Call(self, n):
        if isinstance(n.func, ast.Name) and n.func.id == 'frozenset' and len(n.args) == 1 and not n.keywords and isinstance(n.args[0], ast.Set) \
                and all(isinstance(e, ast.Constant) for e in n.args[0].elts):
            return self.enc_Constant(ast.Constant(frozenset(e.value for e in n.args[0].elts)))      # how a folded set constant is rendered
        args = [self.enc(n.func)]
        shape = []
        for a in n.args:
            if isinstance(a, ast.Starred):
                shape.append('*'); args.append(self.enc(a.value))
            else:
                shape.append('p'); args.append(self.enc(a))
        for k in n.keywords:
            shape.append('**' if k.arg is None else 'k:' + k.arg); args.append(self.enc(k.value))
        return UF('call[%s]' % ','.join(shape), len(args))(*args)

    def enc_Subscript(self, n):
        v = self.enc(n.value)
        sl = n.slice
        if isinstance(sl, ast.Slice):
            parts = [self.enc(x) if x is not None else NONE for x in (sl.lower, sl.upper, sl.step)]
            return UF('getslice', 4)(v, *parts)
        return UF('getitem', 2)(v, self.enc(sl))

    def enc_Slice(self, n):
        parts = [self.enc(x) if x is not None else NONE for x in (n.lower, n.upper, n.step)]
        return UF('slice', 3)(*parts)

    def enc_Tuple(self, n):
        if not n.elts: return const_code(())
        return self._truthy(UF('tuple_%d' % len(n.elts), len(n.elts))(*[self.enc(e) for e in n.elts]))

    def enc_List(self, n):
        if not n.elts: return const_code('[]')
        return self._truthy(UF('list_%d' % len(n.elts), len(n.elts))(*[self.enc(e) for e in n.elts]))

    def enc_Set(self, n):
        return UF('set_%d' % len(n.elts), len(n.elts))(*[self.enc(e) for e in n.elts])

    def enc_Dict(self, n):
        parts = []
        for k, v in zip(n.keys, n.values):
            parts.append(self.enc(k) if k is not None else NONE); parts.append(self.enc(v))
        if not parts: return const_code('{}')
        return UF('dict_%d' % len(parts), len(parts))(*parts)

    @staticmethod
    def _truthy(r):
        # a non-empty display is always truthy
        return z3.If(r == 0, z3.IntVal(1), r)

    def enc_Starred(self, n):
        return UF('starred', 1)(self.enc(n.value))

    def enc_JoinedStr(self, n):
        # merge adjacent literal pieces (the compiler does the same)
        parts = []
        lit = ''
        for v in n.values:
            if isinstance(v, ast.Constant):
                lit += str(v.value)
            else:
                if lit: parts.append(const_code(lit)); lit = ''
                parts.append(self.enc(v))
        if lit: parts.append(const_code(lit))
        if not parts: return const_code('')
        if len(parts) == 1:
            return parts[0]          # f'{a}' is exactly format(a, ''); f'lit' is the literal
        return UF('fstr_%d' % len(parts), len(parts))(*parts)

    def enc_FormattedValue(self, n):
        spec = self.enc(n.format_spec) if n.format_spec is not None else const_code('')
        return UF('format_conv%d' % n.conversion, 2)(self.enc(n.value), spec)

    def enc_GeneratorExp(self, n):
        return self._opaque(n)

    def enc_Lambda(self, n):
        return self._opaque(n)

    def enc_ListComp(self, n): return self._opaque(n)

    def _opaque(self, n):
        # nested scopes: opaque symbol keyed by the normalised structure, applied to the free names in order
        dump = ast.dump(n)
        free = sorted({x.id for x in ast.walk(n) if isinstance(x, ast.Name)})
        f = UF('opaque_%x' % (hash(dump) & 0xffffffffff), len(free))
        return f(*[self.name(x) for x in free]) if free else z3.Int('opaque_%x' % (hash(dump) & 0xffffffffff))


class ModelVal(object):
    """Python value whose operators follow a z3 model of the encoding above (used only for replay)."""
    __slots__ = ('v', 'm')
    def __init__(self, v, m): self.v, self.m = v, m
    def _ev(self, term):
        r = self.m.eval(term, model_completion=True)
        if z3.is_int_value(r): return r.as_long()
        return z3.is_true(r)
    @staticmethod
    def code(x):
        if isinstance(x, ModelVal): return z3.IntVal(x.v)
        if x is None: return NONE
        if isinstance(x, tuple) and x:
            return UF('tuple_%d' % len(x), len(x))(*[ModelVal.code(e) for e in x])
        if isinstance(x, slice):
            return UF('slice', 3)(*[ModelVal.code(e) for e in (x.start, x.stop, x.step)])
        return const_code(x)
    def _uf(self, name, *args, rng=I):
        r = self._ev(UF(name, len(args), rng)(*[ModelVal.code(a) for a in args]))
        return r if rng is B else ModelVal(r, self.m)
    def _num(self, x):
        return ModelVal.code(x)
    def __bool__(self): return self.v != 0
    def __eq__(self, o): return self._ev(z3.IntVal(self.v) == self._num(o))
    def __ne__(self, o): return self._ev(z3.IntVal(self.v) != self._num(o))
    def __lt__(self, o): return self._ev(z3.IntVal(self.v) < self._num(o))
    def __le__(self, o): return self._ev(z3.IntVal(self.v) <= self._num(o))
    def __gt__(self, o): return self._ev(z3.IntVal(self.v) > self._num(o))
    def __ge__(self, o): return self._ev(z3.IntVal(self.v) >= self._num(o))
    def __hash__(self): return hash(self.v)
    def __add__(self, o): return ModelVal(self._ev(z3.IntVal(self.v) + self._num(o)), self.m)
    def __radd__(self, o): return ModelVal(self._ev(self._num(o) + z3.IntVal(self.v)), self.m)
    def __sub__(self, o): return ModelVal(self._ev(z3.IntVal(self.v) - self._num(o)), self.m)
    def __rsub__(self, o): return ModelVal(self._ev(self._num(o) - z3.IntVal(self.v)), self.m)
    def __neg__(self): return ModelVal(-self.v, self.m)
    def __pos__(self): return self._uf('pos', self)
    def __invert__(self): return self._uf('invert', self)
    def __getattr__(self, name):
        if name.startswith('__'): raise AttributeError(name)
        return self._uf('attr_' + name, self)
    def __getitem__(self, k):
        if isinstance(k, slice): return self._uf('getslice', self, k.start, k.stop, k.step)
        return self._uf('getitem', self, k)
    def __contains__(self, x): return self._uf('contains', self, x, rng=B)
    def __iter__(self): return iter((self._uf('getitem', self, 0), self._uf('getitem', self, 1)))   # finite, so *x terminates
    def __len__(self): return 2
    def keys(self): return ['k']
    def __call__(self, *args, **kw):
        shape = ['p'] * len(args) + ['k:' + k for k in kw]
        return self._uf('call[%s]' % ','.join(shape), self, *(list(args) + list(kw.values())))
    def _fmt(self, conv, spec):
        # the rendered text follows the model's interpretation of format_conv<conv>(value, spec); code 0 is the empty (falsy) string
        c = self._ev(UF('format_conv%d' % conv, 2)(z3.IntVal(self.v), const_code(spec)))
        return '' if c == 0 else '<fmt%d %d>' % (conv, c)
    def __format__(self, spec): return self._fmt(-1, spec)
    def __repr__(self): return '\u27e8%s\u27e9' % (self._fmt(114, '') or 'empty repr')      # non-ASCII, so that !a (ascii) and !r (repr) differ as they can in Python
    def __str__(self): return self._fmt(115, '') or ''


for _nm, _meth in [('mul', 'mul'), ('truediv', 'truediv'), ('floordiv', 'floordiv'), ('mod', 'mod'), ('pow', 'pow'), ('lshift', 'lshift'),
                   ('rshift', 'rshift'), ('or_', 'or'), ('and_', 'and'), ('xor', 'xor'), ('matmul', 'matmul')]:
    def _mk(nm):
        def f(self, o): return self._uf(nm, self, o)
        def r(self, o): return self._uf(nm, o, self)
        return f, r
    _f, _r = _mk(_nm)
    setattr(ModelVal, '__%s__' % _meth, _f)
    setattr(ModelVal, '__r%s__' % _meth, _r)


def differ(tree_a, tree_b, mode='value', timeout_ms=10000, retries=6):
    """mode 'value': results differ;  mode 'truth': truthiness differs.
    Each model is replayed with CPython's eval; a model that does not reproduce (the abstraction let a container have an
    attribute, say) is blocked and the solver is asked again, up to `retries` times.
    returns (verdict, names|None, model|None, how, dt) with verdict in unsat / sat (reproduced) / spurious / unknown"""
    import time
    t0 = time.time()
    enc = Encoder()
    a, b = enc.enc(tree_a), enc.enc(tree_b)
    s = z3.Solver(); s.set('timeout', timeout_ms)
    if mode == 'truth': s.add(truth(a) != truth(b))
    else: s.add(a != b)
    how = ''
    for _ in range(retries):
        r = s.check()
        if r == z3.unsat: return 'unsat', None, None, how, time.time() - t0
        if r != z3.sat: return 'unknown', None, None, how, time.time() - t0
        m = s.model()
        names = {n: m.eval(v, model_completion=True).as_long() for n, v in enc.names.items()}
        ok, how = replay(tree_a, tree_b, names, m, mode)
        if ok: return 'sat', names, m, how, time.time() - t0
        # block this valuation of the result terms and try another model
        va, vb = m.eval(a, model_completion=True), m.eval(b, model_completion=True)
        block = [v != m.eval(v, model_completion=True) for v in enc.names.values()]
        s.add(z3.Or(block + [a != va, b != vb]) if block else z3.Or(a != va, b != vb))
    return 'spurious', None, None, how, time.time() - t0


def replay(tree_a, tree_b, names, model, mode='value'):
    """Evaluate both trees with CPython's eval on ModelVal-bound names; returns (reproduced, description)."""
    def run(tree):
        expr = tree if isinstance(tree, ast.Expression) else ast.Expression(tree)
        expr = ast.fix_missing_locations(ast.parse(ast.unparse(expr), mode='eval')) if False else ast.fix_missing_locations(expr)
        env = {}
        isnone = UF('isnone', 1, B)
        for n, v in names.items():
            if z3.is_true(model.eval(isnone(z3.IntVal(v)), model_completion=True)): env[n] = None
            else: env[n] = ModelVal(v, model)
        try:
            return ('value', eval(compile(expr, '<replay>', 'eval'), {'__builtins__': {}}, env))
        except Exception as e:
            return ('raised', type(e).__name__)
    import copy
    ra, rb = run(copy.deepcopy(tree_a)), run(copy.deepcopy(tree_b))
    def norm(r):
        if r[0] != 'value': return r
        v = r[1]
        if mode == 'truth': return ('truth', bool(v))
        if isinstance(v, ModelVal): return ('value', v.v)
        if isinstance(v, bool): return ('value', int(v))
        return ('value', v)
    na, nb = norm(ra), norm(rb)
    return na != nb, 'source evaluates to %r, other tree to %r' % (na, nb)
