#!/bin/sh
# Build the overlay interpreter used by every check (offline, idempotent):
# a venv on top of /venv's python that sees /venv's site-packages, /repo's working tree
# (never a copy) and crosshair-tool + z3-solver + cvc5 from the offline wheelhouse.
set -e
D="$(cd "$(dirname "$0")" && pwd)"
V="$D/.venv"
if [ ! -x "$V/bin/python" ] || ! "$V/bin/python" -c "import crosshair, z3" 2>/dev/null; then
  rm -rf "$V"
  /venv/bin/python -m venv "$V"
  SP="$V/lib/python3.12/site-packages"
  printf '/venv/lib/python3.12/site-packages\n/repo\n' > "$SP/base.pth"
  PIP_NO_INDEX=1 "$V/bin/pip" install -q --no-index --find-links /opt/veriftools/wheels crosshair-tool z3-solver cvc5 >/dev/null
fi
"$V/bin/python" -c "import crosshair, z3, pony; print('overlay ok', pony.__file__)"
