"""Canary mutations for C20 and C21 (never active in ./check: selected by the environment variable C20_MUTANT, which
checks/c20.py and checks/c21.py remove before they start their worker processes; only development runs set it).
Each mutant re-reads the CURRENT source of the real pony function, rewrites one piece of it and installs the result
in this process only; /repo is never touched.  `expected` names the harness that has to report a counterexample.
"""
import inspect, textwrap

MUTANTS = {
    # name: (owner path, function, [(old, new)], harness expected to fail)
    # ---- C20
    'crit_uses_vals': ('core.Entity', '_construct_optimistic_criteria_', [('dbval = obj._dbvals_[attr]', 'dbval = obj._vals_[attr]')], 'h_c20.upd_w01'),
    'crit_skips_null': ('core.Entity', '_construct_optimistic_criteria_', [('            dbval = obj._dbvals_[attr]\n', '            dbval = obj._dbvals_[attr]\n            if dbval is None: continue\n')], 'h_c20.upd_w01'),
    'crit_null_as_eq': ('core.Entity', '_construct_optimistic_criteria_', [("'IS_NULL' if dbval is None else converter.EQ", 'converter.EQ')], 'h_c20.upd_w01'),
    'crit_uses_wbits': ('core.Entity', '_construct_optimistic_criteria_', [('obj._attrs_with_bit_(obj._attrs_with_columns_, obj._rbits_)', 'obj._attrs_with_bit_(obj._attrs_with_columns_, obj._wbits_)')], 'h_c20.upd_w01'),
    'crit_default_off': ('core.Entity', '_construct_optimistic_criteria_', [('optimistic = attr.optimistic if attr.optimistic is not None else converters[0].optimistic', 'optimistic = bool(attr.optimistic)')], 'h_c20.upd_w04'),
    'crit_reference_skipped': ('core.Entity', '_construct_optimistic_criteria_', [('            if not optimistic: continue\n', '            if not optimistic or attr.reverse: continue\n')], 'h_c20.upd_w02'),
    'no_rowcount_check': ('core.Entity', '_save_updated_', [('if cursor.rowcount == 0 and cache.db_session.optimistic:', 'if False:')], 'h_c20.upd_w08'),
    'for_update_ignored': ('core.Entity', '_save_updated_', [('if optimistic_session and obj not in cache.for_update:', 'if optimistic_session:')], 'h_c20.upd_for_update'),
    'pessimistic_ignored': ('core.Entity', '_save_updated_', [('if optimistic_session and obj not in cache.for_update:', 'if obj not in cache.for_update:')], 'h_c20.upd_pessimistic'),
    'args_misaligned': ('core.Entity', '_save_updated_', [('                values.extend(optimistic_values)\n', '                values[0:0] = optimistic_values\n')], 'h_c20.upd_w01'),
    'update_sql_cache_key_without_ops': ('core.Entity', '_save_updated_', [('query_key = tuple(update_columns), tuple(optimistic_columns), tuple(optimistic_ops)', 'query_key = tuple(update_columns), tuple(optimistic_columns)')], 'h_c20.upd_nulls'),
    'get_no_rbit': ('core.Attribute', '__get__', [('if wbits is not None and not wbits & bit: obj._rbits_ |= bit', 'pass')], 'h_c20.upd_w01'),
    'get_rbit_when_written': ('core.Attribute', '__get__', [('if wbits is not None and not wbits & bit: obj._rbits_ |= bit', 'if wbits is not None: obj._rbits_ |= bit')], 'h_c20.track_step'),
    'get_clears_other_bits': ('core.Attribute', '__get__', [('if wbits is not None and not wbits & bit: obj._rbits_ |= bit', 'if wbits is not None and not wbits & bit: obj._rbits_ = bit')], 'h_c20.track_step'),
    'set_no_wbit': ('core.Attribute', '__set__', [('obj._wbits_ = wbits | bit', 'obj._wbits_ = wbits')], 'h_c20.upd_w01'),
    'set_rbits_ignores_written': ('core.EntityMeta', '_set_rbits', [('obj._rbits_ |= rbits & ~wbits', 'obj._rbits_ |= rbits')], 'h_c20.track_step'),
    'volatile_read_tracked': ('core.EntityMeta', '_initialize_bits_', [('            if attr.is_volatile: bit = 0\n', '')], 'h_c20.upd_volatile'),
    'pg_null_as_eq': ('core.Entity', '_construct_optimistic_criteria_', [("'IS_NULL' if dbval is None else converter.EQ", "converter.EQ if obj._database_.provider.dialect == 'PostgreSQL' else ('IS_NULL' if dbval is None else converter.EQ)")], 'h_c20.upd_pg'),
    'save_forgets_reads': ('core.Entity', '_save_updated_', [('obj._rbits_ |= obj._wbits_ & obj._all_bits_except_volatile_', 'obj._rbits_ = obj._wbits_ & obj._all_bits_except_volatile_')], 'h_c20.upd_twice'),
    'save_forgets_reads_step': ('core.Entity', '_save_updated_', [('obj._rbits_ |= obj._wbits_ & obj._all_bits_except_volatile_', 'obj._rbits_ = obj._wbits_ & obj._all_bits_except_volatile_')], 'h_c20.track_step'),
    'save_keeps_wbits': ('core.Entity', '_save_updated_', [('        obj._wbits_ = 0\n        obj._update_dbvals_(False, new_dbvals)', '        obj._update_dbvals_(False, new_dbvals)')], 'h_c20.track_step'),
    # ---- C21
    'dbset_no_raise': ('core.Entity', '_db_set_', [('            if rbits & bit:\n', '            if False:\n')], 'h_c21.reload_a'),
    'dbset_raise_on_wbits': ('core.Entity', '_db_set_', [('            if rbits & bit:\n', '            if wbits & bit:\n')], 'h_c21.reload_x'),
    'dbset_written_overwritten': ('core.Entity', '_db_set_', [('            if wbits & bit:\n                del new_vals[attr]\n', '')], 'h_c21.reload_n_noflush'),
    'dbset_compares_vals': ('core.Entity', '_db_set_', [('            old_dbval = get_dbval(attr, NOT_LOADED)\n            if old_dbval is not NOT_LOADED:\n                if unpickling',
                                                         '            old_dbval = get_val(attr, NOT_LOADED)\n            if old_dbval is not NOT_LOADED:\n                if unpickling')], 'h_c21.reload_a'),
    'dbset_never_refreshes': ('core.Entity', '_db_set_', [('        obj._vals_.update(new_vals)\n', '        pass\n')], 'h_c21.reload_v'),
    'dbset_null_equals_anything': ('core.Entity', '_db_set_', [('if unpickling or old_dbval == new_dbval or (', 'if unpickling or old_dbval == new_dbval or new_dbval is None or (')], 'h_c21.reload_n'),
    'float_always_equal': ('dbapiprovider.RealConverter', 'dbvals_equal', [('        return diff <= tolerance\n', '        return True\n')], 'h_c21.reload_f'),
    'attr_dbset_no_raise': ('core.Attribute', 'db_set', [('        if obj._rbits_ & bit:\n', '        if False:\n')], 'h_c21.o2o_relink_tracked'),
    'set_rbits_from_queried_entity': ('core.EntityMeta', '_set_rbits', [('rbits = builtins.sum(obj._bits_except_volatile_.get(attr, 0) for attr in attrs)', 'rbits = builtins.sum(entity._bits_except_volatile_.get(attr, 0) for attr in attrs)')], 'h_c21.sub_query_read'),
    'second_changed_attr_unchecked': ('core.Entity', '_db_set_', [('            if rbits & bit:\n', "            if rbits & bit and attr.name != 'n':\n")], 'h_c21.reload_two'),
}


def apply(names):
    from pony.orm import core, dbapiprovider
    mods = {'core': core, 'dbapiprovider': dbapiprovider}
    for name in names.split('+'):
        path, attr, edits, _ = MUTANTS[name]
        mod, cls = path.split('.')
        owner = getattr(mods[mod], cls)
        fn = owner.__dict__[attr]
        raw = fn
        while hasattr(raw, '__wrapped__'): raw = raw.__wrapped__
        src = textwrap.dedent(inspect.getsource(raw))
        body = src[src.index('def '):]                       # decorators (cut_traceback) are dropped: they only trim tracebacks
        for old, new in edits:
            old_d, new_d = _dedent_like(src, old), _dedent_like(src, new)
            if old_d not in body: raise RuntimeError('mutant %s: text not found in %s.%s: %r' % (name, path, attr, old))
            body = body.replace(old_d, new_d)
        filename = '<mutant %s>' % name
        import linecache
        linecache.cache[filename] = (len(body), None, body.splitlines(True), filename)
        ns = {}
        exec(compile(body, filename, 'exec'), mods[mod].__dict__, ns)
        setattr(owner, attr, ns[attr])


def _dedent_like(src, text):
    """The edits are written with the indentation of the file (methods are indented by 4); the source was dedented by 4."""
    lines = text.split('\n')
    out = []
    for i, l in enumerate(lines):
        out.append(l[4:] if l.startswith('    ') and (i > 0 or text.startswith('    ')) else l)
    return '\n'.join(out)
