"""C34 probe"""
from engine.core import Report
from engine import ch
import os

def run(tier, seed, only=None):
    rep = Report('C34', 'other', 'probe')
    T = float(os.environ.get('C34_T', '120'))
    specs = [dict(module='checks.h_c34', fn=f, cond_timeout=T, path_timeout=T / 2, setup='setup') for f in os.environ.get('C34_FNS', 'probe').split(',')]
    ch.run_harnesses(rep, specs, None)
    for ob in rep.obs: print(ob.name, ob.verdict, ob.detail[:600], round(ob.time_s, 1), ob.cex)
    return rep
