"""C34 - permission checks follow the declared access rules.

CrossHair harnesses (checks/h_c34.py) declare a symbolic set of two access rules through the public API
(`db.set_perms_for(...)`, `perm(...)`, `.exclude(...)`), open a db_session on a real mapped model (A, its subclass A2, B,
relationship A.b <-> B.a_set) and ask the REAL can_view / can_edit / can_create / can_delete (has_perm), Database.to_json
and the schema filter; the answers are compared with a reference evaluation of the documented rule semantics written in
the harness module.  See the docstring of checks/h_c34.py for the reference, the recorded interpretation of the
relationship rule (modes exact / deny / grant) and the deviations from DESIGN.md.
"""
import os
from engine.core import Report
from engine import ch

BOUNDS = {
    'model': 'A(id, x, h hidden, b -> B), A2(A)(y), B(id, a_set -> A); objects a=A[1] (a.b = b), a2=A2[2], b=B[1]; two declared rules',
    'entity_p1_view / entity_p1_edit': 'rule 1: permission fixed (view / edit), entities {A | B | A,B}, group matched or not, excluded entity '
        '{none, A, B, A2}; rule 2: permission {view, edit}, same selectors, plus a role, a label and an excluded attribute that an '
        'entity answer must ignore; targets A, A2, B x can_view/edit/create/delete. 1152 paths each '
        '(thorough: entities + {A2 | A2,B}, permission text of rule 2 from all six: 9600 paths)',
    'attr_<mode>_e1_<A|B|AB>': 'mode exact/deny/grant x entities of rule 1 fixed; both rules: group matched or not, excluded entity '
        '{none, A, B}, excluded attribute {none, A.b, B.a_set}; rule 2 entities {A | B | A,B}; both rules grant view; targets: all 8 '
        'attributes (pk, plain, hidden, discriminator, subclass attribute, both relationship sides) x can_view, can_edit. 972 paths each '
        '(thorough: excluded attribute + {A.x, A2.y}, rule 2 permission {view, edit}: 5400 paths)',
    'attr_rule_order': 'both rules cover A (entities {A | A,B} each), matched or not, excluded attribute {none, A.b, B.a_set}, rule 1 excluded entity '
        '{none, A, B}: 432 paths; asserted only: the answers do not depend on the iteration order of the rule set nor on the repetition (reading-independent)',
    'object_conditions': 'rules on (A,B) and (A): group / role / label requirement of both rules, user in group, role and label '
        'present (distributed differently over a, a2, b): 9 booleans, 512 paths',
    'object_exclusions(_rest)': 'both rules: entities {A | B | A,B}, matched or not, excluded entity {none, A, B, A2}: 576 paths (thorough: + {A2 | A2,B}: 1600); '
        '_rest leaves out objects whose entity some rule excludes',
    'object_userkinds': 'user None / plain object / the object a / the object b; rule role {none, self, r, r+self}; user has r; rule '
        'group g1 or none; g1 returned by the any-user getter / by the getter registered for class User: 256 paths; objects and entities',
    'groups': 'one rule; its groups, the any-user getter result and the User-class getter result range over the subsets of {n1, n2} '
        '(getter forms None / single name / set); user None / plain / entity instance: 192 paths; entity, attribute and object targets',
    'roles / labels': 'one rule; required names, names on a, names on b range over the subsets of {n1, n2}: 128 / 128 paths',
    'permissions': 'two rules, permission text of each in {view, edit, create, delete, "view edit", "edit,delete"}, matched or not, '
        'rule 2 on (A) or (A,B): 288 paths; entity and object targets x the four can_* functions',
    'to_json_objects(_rest)': 'to_json([a]) / ([a], include=[A.b]) / ({"x": b}, include=[B.a_set]) / ([a2, b]); rule 1 (view): entities '
        '{A | B | A,B}, matched, excluded entity {none, A, B}; rule 2 (edit): entities {B | A,B}, matched, excluded {none, A, B}: 864 paths '
        '(thorough: 2304)',
    'schema': 'rule 1 as in attr_*, rule 2: entities {A | B | A,B}, always matched, excluded attribute {none, A.b, B.a_set}: 486 paths',
    'every harness': 'each question is asked twice in the session (second pass in reverse order) and, when two rules share a rule set, '
        'again in a fresh session with the rules re-declared so that the set iterates in the opposite order',
}


def classify(spec, cex):
    from checks import h_c34
    return h_c34.explain(spec['fn'], cex)


def run(tier, seed, only=None):
    if tier == 'thorough': os.environ['C34_TIER'] = 'thorough'       # read by checks/h_c34.py, also in the worker processes
    os.environ.pop('C34_MUTANT', None)                                # canary hook (development only) is never active here
    from checks import h_c34 as h
    from pony.orm import core
    rep = Report('C34', 'other',
                 'CrossHair over harnesses that declare a symbolic rule set through the public API (set_perms_for / perm / exclude), '
                 'open a db_session on a real mapped model and ask the real can_view/can_edit/can_create/can_delete (has_perm), '
                 'Database.to_json and the schema filter; asserted against a reference evaluation of the documented rule semantics '
                 'for entity, attribute and object targets, every question twice per session and under both iteration orders of '
                 'the rule sets.  Only "Confirmed over all paths" counts as holding.')
    rep.fn(core.has_perm, core.can_view, core.can_edit, core.can_create, core.can_delete, core.perm, core._split_names,
           core.pop_names_from_kwargs, core.AccessRule.__init__, core.AccessRule.exclude, core.get_user_groups, core.get_user_roles,
           core.get_object_labels, core.user_groups_getter, core.user_roles_getter, core.obj_labels_getter,
           core.Database.set_perms_for, core.Database.to_json, core.Database._get_schema_dict)
    T = 240 if tier == 'quick' else 900
    specs = [dict(module='checks.h_c34', fn=f, cond_timeout=T, path_timeout=T / 2, setup='setup') for f in h.HARNESSES]
    if only: specs = [s for s in specs if only in s['fn']]
    rep.bounds = dict(BOUNDS, tier=tier)
    rep.assumptions = [
        'the rule sets of A, A2, B (entity._access_rules_) are emptied and the thread-local group/role caches cleared at the start of every explored path; '
        'the getter registries hold exactly the four getters of the harness module',
        'all symbolic inputs are small selectors that are realised while the declarations are decoded; from then on the real code runs on concrete '
        'values. CrossHair\'s tracer is ON for the first pass of can_*/to_json/_get_schema_dict calls of the first rule order (and for the '
        'declarations in groups, roles, labels, permissions, object_userkinds) and OFF for scaffolding: db_session enter/exit, object creation, the repeated '
        'pass, the run under the reversed rule order, the reference evaluation (measured: 12-25 paths/s instead of 3-6)',
        'rule order: AccessRule objects are hashed by identity; the harness re-declares the same rules (keeping the old objects alive) until every two-rule set '
        'iterates in reverse order, and requires the same answers for both orders',
        'relationship attributes: `exact` uses the AND reading (both sides must be granted); `deny`/`grant` are the reading-independent bounds (module docstring of checks/h_c34.py)',
        'roles and labels are not consulted for entity and attribute targets (there is no object); a rule that asks for a role still grants the entity-level answer',
        'Database over the real SQLiteProvider with a fake pool (engine.env.mock_database); no SQL is needed: objects are created in the session and rolled back',
    ]
    rep.trusted = ['crosshair-tool 0.0.110', 'z3', 'reference evaluation (ref_entity / ref_object / side / ref_attr / schema_expected) and the model facts '
                   '(SUB, ATTR_ENT, REVERSE, HIDDEN) in checks/h_c34.py']
    ch.run_harnesses(rep, specs, classify)
    if not only:
        tie_declaration_errors(rep)
    return rep


def tie_declaration_errors(rep):
    """Concrete tie (NOT solver-quantified): declarations the API must refuse, and has_perm on a non-target."""
    from engine.core import Ob, HOLDS, CEX
    from checks import h_c34 as h
    from pony.orm import core
    h.setup()
    h.reset_rules()

    def refused(f, exc):
        try: f()
        except exc: return True
        except Exception: return False
        return False

    def excl_pk():
        with h.db.set_perms_for(h.A): core.perm('view').exclude(h.A.id)

    def excl_other():
        with h.db.set_perms_for(h.A): core.perm('view').exclude('A.x')

    def no_perm():
        with h.db.set_perms_for(h.A): core.perm()

    def bad_kw():
        with h.db.set_perms_for(h.A): core.perm('view', grp='g')

    def bad_name():
        with h.db.set_perms_for(h.A): core.perm('view', group='not an identifier!')

    def nested():
        with h.db.set_perms_for(h.A):
            with h.db.set_perms_for(h.B): pass

    def no_entity():
        with h.db.set_perms_for(): pass

    def target():
        with core.db_session: core.has_perm(None, 'view', 'A')
    cases = [('exclude(primary key) is refused', excl_pk, TypeError), ('exclude(non-attribute) is refused', excl_other, TypeError),
             ('perm() without a permission is refused', no_perm, TypeError), ('perm(unknown keyword) is refused', bad_kw, TypeError),
             ('group name that is not an identifier is refused', bad_name, TypeError), ('nested set_perms_for is refused', nested, core.OrmError),
             ('set_perms_for() without entities is refused', no_entity, TypeError), ('perm() outside set_perms_for is refused', lambda: core.perm('view'), core.OrmError),
             ('has_perm on a non-target is refused', target, TypeError)]
    for name, f, exc in cases:
        good = refused(f, exc)
        core.local.perms_context = None
        rep.add(Ob('tie: ' + name, 'concrete-tie', HOLDS if good else CEX, cex=None if good else {'case': name}, reproduced=True,
                   detail='' if good else 'not refused with %s' % exc.__name__))
    h.reset_rules()
