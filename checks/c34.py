"""C34 - permission checks follow the declared access rules (CrossHair over the real has_perm / can_* / AccessRule /
get_user_groups / get_user_roles / get_object_labels / Database.to_json on a real two-entity model with a subclass)."""
import os
from engine.core import Report
from engine import ch


def classify(spec, cex):
    from checks import h_c34
    return h_c34.explain(spec['fn'], cex)


def run(tier, seed, only=None):
    if tier == 'thorough': os.environ['C34_TIER'] = 'thorough'       # read by checks/h_c34.py in the worker processes
    from checks import h_c34 as h
    from pony.orm import core
    rep = Report('C34', 'other',
                 'CrossHair over harnesses that declare a symbolic rule set through the public API (set_perms_for / perm / exclude), '
                 'open a db_session on the real model and ask the real can_view/can_edit/can_create/can_delete, Database.to_json and '
                 'the schema filter; asserted against a reference evaluation of the documented rule semantics, for entity, attribute '
                 'and object targets, twice per session and under both iteration orders of the rule sets.')
    rep.fn(core.has_perm, core.can_view, core.can_edit, core.can_create, core.can_delete, core.perm, core.AccessRule.__init__,
           core.AccessRule.exclude, core.get_user_groups, core.get_user_roles, core.get_object_labels, core.user_groups_getter,
           core.user_roles_getter, core.obj_labels_getter, core.Database.set_perms_for, core.Database.to_json, core.Database._get_schema_dict)
    T = 150 if tier == 'quick' else 900
    specs = [dict(module='checks.h_c34', fn=f, cond_timeout=T, path_timeout=T / 2, setup='setup') for f in h.HARNESSES]
    if only: specs = [s for s in specs if only in s['fn']]
    rep.bounds = {}
    rep.assumptions = []
    rep.trusted = ['crosshair-tool 0.0.110', 'z3', 'reference evaluation ref_entity/ref_object/ref_attr/schema_expected in checks/h_c34.py']
    ch.run_harnesses(rep, specs, classify)
    return rep
