"""Canary mutations for C34 (never active in ./check: selected by the environment variable C34_MUTANT, which only the
development runs set).  Each mutant re-reads the CURRENT source of the real pony function, rewrites one piece of it and
installs the result in pony.orm.core for this process only; /repo is never touched.  `repaired_*` are not canaries but
candidate repairs, used to measure how long the strict harnesses take once they have nothing to find.
"""
import inspect, textwrap

ATTR_BRANCH_OLD_START = "    elif isinstance(x, Attribute):\n        attr = x\n"
ATTR_BRANCH_OLD_END = "    else:\n        obj = x\n"
ATTR_BRANCH_AND = '''    elif isinstance(x, Attribute):
        def granted(attr):
            for rule in attr.entity._access_rules_.get(perm, ()):
                if user_groups.issuperset(rule.groups) and attr.entity not in rule.entities_to_exclude \\
                        and attr not in rule.attrs_to_exclude: return True
            return False
        result = granted(x) and (not x.reverse or granted(x.reverse))
'''

MUTANTS = {
    # name: (function name in pony.orm.core, [(old, new), ...])
    'repaired_and': ('has_perm', [('ATTR_BRANCH', ATTR_BRANCH_AND), ('if x in rule.entities_to_exclude: continue', 'if entity in rule.entities_to_exclude: continue')]),
    'repaired_oneword': ('has_perm', [('for reverse_rule in access_rules:', 'for reverse_rule in reverse_rules:')]),
    'repaired_or': ('has_perm', [('for reverse_rule in access_rules:', 'for reverse_rule in reverse_rules:'), ('if not reverse_rules: return False', 'if not reverse_rules: continue'),
                                 ('if x in rule.entities_to_exclude: continue', 'if entity in rule.entities_to_exclude: continue')]),
    'repaired_object': ('has_perm', [('if x in rule.entities_to_exclude: continue', 'if entity in rule.entities_to_exclude: continue')]),
    # the next three are meant to be stacked on repaired_and ("repaired_and+r_...")
    'r_attr_exclusion_dropped': ('has_perm', [('                        and attr not in rule.attrs_to_exclude: return True', '                        : return True')]),
    'r_attr_entity_exclusion_dropped': ('has_perm', [('and attr.entity not in rule.entities_to_exclude \\\n', '\\\n')]),
    'r_attr_reverse_ignored': ('has_perm', [('result = granted(x) and (not x.reverse or granted(x.reverse))', 'result = granted(x)')]),
    'r_attr_either_side': ('has_perm', [('result = granted(x) and (not x.reverse or granted(x.reverse))', 'result = granted(x) or bool(x.reverse and granted(x.reverse))')]),
    'entity_exclusion_dropped': ('has_perm', [('if user_groups.issuperset(rule.groups) and entity not in rule.entities_to_exclude:', 'if user_groups.issuperset(rule.groups):')]),
    'groups_any_instead_of_all': ('has_perm', [('if user_groups.issuperset(rule.groups) and entity not in rule.entities_to_exclude:', "if (user_groups & rule.groups) and entity not in rule.entities_to_exclude:")]),
    'object_roles_dropped': ('has_perm', [('            elif not user_roles.issuperset(rule.roles): pass\n', '')]),
    'object_labels_swapped': ('has_perm', [('elif not obj_labels.issuperset(rule.labels): pass', 'elif not rule.labels.issuperset(obj_labels): pass')]),
    'object_groups_dropped': ('has_perm', [('            elif not user_groups.issuperset(rule.groups): pass\n', '            elif False: pass\n')]),
    'attr_exclusion_dropped': ('has_perm', [('                                                   and attr not in rule.attrs_to_exclude:', '                                                   and True:')]),
    'hidden_ignored': ('has_perm', [('if x.hidden: return False', 'pass')]),
    'no_rules_grants': ('has_perm', [('if not access_rules: return False', 'if not access_rules: return True')]),
    'first_rule_only': ('has_perm', [("""            if user_groups.issuperset(rule.groups) and entity not in rule.entities_to_exclude:
                result = True
                break""", """            if user_groups.issuperset(rule.groups) and entity not in rule.entities_to_exclude:
                result = True
            break""")]),
    'cache_by_entity': ('has_perm', [('result = perm_cache.get(x)', 'result = perm_cache.get(entity)'), ('perm_cache[perm] = result', 'perm_cache[entity] = result')]),
    'cache_by_perm': ('has_perm', [('result = perm_cache.get(x)', 'result = perm_cache.get(perm)')]),
    'schema_attr_unchecked': ('Database._get_schema_dict', [('                if not can_view(user, attr): continue\n', '')]),
    'schema_entity_unchecked': ('Database._get_schema_dict', [('            if not can_view(user, entity): continue\n', '')]),
    'view_without_edit': ('can_view', [("return has_perm(user, 'view', x) or has_perm(user, 'edit', x)", "return has_perm(user, 'view', x)")]),
    'edit_is_view': ('can_edit', [("return has_perm(user, 'edit', x)", "return has_perm(user, 'view', x)")]),
    'delete_is_edit': ('can_delete', [("return has_perm(user, 'delete', x)", "return has_perm(user, 'edit', x)")]),
    'none_user_without_anybody': ('get_user_groups', [('if user is None: return anybody_frozenset', 'if user is None: return frozenset()')]),
    'groups_getter_class_ignored': ('get_user_groups', [('if cls is None or isinstance(user, cls):', 'if True:')]),
    'groups_single_name_split': ('get_user_groups', [('                result.add(groups)\n', '                result.update(groups)\n')]),
    'self_role_dropped': ('get_user_roles', [("if user is obj: result.add('self')", 'pass')]),
    'roles_cached_per_user_only': ('get_user_roles', [('result = roles_cache.get(obj)', "result = roles_cache.get('k')"), ('roles_cache[obj] = result', "roles_cache['k'] = result")]),
    'labels_cached_per_class': ('get_object_labels', [('result = obj_labels_cache.get(obj)', 'result = obj_labels_cache.get(obj.__class__.__name__[0])'),
                                                       ('obj_labels_cache[obj] = result', 'obj_labels_cache[obj.__class__.__name__[0]] = result')]),
    'exclude_without_subclasses': ('AccessRule.exclude', [('                rule.entities_to_exclude.update(entity._subclasses_)\n', '')]),
    'perms_for_without_subclasses': ('Database.set_perms_for', [('            entity_set.update(entity._subclasses_)\n', '')]),
    'rule_only_first_permission': ('AccessRule.__init__', [('for perm in rule.permissions:', 'for perm in sorted(rule.permissions)[:1]:')]),
    'to_json_included_objects_unchecked': ('Database.to_json', [("""                if not can_view(user, obj):
                    user_has_no_rights_to_see(obj)
                d = objects.setdefault""", """                d = objects.setdefault""")]),
    'schema_reverse_unchecked': ('Database._get_schema_dict', [('                    if not can_view(user, attr.reverse): continue\n', '')]),
}


def apply(core, names):
    for name in names.split('+'): apply_one(core, name)


def apply_one(core, name):
    fname, edits = MUTANTS[name]
    owner, attr = (core, fname) if '.' not in fname else (getattr(core, fname.split('.')[0]), fname.split('.')[1])
    fn = getattr(owner, attr)
    raw = inspect.unwrap(fn) if not hasattr(fn, '__wrapped__') else fn.__wrapped__
    src = inspect.getsource(raw)
    for old, new in edits:
        if old == 'ATTR_BRANCH':
            i, j = src.index(ATTR_BRANCH_OLD_START), src.index(ATTR_BRANCH_OLD_END)
            src = src[:i] + new + src[j:]
            continue
        if old not in src: raise RuntimeError('mutant %s: text not found in %s: %r' % (name, fname, old))
        src = src.replace(old, new)
    src = textwrap.dedent(src)
    ns = {}
    import linecache
    filename = '<mutant %s>' % name
    linecache.cache[filename] = (len(src), None, src.splitlines(True), filename)     # so that mutants can be stacked
    exec(compile(src, filename, 'exec'), core.__dict__, ns)
    new_fn = ns[attr]
    setattr(owner, attr, new_fn)
    if owner is core:
        import pony.orm
        if hasattr(pony.orm, attr): setattr(pony.orm, attr, new_fn)


def main(argv):
    """usage: cd /verif && .venv/bin/python -m checks.h_c34_canary MUTANT[+MUTANT...] [HARNESS-SUBSTRING,...] [TIMEOUT]
    runs the selected C34 harnesses (default: all) with the mutant installed in every worker process"""
    import os, time
    os.environ['C34_MUTANT'] = argv[0]
    from engine import ch
    from engine.core import Report
    from checks import c34, h_c34
    sel = argv[1].split(',') if len(argv) > 1 else ['']
    T = float(argv[2]) if len(argv) > 2 else 150
    rep = Report('C34', 'other', 'canary ' + argv[0])
    specs = [dict(module='checks.h_c34', fn=f, cond_timeout=T, path_timeout=T / 2, setup='setup') for f in h_c34.HARNESSES if any(s in f for s in sel)]
    t = time.time()
    ch.run_harnesses(rep, specs, c34.classify)
    for ob in rep.obs:
        print('%-28s %-12s %6.1fs key=%s cex=%s %s' % (ob.name.split('.')[-1], ob.verdict, ob.time_s, ob.key, ob.cex, '' if ob.verdict != 'inconclusive' else ob.detail[:200]))
    for e in rep.harness_errors: print('HARNESS-ERROR', e[-400:])
    print('wall %.1fs' % (time.time() - t))


if __name__ == '__main__':
    import sys
    main(sys.argv[1:])
