"""CrossHair harnesses for C24, window arithmetic: a result list is abstracted by its length n >= 0 and every slicing
operation by the window [lo, hi) it denotes; the real combine_limit_and_offset / Query.__getitem__ / limit / page / fetch
run on symbolic bounds and must denote Python's window for every n."""
from typing import Optional
from engine.ch import ok
from pony.orm import core
from pony.orm import sqltranslation as T
from engine.rewrite import defang

defang((T, 'combine_limit_and_offset'))


def window(n, limit, offset):
    """rows [lo, hi) of a list of length n selected by LIMIT limit OFFSET offset (None = absent)"""
    lo = min(offset or 0, n)
    hi = n if limit is None else min(lo + limit, n)
    return lo, max(hi, lo)


def py_slice(lo, hi, a, b):
    """window of R[a:b] where R is the window [lo, hi) of the base list; a, b non-negative or None"""
    ln = hi - lo
    s = 0 if a is None else min(a, ln)
    e = ln if b is None else min(b, ln)
    return lo + s, lo + max(e, s)


def same_window(w1, w2):
    # empty windows are equal wherever they are
    return w1 == w2 or (w1[0] >= w1[1] and w2[0] >= w2[1])


def combine(n: int, l1: Optional[int], o1: Optional[int], l2: Optional[int], o2: Optional[int]) -> bool:
    """
    pre: n >= 0
    pre: l1 is None or l1 >= 0
    pre: o1 is None or o1 >= 0
    pre: l2 is None or l2 >= 0
    pre: o2 is None or o2 >= 0
    post: _
    """
    # inner query limited by (l1, o1), outer slice (l2, o2) applied to its result
    inner = window(n, l1, o1)
    a = o2 or 0
    b = None if l2 is None else a + l2
    expected = py_slice(inner[0], inner[1], a, b)
    limit, offset = T.combine_limit_and_offset(l1, o1, l2, o2)
    if limit is not None and limit < 0: return ok(False)
    if offset is not None and offset < 0: return ok(False)
    return ok(same_window(window(n, limit, offset), expected))


class _Q(object):
    """duck-typed Query: records what the real method passes to _fetch"""
    def __init__(self): self.calls = []
    def _fetch(self, limit=None, offset=None, lazy=False):
        self.calls.append((limit, offset))
        return self


def getitem(n: int, a: Optional[int], b: Optional[int]) -> bool:
    """
    pre: n >= 0
    pre: a is None or a >= 0
    pre: b is None or b >= 0
    post: _
    """
    q = _Q()
    core.Query.__getitem__(q, slice(a, b))
    if len(q.calls) != 1: return ok(False)
    limit, offset = q.calls[0]
    if limit is not None and limit < 0: return ok(False)
    return ok(same_window(window(n, limit, offset), py_slice(0, n, a, b)))


def getitem_rejects(a: int, b: Optional[int], step: Optional[int]) -> bool:
    """
    pre: a < 0 or (step is not None and step != 1)
    post: _
    """
    # negative start / a step are documented as rejected: must raise, never fetch something else
    q = _Q()
    try:
        core.Query.__getitem__(q, slice(a, b, step))
    except TypeError:
        return ok(not q.calls)
    return ok(False)


def limit_method(n: int, l: Optional[int], o: Optional[int]) -> bool:
    """
    pre: n >= 0
    pre: l is None or l >= 0
    pre: o is None or o >= 0
    post: _
    """
    q = _Q()
    f = core.Query.limit
    f = getattr(f, '__wrapped__', f)
    f(q, l, o)
    if len(q.calls) != 1: return ok(False)
    a = o or 0
    return ok(same_window(window(n, *q.calls[0]), py_slice(0, n, a, None if l is None else a + l)))


def page_method(n: int, p: int, s: int) -> bool:
    """
    pre: n >= 0
    pre: p >= 1
    pre: s >= 0
    post: _
    """
    q = _Q()
    f = core.Query.page
    f = getattr(f, '__wrapped__', f)
    f(q, p, s)
    if len(q.calls) != 1: return ok(False)
    return ok(same_window(window(n, *q.calls[0]), py_slice(0, n, (p - 1) * s, p * s)))


def fetch_method(n: int, l: Optional[int], o: Optional[int]) -> bool:
    """
    pre: n >= 0
    pre: l is None or l >= 0
    pre: o is None or o >= 0
    post: _
    """
    q = _Q()
    f = core.Query.fetch
    f = getattr(f, '__wrapped__', f)
    f(q, l, o)
    if len(q.calls) != 1: return ok(False)
    a = o or 0
    return ok(same_window(window(n, *q.calls[0]), py_slice(0, n, a, None if l is None else a + l)))


class _Q2(object):
    """duck-typed Query for get()/exists(): __getitem__ is the REAL one, the fetched prefix is cut from a list of n markers"""
    def __init__(self, n): self.n = n; self.calls = []
    def _fetch(self, limit=None, offset=None, lazy=False):
        self.calls.append((limit, offset))
        lo, hi = window(self.n, limit, offset)
        return list(range(lo, hi))
    def __getitem__(self, key):
        return core.Query.__getitem__(self, key)


def exists_get(n: int) -> bool:
    """
    pre: 0 <= n <= 4
    post: _
    """
    q = _Q2(n)
    f = core.Query.exists; f = getattr(f, '__wrapped__', f)
    if f(q) != (n > 0): return ok(False)
    g = core.Query.get; g = getattr(g, '__wrapped__', g)
    try:
        r = g(q)
    except core.MultipleObjectsFoundError:
        return ok(n > 1)
    return ok((n == 0 and r is None) or (n == 1 and r == 0))
