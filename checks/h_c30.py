"""CrossHair harnesses for C30 (raw SQL parameter substitution) and the raw-SQL part of C05 (cache transparency).

Symbolic: the SQL text (bounded length over a small alphabet of the characters the adapter
distinguishes: `$`, `%`, `;`, `.`, an identifier character, a blank) and the parameter style.
Reference: a direct re-statement of the documented rule (ref_adapt below).
"""
from engine.ch import ok
from pony.orm import core
from pony.orm import ormtypes
from pony.utils import utils as pu

STYLES = ('qmark', 'format', 'numeric', 'named', 'pyformat')
ALPHA = "$%a; ."
import os
N_SINGLE = int(os.environ.get("C30_N", "3"))
N_TMPL = int(os.environ.get("C30_NT", "1"))


class Malformed(Exception):
    pass


def ref_scan(sql):
    """Reference scanner: list of ('text', s) / ('expr', source) items for the documented $-syntax,
    restricted to what can be spelled in ALPHA plus parentheses/brackets: identifier, then any number
    of `.identifier` (blanks allowed around the dot as the real scanner accepts them), a trailing `;`
    ends the expression and is swallowed."""
    items = []
    i, n = 0, len(sql)
    buf = []
    while i < n:
        c = sql[i]
        if c != '$':
            buf.append(c); i += 1; continue
        if i + 1 >= n:
            raise Malformed('lone $ at end')
        if sql[i + 1] == '$':
            buf.append('$'); i += 2; continue
        j = i + 1
        if not (sql[j].isalpha() or sql[j] == '_'):
            raise Malformed('no expression after $')
        while j < n and (sql[j].isalnum() or sql[j] == '_'): j += 1
        while True:
            k = j
            while k < n and sql[k] in ' \t\n': k += 1
            if k < n and sql[k] == ';':
                end_expr = k; j = k + 1
                break
            if k < n and sql[k] == '.':
                m = k + 1
                while m < n and sql[m] in ' \t\n': m += 1
                if m < n and (sql[m].isalpha() or sql[m] == '_'):
                    m += 1
                    while m < n and (sql[m].isalnum() or sql[m] == '_'): m += 1
                    j = m
                    continue
            end_expr = j
            break
        if buf: items.append(('text', ''.join(buf))); buf = []
        items.append(('expr', sql[i + 1:end_expr]))
        i = j
    if buf: items.append(('text', ''.join(buf)))
    return items


def ref_adapt(sql, style):
    """(adapted text, list of expression sources) per the documented rule."""
    items = ref_scan(sql)
    exprs = [s for k, s in items if k == 'expr']
    out = []
    n = 0
    for k, s in items:
        if k == 'text':
            if exprs and style in ('format', 'pyformat'): s = s.replace('%', '%%')
            out.append(s)
        else:
            n += 1
            out.append({'qmark': '?', 'format': '%s', 'numeric': ':%d' % n, 'named': ':p%d' % n,
                        'pyformat': '%%(p%d)s' % n}[style])
    return ''.join(out), exprs


class Probe(object):
    """value of the identifier `a` in the evaluation scope; attribute chains return tagged strings"""
    def __init__(self, path): self.path = path
    def __getattr__(self, name):
        if name.startswith('__'): raise AttributeError(name)
        return Probe(self.path + '.' + name)
    def __eq__(self, other): return isinstance(other, Probe) and other.path == self.path
    def __hash__(self): return hash(self.path)
    def __repr__(self): return 'Probe(%r)' % self.path


def scope_for(exprs):
    names = set()
    for e in exprs:
        head = e.replace(' ', '').split('.')[0]
        names.add(head)
    return {nm: Probe(nm) for nm in names}


def expected_values(exprs):
    return [Probe('.'.join(p.strip() for p in e.split('.'))) for e in exprs]


def _check_adapt(sql, style):
    try:
        exp_text, exprs = ref_adapt(sql, style)
    except Malformed:
        exp_text = None
    try:
        text, code = core.adapt_sql(sql, style)
    except Exception:
        # an error instead of a substitution is acceptable only for malformed input
        return exp_text is None or None
    if exp_text is None:
        return False            # malformed text silently accepted
    if text != exp_text:
        return False
    args = eval(code, scope_for(exprs), {})
    want = expected_values(exprs)
    if not exprs:
        return args is None
    if style in ('named', 'pyformat'):
        return args == {('p%d' % (i + 1)): v for i, v in enumerate(want)}
    return args == tuple(want)


def _history_body(t1, t2, st, p1, p2):
    sql1 = ('$a ' if p1 else '') + t1
    sql2 = ('$a ' if p2 else '') + t2
    scope = {'a': 1, 'aa': 2, 'aaa': 3}
    core.adapted_sql_cache.clear()
    try: core.adapt_sql(sql1, st)
    except Exception: pass
    try: warm = core.adapt_sql(sql2, st)
    except Exception: warm = 'error'
    core.adapted_sql_cache.clear()
    try: cold = core.adapt_sql(sql2, st)
    except Exception: cold = 'error'
    if warm == 'error' or cold == 'error':
        return warm == cold
    return warm[0] == cold[0] and eval(warm[1], dict(scope)) == eval(cold[1], dict(scope))


def adapt_history_styles(t: str, style1: int, style2: int, p: bool) -> bool:
    """
    pre: len(t) <= 2
    pre: all(c in "$%" for c in t)
    pre: 0 <= style1 < 5 and 0 <= style2 < 5
    post: _
    """
    # the same text adapted for two providers with different parameter styles in one process
    sql = ('$a ' if p else '') + t
    core.adapted_sql_cache.clear()
    try: core.adapt_sql(sql, STYLES[style1])
    except Exception: pass
    try: warm = core.adapt_sql(sql, STYLES[style2])
    except Exception: warm = 'error'
    core.adapted_sql_cache.clear()
    try: cold = core.adapt_sql(sql, STYLES[style2])
    except Exception: cold = 'error'
    if warm == 'error' or cold == 'error':
        return ok(warm == cold)
    return ok(warm[0] == cold[0] and eval(warm[1], {'a': 1, 'aa': 2}) == eval(cold[1], {'a': 1, 'aa': 2}))


FORMS = [('f(1, 2)', 'F12'), ("d['k)']", 'DK'), ('a.b(")")[0]', 'AB0'), ('f((1, (2)))', 'F12b'), ('x[a.b]', 'XAB'), ('a.b.c', 'ABC')]


def _template_body(prefix, suffix, style, tmpl):
    """one $-expression of a form the small alphabet cannot spell (call, subscript, quoted bracket, nested parentheses,
    attribute chain) between symbolic literal text; prefix/suffix contain no `$` and the suffix cannot continue the expression"""
    expr, tag = FORMS[tmpl]
    style_s = STYLES[style]
    core.adapted_sql_cache.clear()
    sql = prefix + '$' + expr + suffix
    try:
        text, code = core.adapt_sql(sql, style_s)
    except Exception:
        return False
    def lit(s):
        return s.replace('%', '%%') if style_s in ('format', 'pyformat') else s
    ph = {'qmark': '?', 'format': '%s', 'numeric': ':1', 'named': ':p1', 'pyformat': '%(p1)s'}[style_s]
    if text != lit(prefix) + ph + lit(suffix):
        return False
    class A(object):
        class b(object):
            c = 'ABC'
    class NS(object):
        b = staticmethod(lambda s: ['AB0'])
    scope = {'f': lambda *a: 'F12' if a == (1, 2) else 'F12b', 'd': {'k)': 'DK'}, 'a': NS, 'x': {NS.b: 'XAB'}}
    if tmpl == 5: scope['a'] = A
    if tmpl == 4:
        scope['a'] = A; scope['x'] = {A.b: 'XAB'}
    args = eval(code, scope, {})
    val = args['p1'] if isinstance(args, dict) else args[0]
    return val == tag and len(args) == 1


def rawsql_single(sql: str) -> bool:
    """
    pre: 1 <= len(sql) <= N_SINGLE
    pre: all(c in "$a; ." for c in sql)
    post: _
    """
    ormtypes.raw_sql_cache.clear()
    try:
        items = ref_scan(sql)
    except Malformed:
        items = None
    try:
        got_items, codes = ormtypes.parse_raw_sql(sql)
    except Exception:
        return ok(items is None)
    if items is None:
        return ok(False)
    # the real parser may split text differently; compare the flattened structure
    flat = []
    for it in got_items:
        if isinstance(it, str):
            if it:
                if flat and flat[-1][0] == 'text': flat[-1] = ('text', flat[-1][1] + it)
                else: flat.append(('text', it))
        else:
            flat.append(('expr', it[0]))
    return ok(flat == items and len(codes) == sum(1 for k, _ in items if k == 'expr'))


def rawsql_history(sql1: str, sql2: str) -> bool:
    """
    pre: 1 <= len(sql1) <= 2 and 1 <= len(sql2) <= 2
    pre: all(c in "$a;" for c in sql1) and all(c in "$a;" for c in sql2)
    post: _
    """
    def norm(r):
        return tuple(it if isinstance(it, str) else it[0] for it in r[0]), len(r[1])
    ormtypes.raw_sql_cache.clear()
    try: ormtypes.parse_raw_sql(sql1)
    except Exception: pass
    try: warm = norm(ormtypes.parse_raw_sql(sql2))
    except Exception: warm = 'error'
    ormtypes.raw_sql_cache.clear()
    try: cold = norm(ormtypes.parse_raw_sql(sql2))
    except Exception: cold = 'error'
    return ok(warm == cold)


MULTI_NAMES = ('a', 'aa', 'a.b', 'c')
N_MULTI = 4 if os.environ.get('C30_N') == '4' else 3


def _pick_name(i):
    return MULTI_NAMES[0] if i == 0 else MULTI_NAMES[1] if i == 1 else MULTI_NAMES[2] if i == 2 else MULTI_NAMES[3]


def adapt_multi(style: int, n: int, i0: int, i1: int, i2: int, i3: int) -> bool:
    """statements with up to four $-expressions drawn from a pool with repeats and common prefixes: every occurrence is bound,
    in order, to the value of ITS expression, under every parameter style

    pre: 0 <= style < 5 and 1 <= n <= N_MULTI
    pre: 0 <= i0 < 4 and 0 <= i1 < 4 and 0 <= i2 < 4 and 0 <= i3 < 4
    post: _
    """
    st = STYLES[0] if style == 0 else STYLES[1] if style == 1 else STYLES[2] if style == 2 else STYLES[3] if style == 3 else STYLES[4]
    names = [_pick_name(i0), _pick_name(i1), _pick_name(i2), _pick_name(i3)][:1 if n == 1 else 2 if n == 2 else 3 if n == 3 else 4]
    sql = 'select ' + ', '.join('$' + nm for nm in names) + (" where t like 'x%'" if names[0] == 'aa' else '') + ' -- $$end'
    from crosshair.tracers import NoTracing
    with NoTracing():
        core.adapted_sql_cache.clear()
        r = _check_adapt(sql, st)
    return ok(r is True)


_SCOPE_DB = []
zz = 111                      # module-level name seen by raw SQL run without explicit namespaces


def _scope_db():
    if not _SCOPE_DB:
        from pony.orm import Database, Required
        d = Database()
        class Thing(d.Entity):
            v = Required(int)
        d.bind('sqlite', ':memory:'); d.generate_mapping(create_tables=True)
        _SCOPE_DB.append(d)
    return _SCOPE_DB[0]


def raw_scope(api: int, mode: int, same: bool) -> bool:
    """which namespace a $-expression of raw SQL is evaluated in: the caller's frame when no dictionary is given (local before
    module-level name), otherwise ONLY the dictionaries given (a local variable of the caller must not shadow them).
    api: 0 db.select, 1 db.get, 2 db.exists, 3 db.execute, 4 Entity.select_by_sql, 5 Entity.get_by_sql;
    mode: 0 no namespaces, 1 globals only, 2 globals and locals, 3 no namespaces and no local of that name

    pre: 0 <= api <= 5 and 0 <= mode <= 3
    post: _
    """
    from pony.orm import db_session, rollback
    api = 0 if api == 0 else 1 if api == 1 else 2 if api == 2 else 3 if api == 3 else 4 if api == 4 else 5
    mode = 0 if mode == 0 else 1 if mode == 1 else 2 if mode == 2 else 3
    gv, lv = 5, (5 if same else 9)            # value in the dictionaries / value of the caller's local
    from crosshair.tracers import NoTracing
    with NoTracing():
        d = _scope_db()
        T = d.Thing

        BY = 'select id, v from Thing where v = $zz'

        def with_local():
            zz = lv                                   # a local of the caller with the same name as the $-expression
            g1, g2, l2 = {'zz': gv}, {'zz': gv + 1}, {'zz': gv}
            if api == 0: return (d.select('select $zz') if mode == 0 else d.select('select $zz', g1) if mode == 1 else d.select('select $zz', g2, l2))[0]
            if api == 1: return d.get('select $zz') if mode == 0 else d.get('select $zz', g1) if mode == 1 else d.get('select $zz', g2, l2)
            if api == 2:
                ex = d.exists('select 1 from Thing where v = $zz') if mode == 0 else d.exists('select 1 from Thing where v = $zz', g1) if mode == 1 else d.exists('select 1 from Thing where v = $zz', g2, l2)
                return (lv if mode == 0 else gv) if ex else None
            if api == 3: return (d.execute('select $zz') if mode == 0 else d.execute('select $zz', g1) if mode == 1 else d.execute('select $zz', g2, l2)).fetchone()[0]
            if api == 4:
                r = T.select_by_sql(BY) if mode == 0 else T.select_by_sql(BY, g1) if mode == 1 else T.select_by_sql(BY, g2, l2)
                return r[0].v if r else None
            r = T.get_by_sql(BY) if mode == 0 else T.get_by_sql(BY, g1) if mode == 1 else T.get_by_sql(BY, g2, l2)
            return r.v if r is not None else None

        def without_local():
            if api == 0: return d.select('select $zz')[0]
            if api == 1: return d.get('select $zz')
            if api == 2: return 111 if d.exists('select 1 from Thing where v = $zz') else None
            if api == 3: return d.execute('select $zz').fetchone()[0]
            if api == 4:
                r = T.select_by_sql(BY)
                return r[0].v if r else None
            r = T.get_by_sql(BY)
            return r.v if r is not None else None

        with db_session:
            try:
                d.execute('delete from Thing')
                want = lv if mode == 0 else 111 if mode == 3 else gv
                T(v=want)                              # the only row: lookups by value find it only with the right binding
                d.execute('select 1')                 # (flushes the new rows)
                got = without_local() if mode == 3 else with_local()
            finally:
                rollback()
    return ok(got == want)


def adapt_history_keys(t1: str, t2: str) -> bool:
    """
    pre: len(t1) <= 2 and len(t2) <= 2
    pre: all(c in " aA" for c in t1) and all(c in " aA" for c in t2)
    post: _
    """
    # cache-key discipline: two statements that differ only in blanks or letter case are different statements
    return ok(_history_body(t1, t2, 'qmark', False, False))


def rawsql_history_keys(sql1: str, sql2: str) -> bool:
    """
    pre: 1 <= len(sql1) <= 2 and 1 <= len(sql2) <= 2
    pre: all(c in " aA" for c in sql1) and all(c in " aA" for c in sql2)
    post: _
    """
    def norm(r):
        return tuple(it if isinstance(it, str) else it[0] for it in r[0]), len(r[1])
    ormtypes.raw_sql_cache.clear()
    try: ormtypes.parse_raw_sql(sql1)
    except Exception: pass
    try: warm = norm(ormtypes.parse_raw_sql(sql2))
    except Exception: warm = 'error'
    ormtypes.raw_sql_cache.clear()
    try: cold = norm(ormtypes.parse_raw_sql(sql2))
    except Exception: cold = 'error'
    return ok(warm == cold)


# one harness per parameter style (explored in parallel worker processes)

def adapt_single_qmark(sql: str) -> bool:
    """
    pre: len(sql) <= N_SINGLE
    pre: all(c in "$%a; ." for c in sql)
    post: _
    """
    core.adapted_sql_cache.clear()
    r = _check_adapt(sql, 'qmark')
    if r is None: return ok(True)
    return ok(r)



def adapt_single_format(sql: str) -> bool:
    """
    pre: len(sql) <= N_SINGLE
    pre: all(c in "$%a; ." for c in sql)
    post: _
    """
    core.adapted_sql_cache.clear()
    r = _check_adapt(sql, 'format')
    if r is None: return ok(True)
    return ok(r)



def adapt_single_numeric(sql: str) -> bool:
    """
    pre: len(sql) <= N_SINGLE
    pre: all(c in "$%a; ." for c in sql)
    post: _
    """
    core.adapted_sql_cache.clear()
    r = _check_adapt(sql, 'numeric')
    if r is None: return ok(True)
    return ok(r)



def adapt_single_named(sql: str) -> bool:
    """
    pre: len(sql) <= N_SINGLE
    pre: all(c in "$%a; ." for c in sql)
    post: _
    """
    core.adapted_sql_cache.clear()
    r = _check_adapt(sql, 'named')
    if r is None: return ok(True)
    return ok(r)



def adapt_single_pyformat(sql: str) -> bool:
    """
    pre: len(sql) <= N_SINGLE
    pre: all(c in "$%a; ." for c in sql)
    post: _
    """
    core.adapted_sql_cache.clear()
    r = _check_adapt(sql, 'pyformat')
    if r is None: return ok(True)
    return ok(r)




def adapt_history_qmark(t1: str, t2: str, p1: bool, p2: bool) -> bool:
    """
    pre: len(t1) <= 2 and len(t2) <= 2
    pre: all(c in "$%" for c in t1) and all(c in "$%" for c in t2)
    post: _
    """
    return ok(_history_body(t1, t2, 'qmark', p1, p2))


def adapt_history_format(t1: str, t2: str, p1: bool, p2: bool) -> bool:
    """
    pre: len(t1) <= 2 and len(t2) <= 2
    pre: all(c in "$%" for c in t1) and all(c in "$%" for c in t2)
    post: _
    """
    return ok(_history_body(t1, t2, 'format', p1, p2))


def adapt_history_numeric(t1: str, t2: str, p1: bool, p2: bool) -> bool:
    """
    pre: len(t1) <= 2 and len(t2) <= 2
    pre: all(c in "$%" for c in t1) and all(c in "$%" for c in t2)
    post: _
    """
    return ok(_history_body(t1, t2, 'numeric', p1, p2))


def adapt_history_named(t1: str, t2: str, p1: bool, p2: bool) -> bool:
    """
    pre: len(t1) <= 2 and len(t2) <= 2
    pre: all(c in "$%" for c in t1) and all(c in "$%" for c in t2)
    post: _
    """
    return ok(_history_body(t1, t2, 'named', p1, p2))


def adapt_history_pyformat(t1: str, t2: str, p1: bool, p2: bool) -> bool:
    """
    pre: len(t1) <= 2 and len(t2) <= 2
    pre: all(c in "$%" for c in t1) and all(c in "$%" for c in t2)
    post: _
    """
    return ok(_history_body(t1, t2, 'pyformat', p1, p2))


# ---------------------------------------------------------------------------------------------------------------------
# raw_sql() fragments spliced into declarative queries: the generated SQL for a fragment must not depend on fragments
# translated earlier at the same program location (translator cache keyed by the fragment's type)
_qdb = None


def _query_db():
    global _qdb
    if _qdb is None:
        from engine import env as E0
        from pony.orm import Required
        _qdb = E0.mock_database('sqlite')
        class RP(_qdb.Entity):
            a = Required(int)
        _qdb.generate_mapping(check_tables=False, create_tables=False)
        core.time = lambda: 0.0          # QueryStat timestamps: keep the run deterministic under CrossHair
    return _qdb


def _clear_query_caches(db):
    from pony.orm import decompiling
    db._translator_cache.clear(); db._constructed_sql_cache.clear()
    from pony.orm import asttranslation
    ormtypes.raw_sql_cache.clear(); core.string2ast_cache.clear(); asttranslation.extractors_cache.clear()


def _frag_sql(db, text, v):
    from pony.orm import raw_sql, select
    x = v
    q = select(p for p in db.RP if raw_sql(text))        # ONE program location for every call
    return q.get_sql()


def fragment_history_ok(f1, f2):
    """plain (untraced) two-step history: translate fragment f1, then f2 at the same program location; compare with a cold f2.
    (Under CrossHair the whole translator does not finish inside the budget, so this family is enumerated concretely.)"""
    from pony.orm import db_session, rollback
    db = _query_db()
    def run(text):
        try:
            with db_session:
                try: return _frag_sql(db, text, 1)
                finally: rollback()
        except Exception as e:
            return 'error:' + type(e).__name__
    _clear_query_caches(db)
    run(f1)
    warm = run(f2)
    _clear_query_caches(db)
    cold = run(f2)
    return warm == cold, warm, cold
