"""C30 - raw SQL parameter substitution is faithful (CrossHair over the real adapt_sql / parse_raw_sql / parse_expr)."""
from engine.core import Report
from engine import ch

STY = ('qmark', 'format', 'numeric', 'named', 'pyformat')
HARNESSES = tuple('adapt_single_' + s for s in STY) + tuple('adapt_history_' + s for s in STY) + ('adapt_history_styles', 'rawsql_single', 'rawsql_history', 'adapt_history_keys', 'rawsql_history_keys', 'adapt_multi', 'raw_scope')


def classify(spec, cex):
    if spec['fn'].startswith('adapt_history'):
        s1, s2 = cex.get('t1', ''), cex.get('t2', '')
        if '%' in s1 or '%' in s2:
            return 'adapt-cache-key-percent'
    return None


def run(tier, seed, only=None):
    from pony.orm import core, ormtypes
    from pony.utils import utils as pu
    rep = Report('C30', 'other',
                 'CrossHair symbolic execution of the real adapt_sql, parse_raw_sql and parse_expr: the SQL text and the parameter '
                 'style are symbolic; asserted against a reference statement of the documented rule ($$ -> $, $expr[;] -> the '
                 'style\'s placeholder in order, %% doubling for format styles when parameters exist, everything else unchanged, '
                 'compiled expressions evaluate in order); two-step histories must equal a cold run.')
    rep.fn(core.adapt_sql, ormtypes.parse_raw_sql, pu.parse_expr)
    T = 150 if tier == 'quick' else 900
    import os
    if tier == 'thorough': os.environ['C30_N'] = '4'      # read by checks/h_c30.py in the worker processes
    specs = [dict(module='checks.h_c30', fn=f, cond_timeout=T, path_timeout=T / 2) for f in HARNESSES]
    if only: specs = [s for s in specs if only in s['fn']]
    rep.bounds = {'sql text': 'len <= 3 (thorough: 4) over alphabet "$%a; ." (single); two texts len <= 3 over "$%a" (history); '
                              'prefix/suffix len <= 2 around 6 expression templates (call, subscript with quoted bracket, attribute chain, nested parens)',
                  'paramstyle': list(__import__('checks.h_c30', fromlist=['STYLES']).STYLES)}
    rep.assumptions = ['adapted_sql_cache / raw_sql_cache cleared at the start of every explored path',
                       'an exception is accepted only where the reference scanner also has no answer (lone $, $ not followed by an identifier)']
    rep.trusted = ['crosshair-tool 0.0.110', 'z3', 'ref_scan/ref_adapt in checks/h_c30.py']
    ch.run_harnesses(rep, specs, classify)
    if not only:
        templates(rep, tier)
        fragment_histories(rep)
    return rep


def templates(rep, tier):
    """Finite family (NOT solver-quantified; reported as concrete obligations): expression forms the symbolic alphabet cannot
    spell - calls, subscripts, quoted brackets, nested parentheses - between literal prefixes/suffixes, for every style."""
    import itertools
    from engine.core import Ob, HOLDS, CEX
    from checks import h_c30 as h
    pres = ['', 'a ', '%', '$$', ' %a', '$$%'] + (['a=', '%%', ' $$ '] if tier == 'thorough' else [])
    sufs = ['', ' ', '%', ')', ' $$', ' % )'] + ([' %%', '$$$$', ' and 1'] if tier == 'thorough' else [])
    for (pre, suf, style, tmpl) in itertools.product(pres, sufs, range(5), range(len(h.FORMS))):
        nm = 'template:%r+$%s+%r/%s' % (pre, h.FORMS[tmpl][0], suf, h.STYLES[style])
        # prefix/suffix literal text after the documented $$ -> $ rule
        good = template_ok(h, pre, suf, style, tmpl)
        if good:
            rep.add(Ob(nm, 'concrete-tie', HOLDS))
        else:
            sql = pre + '$' + h.FORMS[tmpl][0] + suf
            rep.add(Ob(nm, 'concrete-tie', CEX, cex={'sql': sql, 'style': h.STYLES[style]}, reproduced=True, key=None,
                       detail='adapt_sql(%r, %r) differs from the documented rule' % (sql, h.STYLES[style]),
                       replay='from pony.orm.core import adapt_sql\nprint(adapt_sql(%r, %r))\nraise SystemExit(1)\n' % (sql, h.STYLES[style])))


FRAGMENTS = ['p.a > $x', 'p.a < $x', 'p.a = $x', 'p.a <> $x + 1', 'p.a > 0', 'p.a < 5', '$x < p.a', 'p.a > $(x + 1)', 'p.a > $x and p.a < $x']


def fragment_histories(rep):
    """raw_sql() fragments spliced into a declarative query at ONE program location: the SQL for the second fragment must not
    depend on the first (translator cache keyed by the fragment).  Finite family, concrete obligations."""
    import itertools
    from engine.core import Ob, HOLDS, CEX
    from checks import h_c30 as h
    for f1, f2 in itertools.permutations(FRAGMENTS, 2):
        good, warm, cold = h.fragment_history_ok(f1, f2)
        nm = 'fragment-history: raw_sql(%r) then raw_sql(%r)' % (f1, f2)
        if good: rep.add(Ob(nm, 'concrete-tie', HOLDS))
        else:
            rep.add(Ob(nm, 'concrete-tie', CEX, cex={'first': f1, 'second': f2, 'warm_sql': warm, 'cold_sql': cold}, reproduced=True, key='fragment-history',
                       detail='after raw_sql(%r) the query with raw_sql(%r) is translated to %r, alone to %r' % (f1, f2, warm, cold),
                       replay='import sys; sys.path.insert(0, "/verif")\nfrom checks import h_c30\nr = h_c30.fragment_history_ok(%r, %r)\nprint(r)\nsys.exit(0 if r[0] else 1)\n' % (f1, f2)))


def template_ok(h, pre, suf, style, tmpl):
    from pony.orm import core
    expr, tag = h.FORMS[tmpl]
    st = h.STYLES[style]
    core.adapted_sql_cache.clear()
    try:
        text, code = core.adapt_sql(pre + '$' + expr + suf, st)
    except Exception:
        return False
    def lit(s):
        s = s.replace('$$', '$')
        return s.replace('%', '%%') if st in ('format', 'pyformat') else s
    ph = {'qmark': '?', 'format': '%s', 'numeric': ':1', 'named': ':p1', 'pyformat': '%(p1)s'}[st]
    if text != lit(pre) + ph + lit(suf): return False
    return h._template_body(pre.replace('$$', ''), suf.replace('$$', ''), style, tmpl)
