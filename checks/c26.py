"""C26 - generated schemas are well formed and match the entity model (kernels; no backend exists in the sandbox).

CrossHair drives the real pony/orm/dbschema.py classes (all four dialect subclasses), the real provider name functions and
the real Database.generate_mapping; see checks/h_c26.py for the reference statements and for why identifiers come from
a solver-chosen pool rather than from fully symbolic strings.
"""
import os
from engine.core import Report
from engine import ch

D = ('sqlite', 'postgres', 'mysql', 'oracle')
HARNESSES = (('normalize_name', 'normalize_name_fold', 'time_precision')
             + tuple('index_pair_' + d for d in D) + ('index_flags',)
             + tuple('fk_pair_' + d for d in D) + ('fk_flags',) + tuple('m2m_names_' + d for d in D)
             + tuple('column_' + d for d in D) + ('table_ddl',)
             + ('order3', 'order_qualified', 'order4_a', 'order4_b', 'order4_c', 'order4_d')
             + tuple('mapping_rel_' + d for d in D) + tuple('mapping_attr_' + d for d in D)
             + ('mapping_inherit', 'real_limits', 'oracle_auto_pk_names', 'oracle_auto_pk_names_owner'))


def classify(spec, cex):
    fn = spec['fn']
    if fn == 'oracle_auto_pk_names_owner':
        return 'oracle-sequence-name-built-from-owner'
    if fn == 'oracle_auto_pk_names':
        return 'oracle-sequence-trigger-name-exceeds-limit'
    if fn == 'order_qualified' and not cex.get('dialect') and len({bool(cex.get(k)) for k in ('q0', 'q1', 'q2')}) == 2:
        return 'sqlite-mixed-qualified-and-plain-table-names-crash-ordering'
    return None


def run(tier, seed, only=None):
    if tier == 'thorough': os.environ['C26_THOROUGH'] = '1'        # read by checks/h_c26.py in the worker processes
    from pony.orm import dbschema as ds, dbapiprovider as dp, core
    from engine import env as E0
    E0.install_driver_stubs()
    from pony.orm.dbproviders import oracle, postgres, mysql, sqlite
    rep = Report('C26', 'other',
                 'CrossHair over the real schema classes, provider name functions and Database.generate_mapping: option flags, the '
                 'dialect, the parent-table adjacency matrix and identifier choices (pool of short names over {a, A, _} with '
                 'max_name_len lowered to 4..10 on a provider subclass) are solver variables; asserted: names within the limit, '
                 'canonical and pairwise different or the request is rejected at mapping time; DDL says NOT NULL / UNIQUE / PRIMARY KEY / '
                 'DEFAULT / REFERENCES .. ON DELETE exactly when declared; the schema has one column per mapped attribute column with the '
                 'declared nullability, keys, indexes and foreign keys; creation order is topological and emits every object once.')
    rep.fn(ds.DBSchema.order_tables_to_create, ds.DBSchema.generate_create_script, ds.Table.__init__, ds.Table.get_create_command,
           ds.Table.get_objects_to_create, ds.Table.add_index, ds.Table.add_foreign_key, ds.Column.__init__, ds.Column.get_sql,
           ds.Constraint.__init__, ds.DBIndex.__init__, ds.DBIndex._get_create_sql, ds.ForeignKey.__init__, ds.ForeignKey._get_create_sql,
           dp.DBAPIProvider.normalize_name, dp.DBAPIProvider.get_default_index_name, dp.DBAPIProvider.get_default_fk_name,
           dp.DBAPIProvider.get_default_m2m_table_name, dp.DBAPIProvider.get_default_m2m_column_names,
           dp.DBAPIProvider.get_default_column_names, dp.DBAPIProvider.quote_name,
           postgres.PGProvider.normalize_name, mysql.MySQLProvider.normalize_name, oracle.OraProvider.normalize_name,
           oracle.OraTable.get_objects_to_create, oracle.OraSequence.__init__, oracle.OraTrigger.__init__,
           core.Database.generate_mapping, core.Attribute.get_columns, core.Set.get_m2m_columns)
    T = 150 if tier == 'quick' else 900
    specs = [dict(module='checks.h_c26', fn=f, cond_timeout=T, path_timeout=T / 2) for f in HARNESSES]
    if only: specs = [s for s in specs if only in s['fn']]
    thorough = tier == 'thorough'
    rep.bounds = {
        'identifiers': 'solver-chosen from all strings of length 1..2 over {a, A, _%s} (column names: length 1), optionally prefixed idx_/unq_/fk_; '
                       'normalize_name on SQLite: fully symbolic strings len <= 4 over {a, B, _, 1}' % (', b' if thorough else ''),
        'max_name_len': 'lowered to 4, 6, 8 or 10 on a subclass of each real provider class (5 and 30 for the Oracle sequence/trigger names)',
        'flags': 'every combination of is_pk in {False, True, auto}, unique, not null, sql_default in {None, True, text}, foreign key, '
                 'on_delete in {None, CASCADE, SET NULL}, int/str column type, composite key shapes, m2m template',
        'tables in the ordering harness': '3 with self references (SQLite + PostgreSQL), 4 without (PostgreSQL%s): every adjacency matrix' % (' + SQLite' if thorough else ''),
        'mappings': '2 entities (names of 1/5/9 characters), single or composite key, 0-2 relations between them (to-one required/optional, '
                    'many-to-many), self relation (symmetric, parent/children, two-sided m2m); 1 entity with two data attributes whose '
                    'names collide after truncation/case folding x unique/index/composite_key/composite_index',
        'inheritance': 'Room (single/composite key) <- Event hierarchy: reference Required / Optional / Required(nullable=True), declared in the root or in a subclass, x 4 data attribute kinds x 4 dialects',
        'real limits': 'unmodified provider classes: max_name_len against the documented limit; entity / attribute names of length limit-1, limit, limit+1',
        'dialects': list(D)}
    rep.assumptions = ['providers are instantiated without a connection (object.__new__ on a subclass with a lowered max_name_len); '
                       'mappings use a fake connection pool (engine.env.FakePool), create_tables/check_tables are not executed',
                       'duck-typed converter objects (py_type, provider) stand in for real converters in the dbschema kernels',
                       'identifier strings are concrete per explored path (pool member chosen by the solver, explicit branching): '
                       'str.lower() on symbolic strings is too slow in CrossHair',
                       'a DBSchemaError / MappingError / ERDiagramError from the constructors or generate_mapping counts as "rejected when the mapping is generated"']
    rep.trusted = ['crosshair-tool 0.0.110', 'z3', 'reference statements in checks/h_c26.py']
    ch.run_harnesses(rep, specs, classify)
    return rep
