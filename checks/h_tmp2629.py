from engine.ch import ok
from crosshair import NoTracing
from checks import h_c26 as H
CALLS = [0]
NAMES = [a + b for a in ('', 'a', 'A', '_') for b in 'aA_']   # 12 names len 1..2
def conc(x, n):
    for v in range(n - 1):
        if x == v: return v
    return n - 1

def p1(t1: int, t2: int, c1: int, c2: int, u1: bool, u2: bool) -> bool:
    """
    pre: 0 <= t1 < 12 and 0 <= t2 < 12 and 0 <= c1 < 3 and 0 <= c2 < 3
    post: _
    """
    CALLS[0] += 1
    t1 = conc(t1, 12); t2 = conc(t2, 12); c1 = conc(c1, 3); c2 = conc(c2, 3)
    u1 = True if u1 else False
    u2 = True if u2 else False
    with NoTracing():
        r = H._two_indexes('postgres', 8, NAMES[t1], 'aA_'[c1], NAMES[t2], 'aA_'[c2], u1, u2, 0)
    return r
