"""scratch canaries for C26/C29 (deleted at the end)"""
import os
from checks.h_c26 import *
from checks import h_c26 as H
from pony.orm import dbschema as ds, dbapiprovider as dp, core
from pony.orm.dbproviders import postgres, oracle, sqlite, mysql

def setup():
    k = os.environ['CANARY']
    if k == 'order_no_topo':
        def f(schema):
            return sorted(schema.tables.values(), key=lambda t: t.name)
        ds.DBSchema.order_tables_to_create = f
    elif k == 'order_superset':
        def f(schema):
            tables = []; created = set()
            todo = sorted(schema.tables.values(), key=lambda t: t.name)
            while todo:
                for t in todo:
                    if created.issubset(t.parent_tables) or t.parent_tables.issubset(created):   # wrong extra disjunct
                        created.add(t); todo.remove(t); break
                else: t = todo.pop()
                tables.append(t)
            return tables
        ds.DBSchema.order_tables_to_create = f
    elif k == 'objs_drop_child_loop':
        orig = ds.Table.get_objects_to_create
        def f(table, created_tables=None):
            if created_tables is None: created_tables = set()
            created_tables.add(table)
            result = [table]
            idx = [i for i in table.indexes.values() if not i.is_pk and not i.is_unique]
            idx.sort(key=lambda i: i.name); result.extend(idx)
            if table.schema.named_foreign_keys:
                for fk in sorted(table.foreign_keys.values(), key=lambda fk: fk.name):
                    if fk.parent_table not in created_tables: continue
                    result.append(fk)
            return result
        ds.Table.get_objects_to_create = f
    elif k == 'col_unique_hides_notnull':
        import inspect, textwrap
        src = textwrap.dedent(inspect.getsource(ds.Column.get_sql)).replace("if column.is_not_null: append(case('NOT NULL'))", "if column.is_not_null and not column.is_unique: append(case('NOT NULL'))")
        ns = dict(vars(ds)); exec(src, ns); ds.Column.get_sql = ns['get_sql']
    elif k == 'col_sqlite_pk_no_notnull':
        import inspect, textwrap
        src = textwrap.dedent(inspect.getsource(ds.Column.get_sql)).replace("if schema.dialect == 'SQLite': append(case('NOT NULL'))", "pass")
        ns = dict(vars(ds)); exec(src, ns); ds.Column.get_sql = ns['get_sql']
    elif k == 'col_default_true':
        import inspect, textwrap
        src = textwrap.dedent(inspect.getsource(ds.Column.get_sql)).replace("not in (None, True, False)", "not in (None, False)")
        ns = dict(vars(ds)); exec(src, ns); ds.Column.get_sql = ns['get_sql']
    elif k == 'fk_no_on_delete':
        import inspect, textwrap
        src = textwrap.dedent(inspect.getsource(ds.ForeignKey._get_create_sql)).replace("if foreign_key.on_delete:", "if False:")
        ns = dict(vars(ds)); exec(src, ns); ds.ForeignKey._get_create_sql = ns['_get_create_sql']
    elif k == 'index_unique_word':
        import inspect, textwrap
        src = textwrap.dedent(inspect.getsource(ds.DBIndex._get_create_sql)).replace("if index.is_unique: append(case('UNIQUE'))\n", "append(case('UNIQUE'))\n", 1)
        ns = dict(vars(ds)); exec(src, ns); ds.DBIndex._get_create_sql = ns['_get_create_sql']
    elif k == 'index_no_name_check':
        import inspect, textwrap
        src = textwrap.dedent(inspect.getsource(ds.DBIndex.__init__)).replace("if name is not None and name in schema.names:", "if False:")
        ns = dict(vars(ds)); exec(src, ns); ds.DBIndex.__init__ = ns['__init__']
        src = textwrap.dedent(inspect.getsource(ds.Constraint.__init__)).replace("assert name not in schema.names", "pass").replace("if name in schema.constraints:", "if False:")
        ns = dict(vars(ds)); exec(src, ns); ds.Constraint.__init__ = ns['__init__']
    elif k == 'table_no_name_check':
        import inspect, textwrap
        src = textwrap.dedent(inspect.getsource(ds.Table.__init__)).replace("if name in schema.names:", "if False:")
        ns = dict(vars(ds)); exec(src, ns); ds.Table.__init__ = ns['__init__']
    elif k == 'pg_no_truncate':
        postgres.PGProvider.normalize_name = lambda provider, name: name.lower()
    elif k == 'ora_no_upper':
        oracle.OraProvider.normalize_name = lambda provider, name: name[:provider.max_name_len]
    elif k == 'fk_name_no_normalize':
        def f(provider, child_table_name, parent_table_name, child_column_names):
            return ('fk_%s__%s' % (provider.base_name(child_table_name), '__'.join(child_column_names))).lower()
        dp.DBAPIProvider.get_default_fk_name = f
    elif k == 'index_name_off_by_one':
        orig = dp.DBAPIProvider.get_default_index_name
        def f(provider, table_name, column_names, is_pk=False, is_unique=False, m2m=False):
            column_names = tuple(column_names)
            r = orig(provider, table_name, column_names, is_pk, is_unique, m2m)
            full = ('unq_' if is_unique else 'idx_') + provider.base_name(table_name)
            return r if len(full) < provider.max_name_len else (r + 'x')
        dp.DBAPIProvider.get_default_index_name = f
    elif k == 'm2m_cols_no_normalize':
        def f(provider, entity):
            columns = entity._get_pk_columns_()
            if len(columns) == 1: return [entity.__name__.lower()]
            prefix = entity.__name__.lower() + '_'
            return [prefix + c for c in columns]
        dp.DBAPIProvider.get_default_m2m_column_names = f
    elif k == 'm2m_table_symmetric_swapped':
        def f(provider, attr, reverse):
            name = attr.entity.__name__ + '_' + reverse.entity.__name__
            return provider.normalize_name(name)
        dp.DBAPIProvider.get_default_m2m_table_name = f
    elif k == 'mapping_all_not_null':
        orig = ds.Table.add_column
        def f(table, column_name, sql_type, converter, is_not_null=None, sql_default=None):
            return orig(table, column_name, sql_type, converter, True, sql_default)
        ds.Table.add_column = f
    elif k == 'mapping_set_null_lost':
        orig = ds.Table.add_foreign_key
        def f(table, fk_name, child_columns, parent_table, parent_columns, index_name=None, on_delete=False, interleave=False):
            if on_delete == 'SET NULL': on_delete = None
            return orig(table, fk_name, child_columns, parent_table, parent_columns, index_name, on_delete, interleave)
        ds.Table.add_foreign_key = f
    elif k == 'mapping_fk_index_lost':
        import inspect, textwrap
        src = textwrap.dedent(inspect.getsource(ds.ForeignKey.__init__)).replace("if index_name is not False:", "if False:")
        ns = dict(vars(ds)); exec(src, ns); ds.ForeignKey.__init__ = ns['__init__']
    elif k == 'composite_unique_dropped':
        import inspect, textwrap
        src = textwrap.dedent(inspect.getsource(ds.Table.get_create_command)).replace("index.is_unique and len(index.columns) > 1 ]", "index.is_unique and len(index.columns) > 2 ]")
        ns = dict(vars(ds)); exec(src, ns); ds.Table.get_create_command = ns['get_create_command']
    elif k == 'none':
        pass
    else:
        raise SystemExit('unknown canary ' + k)
