"""CrossHair harnesses for C13 - a modification that raises leaves the session exactly as it was.

What runs: the real `Entity.__init__`, `Entity._get_from_identity_map_`, `Attribute.__set__`, `Attribute.update_reverse`,
`Entity.set`, `Entity._keyargs_to_avdicts_`, `Entity.delete/_delete_`, `Set.__set__`, `SetInstance.add/remove`,
`Set.reverse_add/reverse_remove`, `SessionCache.update_simple_index/update_composite_index`, `Attribute.validate`,
`Set.validate`, followed by the real `flush()/commit()` on a real in-memory SQLite database (sqlite3 engine, foreign keys on).

Scenario list (NOT solver-quantified as programs; SCENARIOS below: ~100 calls in 9 families - create, assign, set(), one-to-one
reassignment, collection add / remove / assignment, delete with cascades of depth 2, mixed-session objects and validation
errors).  Every scenario is one modification call on a fixed object graph (function `populate`: 10 entity types with simple,
composite and relation-composite keys, one-to-one required / optional / cascade, one-to-many optional / required without
cascade / cascade of depth 2, many-to-many); the objects the call uses are fetched before the call (part of the history).

Symbolic (decided by CrossHair/z3, each combination is one explored path):
  * `s`      - which scenario of the family (one harness per family, so that they run in parallel),
  * `k`      - the FAULT INDEX: delegating wrappers around the internal steps that the undo closures are supposed to cover
               (SessionCache.update_simple_index, update_composite_index, Attribute.update_reverse, Set.reverse_add,
               Set.reverse_remove, Entity._delete_, and the nested - undo_funcs is not None - calls of Attribute.__set__ and
               Set.__set__) count the calls made during the call under test and raise ConstraintError INSTEAD of the k-th call;
               k = 0: nothing is injected, the call fails (or not) by itself.  k ranges over 0..kmax(s), where kmax(s) is the
               largest number of counted calls of the un-faulted scenario over 10 measured runs + MARGIN; every path checks that
               it never makes more counted calls than the bound (R4), so every reachable step is the fault point of some path.
  * `mode`   - the history of the session, an index into MODES = (origin, hist, preload):
               origin  0 objects loaded from the database, 1 created in this session (status 'created'), 2 created and flushed
                       in this session (status 'inserted'),
               hist    0 nothing happened before, 1 an unrelated attribute of most objects was assigned (status 'modified',
                       already queued for saving), 2 the same and flush() (status 'updated'),
               preload 0 the call meets lazily loaded objects/collections, 1 every row and collection was read before.
               Quick tier: 10 of the 18 combinations; thorough tier: all.
  * `order`  - pony walks Python sets of entity instances, whose order follows the identity hash (memory addresses).  The
               harness replaces Entity.__hash__ by a per-run counter (class Order) so that a path is reproducible; `order`
               selects counting up or down, i.e. two of the walk orders the address hash can produce.
  * `follow` - (thorough tier) a later modification made after the failed call and in the reference run: a create with the
               unique value / primary key the failed call tried to take, an existing composite key, re-doing an m2m link ...

The symbolic ints are turned into concrete ones by explicit branching (`_pick`, bisection: one solver decision per comparison;
crosshair's realize() never lets the search exhaust) and the session itself runs concretely: every explored path is ONE
concrete run of the real code at a solver-chosen (scenario, fault point, history, order) - fault_enumeration level, not a proof
about all programs.  Fully traced, a single pony session costs ~0.5 s per path (x ~10^4 paths).  The fault index is decided
up front rather than at each counted call (the engine/fakedb.traced_eq pattern) because the call count before a natural
failure depended on the set walk order before the Order stub existed; the tree is the same (k == 1? k == 2? ...).
The concrete run is done in a helper PROCESS (class Helper): CrossHair slows down the interpreter it lives in ~4.5x even
with tracing suspended by NoTracing (37 ms against 8 ms per path, measured in the harness thread and in a second thread).

Reference statement of the property (functions `_execute`, `_run_path`), for every path on which the call under test raised:
  R1 same-run snapshot: with everything loaded (preload=1, or origin=1 without history) the deep snapshot of the session taken
     right after the exception equals the one taken right before the call: for every object in the cache its status, write
     bits, position in objects_to_save, every attribute value, every collection (items, pending added/removed, count, loaded
     flag); cache.indexes (every simple/composite/primary key -> object), objects_to_save, modified_collections.
     With lazy objects the call may legitimately LOAD things, so the same-run comparison is "nothing that was there before
     changed, every new object is a plain loaded one and every new key-index entry points to such a new object".
  R2 reference run: an identical session WITHOUT the call is run first (cached per history); after the failed call (and the
     follow-up, if any) the whole database is read into both sessions (auto-flush disabled) and the deep snapshots are equal.
  R3 a following commit() raises nothing in the test run unless it raises in the reference run too, and afterwards the
     content of every table equals the reference run's (the committed model without the call).
  R4 no path makes more counted calls than kmax(s); the fault, when within the calls made, fires.
cache.modified is compared by the two `modified_flag_*` harnesses only (the other harnesses ignore it and these ignore
everything else): left set, it only makes the next flush a no-op pass that clears the query-result cache; nothing is written.
An object that is in the cache's object set but reachable through no index, no collection, no attribute and not queued for
saving (the husk of a failed constructor call) is not observable and is ignored; `None` and an empty set are the same
"nothing pending" for SetData.added/removed.  Paths on which the call does not raise assert nothing.

Defect classes (KEYS, `explains`, `classify_path`): a failing path gets the key of the first class that accounts for one of
its differences.  checks/c13.py re-runs a harness with the classes already reported in TOLERATE; a path then passes only if
EVERY difference is accounted for by a tolerated class, so anything else on the same path still fails (key None or the next
class).  The classes whose undo chain is cut short (an exception inside an undo closure; set(), which registers no undo)
account for anything the call left behind; the others only for their own symptom.
"""
import os
from engine.ch import ok
from pony.orm import core

FOLLOW = int(os.environ.get('C13_FOLLOW', '0'))       # thorough tier: number of follow-up operations (0 = none only)
MARGIN = 1
_S = {}
LAST = {}


# ---------------------------------------------------------------------------------------------------- fault points
class Fault(object):
    armed = False
    k = 0
    n = 0
    hit = None
    log = []
    nested_sets = []           # (object, collection attribute) of every nested Set.__set__ (diagnostics for classify_path)

    @classmethod
    def arm(cls, k):
        cls.armed, cls.k, cls.n, cls.hit, cls.log, cls.nested_sets = True, k, 0, None, [], []

    @classmethod
    def disarm(cls):
        cls.armed = False

    @classmethod
    def tick(cls, name):
        cls.n += 1
        cls.log.append(name)
        if cls.n == cls.k:
            cls.hit = name
            cls.armed = False          # one fault per call under test
            raise core.ConstraintError('injected fault at step %d (%s)' % (cls.n, name))


def _wrap(cls, name, nested_only=False):
    orig = cls.__dict__[name]
    if getattr(orig, '_c13_orig', None) is not None: return
    if nested_only:
        def wrapper(attr, obj, val, undo_funcs=None):
            if Fault.armed and undo_funcs is not None:
                Fault.tick(cls.__name__ + '.' + name)
                if cls is core.Set and not (obj._status_ == 'created' and obj._save_pos_ is None):     # not the object a constructor is making
                    Fault.nested_sets.append((repr(_oid(obj)), attr.entity.__name__, attr.name))
            return orig(attr, obj, val, undo_funcs)
    else:
        def wrapper(*args, **kwargs):
            if Fault.armed: Fault.tick(cls.__name__ + '.' + name)
            return orig(*args, **kwargs)
    wrapper._c13_orig = orig
    wrapper.__name__ = name
    setattr(cls, name, wrapper)


class Order(object):
    """Deterministic iteration order for sets of entity instances.  pony's Entity uses the identity hash, so the order in which
    `to_add`, `to_remove`, SetData and cascades are walked depends on memory addresses: the same path could take a different
    number of steps in two runs (CrossHair would call that non-determinism, a counterexample might not replay).  The stub
    numbers the instances in the order they are first hashed during a run (1, 2, 3 ...; `flip`: counting down from 2**20), which
    fixes the walk order to one of the orders the address hash can produce; the symbolic flag `order` chooses between the two."""
    counter = 0
    ids = {}
    keep = []
    flip = False

    @classmethod
    def reset(cls, flip):
        cls.counter, cls.ids, cls.keep, cls.flip = 0, {}, [], bool(flip)

    @staticmethod
    def entity_hash(obj):
        h = Order.ids.get(id(obj))
        if h is None:
            Order.counter += 1
            h = Order.ids[id(obj)] = Order.counter
            Order.keep.append(obj)          # keeps id(obj) from being reused during the run
        return (1 << 20) - h if Order.flip else h


def install_fault_points():
    core.Entity.__hash__ = Order.entity_hash
    _wrap(core.SessionCache, 'update_simple_index')
    _wrap(core.SessionCache, 'update_composite_index')
    _wrap(core.Attribute, 'update_reverse')
    _wrap(core.Set, 'reverse_add')
    _wrap(core.Set, 'reverse_remove')
    _wrap(core.Entity, '_delete_')
    _wrap(core.Attribute, '__set__', nested_only=True)
    _wrap(core.Set, '__set__', nested_only=True)


# ---------------------------------------------------------------------------------------------------- schema and data
ENTITIES = ('Person', 'Passport', 'Locker', 'Badge', 'Group', 'Task', 'Note', 'Item', 'Part', 'Seal')


def define_entities(db):
    from pony.orm import PrimaryKey, Required, Optional, Set, composite_key

    class Person(db.Entity):
        id = PrimaryKey(int)
        name = Required(str)
        memo = Optional(str)
        code = Optional(int, unique=True)
        a = Required(int)
        b = Required(int)
        composite_key(a, b)
        age = Optional(int, py_check=lambda v: v >= 0)
        groups = Set('Group')                           # many-to-many
        tasks = Set('Task')                             # one-to-many, Task.owner optional: unlinked on delete
        notes = Set('Note', cascade_delete=False)       # one-to-many, Note.author required, no cascade: delete is refused
        items = Set('Item')                             # one-to-many, Item.holder required: cascade
        passport = Optional('Passport')                 # one-to-one, Passport.person required, no cascade
        locker = Optional('Locker')                     # one-to-one, optional on both sides
        badge = Optional('Badge', cascade_delete=True)  # one-to-one, Badge.person required, cascade

    class Passport(db.Entity):
        id = PrimaryKey(int)
        memo = Optional(str)
        number = Required(int, unique=True)
        person = Required(Person)

    class Locker(db.Entity):
        id = PrimaryKey(int)
        memo = Optional(str)
        owner = Optional(Person)

    class Badge(db.Entity):
        id = PrimaryKey(int)
        memo = Optional(str)
        person = Required(Person)

    class Group(db.Entity):
        id = PrimaryKey(int)
        memo = Optional(str)
        members = Set(Person)

    class Task(db.Entity):
        id = PrimaryKey(int)
        memo = Optional(str)
        owner = Optional(Person)
        slot = Required(int)
        composite_key(owner, slot)

    class Note(db.Entity):
        id = PrimaryKey(int)
        memo = Optional(str)
        author = Required(Person)

    class Item(db.Entity):
        id = PrimaryKey(int)
        memo = Optional(str)
        holder = Required(Person)
        parts = Set('Part')                             # cascade (Part.item required)

    class Part(db.Entity):
        id = PrimaryKey(int)
        memo = Optional(str)
        item = Required(Item)
        seal = Optional('Seal')                         # Seal.part required, no cascade: deleting the part is refused

    class Seal(db.Entity):
        id = PrimaryKey(int)
        memo = Optional(str)
        part = Required(Part)


def populate(db):
    """The object graph every scenario starts from (public constructors only)."""
    E = db
    g1, g2, g3 = E.Group(id=1), E.Group(id=2), E.Group(id=3)
    p1 = E.Person(id=1, name='ann', code=11, a=1, b=1, groups=[g1, g2])
    p2 = E.Person(id=2, name='bob', code=22, a=2, b=2, groups=[g2])
    p3 = E.Person(id=3, name='cid', a=3, b=3)
    p4 = E.Person(id=4, name='dan', code=44, a=4, b=4, groups=[g1, g3])
    p5 = E.Person(id=5, name='eve', code=55, a=5, b=5, groups=[g3])
    p6 = E.Person(id=6, name='fay', code=66, a=6, b=6, groups=[g1])
    p7 = E.Person(id=7, name='gil', code=77, a=7, b=7)
    p8 = E.Person(id=8, name='hal', code=88, a=8, b=8)
    E.Passport(id=1, number=101, person=p1); E.Passport(id=2, number=102, person=p2)
    E.Passport(id=5, number=105, person=p5); E.Passport(id=8, number=108, person=p8)
    E.Locker(id=1, owner=p1); E.Locker(id=2)
    E.Badge(id=1, person=p1); E.Badge(id=2, person=p2)
    E.Task(id=1, owner=p1, slot=1); E.Task(id=2, owner=p1, slot=2); E.Task(id=3, owner=p2, slot=1)
    E.Task(id=8, slot=7); E.Task(id=9, slot=1); E.Task(id=6, owner=p6, slot=1)
    E.Note(id=1, author=p1); E.Note(id=2, author=p1); E.Note(id=6, author=p6); E.Note(id=7, author=p7)
    i1, i2 = E.Item(id=1, holder=p1), E.Item(id=2, holder=p1)
    i3, i4 = E.Item(id=3, holder=p2), E.Item(id=4, holder=p4)
    pa1, pa2, pa3, pa4 = E.Part(id=1, item=i1), E.Part(id=2, item=i2), E.Part(id=3, item=i3), E.Part(id=4, item=i4)
    E.Seal(id=1, part=pa1); E.Seal(id=4, part=pa4)


def populate_foreign(db):
    """Rows created by an EARLIER session; the Python objects of that session are the 'mixed-session' objects."""
    g = db.Group(id=50)
    p = db.Person(id=50, name='old', code=5050, a=50, b=50)
    l = db.Locker(id=50)
    t = db.Task(id=50, slot=50)
    n = db.Note(id=50, author=p)
    return dict(g=g, p=p, l=l, t=t, n=n)


TOUCHED = ('Person', 'Passport', 'Task', 'Item', 'Part', 'Group', 'Note')


class Ctx(object):
    """What a scenario sees: entity access by primary key, and the objects of the earlier session."""
    def __init__(self, db, old):
        self.db, self.old = db, old
    def __getattr__(self, name):
        ent = getattr(self.db, name)
        return lambda pk: ent[pk]


# ---------------------------------------------------------------------------------------------------- scenarios
# name -> prepare(c) returning the call under test (a closure with no arguments).  prepare may make preliminary,
# successful modifications ("after other attributes were accepted"): they are part of the history, not of the call.
def _scenarios():
    S = []
    def sc(family, name):
        def deco(f):
            S.append((family, name, f)); return f
        return deco

    # ---- create ---------------------------------------------------------------------------------
    @sc('create', 'duplicate primary key')
    def _(c):
        P = c.db.Person; c.Person(1)
        return lambda: P(id=1, name='x', a=9, b=9)
    @sc('create', 'duplicate unique value')
    def _(c):
        P = c.db.Person; c.Person(1); g1 = c.Group(1)
        return lambda: P(id=9, name='x', a=9, b=9, code=11, groups=[g1])
    @sc('create', 'duplicate composite key')
    def _(c):
        P = c.db.Person; c.Person(1); l2 = c.Locker(2)
        return lambda: P(id=9, name='x', a=1, b=1, code=99, locker=l2)
    @sc('create', 'one-to-one partner already has a required partner')
    def _(c):
        PP = c.db.Passport; p1 = c.Person(1)
        return lambda: PP(id=9, number=909, person=p1)
    @sc('create', 'duplicate unique value with relation')
    def _(c):
        PP = c.db.Passport; c.Passport(1); p3 = c.Person(3)
        return lambda: PP(id=9, number=101, person=p3)
    @sc('create', 'duplicate composite key with relation')
    def _(c):
        T = c.db.Task; c.Task(1); p1 = c.Person(1)
        return lambda: T(id=99, owner=p1, slot=1)
    @sc('create', 'person taking over passport, locker, groups, tasks (succeeds unless faulted)')
    def _(c):
        P = c.db.Person; pp1, l1, g1, g2, t1, t8 = c.Passport(1), c.Locker(1), c.Group(1), c.Group(2), c.Task(1), c.Task(8)
        return lambda: P(id=9, name='x', a=9, b=9, code=99, passport=pp1, locker=l1, groups=[g1, g2], tasks=[t1, t8])
    @sc('create', 'person taking over a cascade-delete badge partner and an item (succeeds unless faulted)')
    def _(c):
        P = c.db.Person; bd1, i3 = c.Badge(1), c.Item(3)
        return lambda: P(id=9, name='x', a=9, b=9, badge=bd1, items=[i3])
    @sc('create', 'item taking over parts (succeeds unless faulted)')
    def _(c):
        I = c.db.Item; p1, pa3, pa1 = c.Person(1), c.Part(3), c.Part(1)
        return lambda: I(id=9, holder=p1, parts=[pa3, pa1])
    @sc('create', 'group with members (succeeds unless faulted)')
    def _(c):
        G = c.db.Group; p1, p3 = c.Person(1), c.Person(3)
        return lambda: G(id=9, members=[p1, p3])
    @sc('create', 'locker for an owner who has one: the old one is unlinked (succeeds unless faulted)')
    def _(c):
        L = c.db.Locker; p1 = c.Person(1)
        return lambda: L(id=9, owner=p1)
    @sc('create', 'tasks conflict inside the new collection')
    def _(c):
        P = c.db.Person; g3, t1, t3 = c.Group(3), c.Task(1), c.Task(3)
        return lambda: P(id=9, name='x', a=9, b=9, groups=[g3], tasks=[t1, t3])
    @sc('create', 'second passport for a person, after the person got new groups')
    def _(c):
        PP = c.db.Passport; p2 = c.Person(2); p2.groups.add(c.Group(3))
        return lambda: PP(id=9, number=909, person=p2)
    @sc('create', 'note for a deleted author')
    def _(c):
        N = c.db.Note; p3 = c.Person(3); p3.delete()
        return lambda: N(id=9, author=p3)
    @sc('create', 'seal for a part that has a required seal, together with a memo')
    def _(c):
        SL = c.db.Seal; pa1 = c.Part(1)
        return lambda: SL(id=9, memo='m', part=pa1)

    # ---- assignment -----------------------------------------------------------------------------
    @sc('assign', 'unique conflict')
    def _(c):
        c.Person(1); p2 = c.Person(2)
        return lambda: setattr(p2, 'code', 11)
    @sc('assign', 'composite conflict after the other column was accepted')
    def _(c):
        c.Person(1); p2 = c.Person(2); p2.b = 1
        return lambda: setattr(p2, 'a', 1)
    @sc('assign', 'new unique value (succeeds unless faulted)')
    def _(c):
        p2 = c.Person(2)
        return lambda: setattr(p2, 'code', 33)
    @sc('assign', 'relation that is part of a composite key: conflict')
    def _(c):
        c.Task(1); t3, p1 = c.Task(3), c.Person(1)
        return lambda: setattr(t3, 'owner', p1)
    @sc('assign', 'relation that is part of a composite key: move (succeeds unless faulted)')
    def _(c):
        t3, p3 = c.Task(3), c.Person(3)
        return lambda: setattr(t3, 'owner', p3)
    @sc('assign', 'slot conflict after the owner was accepted')
    def _(c):
        c.Task(3); t8 = c.Task(8); t8.owner = c.Person(2)
        return lambda: setattr(t8, 'slot', 1)
    @sc('assign', 'None to a required relation')
    def _(c):
        n1 = c.Note(1)
        return lambda: setattr(n1, 'author', None)
    @sc('assign', 'item moved to another holder (succeeds unless faulted)')
    def _(c):
        i1, p3 = c.Item(1), c.Person(3)
        return lambda: setattr(i1, 'holder', p3)
    @sc('assign', 'unique number conflict on passport after memo was accepted')
    def _(c):
        c.Passport(1); pp2 = c.Passport(2); pp2.memo = 'accepted'
        return lambda: setattr(pp2, 'number', 101)

    # ---- set() ----------------------------------------------------------------------------------
    @sc('set', 'unique conflict after a plain attribute')
    def _(c):
        c.Person(1); p2 = c.Person(2)
        return lambda: p2.set(name='zed', code=11)
    @sc('set', 'composite conflict after a new unique value was accepted')
    def _(c):
        c.Person(1); p2 = c.Person(2)
        return lambda: p2.set(code=33, a=1, b=1)
    @sc('set', 'required one-to-one partner refuses after a new unique value was accepted')
    def _(c):
        p2, pp1 = c.Person(2), c.Passport(1)
        return lambda: p2.set(code=33, passport=pp1)
    @sc('set', 'several relations and collections (succeeds unless faulted)')
    def _(c):
        p3, l1, g1, t8, t3 = c.Person(3), c.Locker(1), c.Group(1), c.Task(8), c.Task(3)
        return lambda: p3.set(code=33, a=30, locker=l1, groups=[g1], tasks=[t8, t3])
    @sc('set', 'collection conflict after keys and relations were accepted')
    def _(c):
        p3, l2, t1, t3 = c.Person(3), c.Locker(2), c.Task(1), c.Task(3)
        return lambda: p3.set(code=33, locker=l2, tasks=[t1, t3])
    @sc('set', 'unique conflict on an object with pending changes')
    def _(c):
        c.Person(1); p2 = c.Person(2); p2.name = 'pending'; p2.groups.add(c.Group(3))
        return lambda: p2.set(code=11, name='zed')
    @sc('set', 'composite key with relation: conflict')
    def _(c):
        c.Task(1); t3, p1 = c.Task(3), c.Person(1)
        return lambda: t3.set(memo='x', owner=p1)
    @sc('set', 'composite key with relation: both columns (succeeds unless faulted)')
    def _(c):
        t3, p1 = c.Task(3), c.Person(1)
        return lambda: t3.set(slot=5, owner=p1)

    @sc('set', 'collection with a pending addition extended, then a conflicting second collection')
    def _(c):
        p2, g1, g2, g3, t1, t3 = c.Person(2), c.Group(1), c.Group(2), c.Group(3), c.Task(1), c.Task(3); p2.groups.add(g3)
        return lambda: p2.set(groups=[g1, g2, g3], tasks=[t1, t3])
    @sc('set', 'collection with a pending removal emptied, then a second collection that cannot be unlinked')
    def _(c):
        p1, g1 = c.Person(1), c.Group(1); p1.groups.remove(g1)
        return lambda: p1.set(groups=[], notes=[])

    # ---- one-to-one -----------------------------------------------------------------------------
    @sc('o2o', 'take a passport whose holder may lose it (succeeds unless faulted)')
    def _(c):
        p3, pp1 = c.Person(3), c.Passport(1)
        return lambda: setattr(p3, 'passport', pp1)
    @sc('o2o', 'replace a passport that requires its person')
    def _(c):
        p1, pp2 = c.Person(1), c.Passport(2)
        return lambda: setattr(p1, 'passport', pp2)
    @sc('o2o', 'give a passport to a person whose own passport requires him')
    def _(c):
        pp1, p2 = c.Passport(1), c.Person(2)
        return lambda: setattr(pp1, 'person', p2)
    @sc('o2o', 'optional both sides: new locker (succeeds unless faulted)')
    def _(c):
        p1, l2 = c.Person(1), c.Locker(2)
        return lambda: setattr(p1, 'locker', l2)
    @sc('o2o', 'optional both sides: steal a locker (succeeds unless faulted)')
    def _(c):
        p2, l1 = c.Person(2), c.Locker(1)
        return lambda: setattr(p2, 'locker', l1)
    @sc('o2o', 'cascade partner replaced: old badge deleted (succeeds unless faulted)')
    def _(c):
        p1, bd2 = c.Person(1), c.Badge(2)
        return lambda: setattr(p1, 'badge', bd2)
    @sc('o2o', 'drop a passport that requires its person')
    def _(c):
        p1 = c.Person(1)
        return lambda: setattr(p1, 'passport', None)
    @sc('o2o', 'drop a cascade partner (succeeds unless faulted)')
    def _(c):
        p1 = c.Person(1)
        return lambda: setattr(p1, 'badge', None)
    @sc('o2o', 'seal moved to a part (succeeds unless faulted)')
    def _(c):
        s1, pa2 = c.Seal(1), c.Part(2)
        return lambda: setattr(s1, 'part', pa2)
    @sc('o2o', 'seal moved to a part that has a seal')
    def _(c):
        s1, pa4 = c.Seal(1), c.Part(4)
        return lambda: setattr(s1, 'part', pa4)

    # ---- collection add -------------------------------------------------------------------------
    @sc('add', 'many-to-many (succeeds unless faulted)')
    def _(c):
        p1, g3 = c.Person(1), c.Group(3)
        return lambda: p1.groups.add([g3])
    @sc('add', 'many-to-many from the other side, two items (succeeds unless faulted)')
    def _(c):
        g3, p1, p2 = c.Group(3), c.Person(1), c.Person(2)
        return lambda: g3.members.add([p1, p2])
    @sc('add', 'one-to-many: composite conflict')
    def _(c):
        c.Task(1); p1, t9 = c.Person(1), c.Task(9)
        return lambda: p1.tasks.add(t9)
    @sc('add', 'one-to-many: one good and one conflicting item')
    def _(c):
        c.Task(1); p1, t8, t9 = c.Person(1), c.Task(8), c.Task(9)
        return lambda: p1.tasks.add([t8, t9])
    @sc('add', 'one-to-many: the two new items conflict with each other')
    def _(c):
        p3, t1, t3 = c.Person(3), c.Task(1), c.Task(3)
        return lambda: p3.tasks.add([t1, t3])
    @sc('add', 'one-to-many: items taken from another holder (succeeds unless faulted)')
    def _(c):
        p3, i1, i3 = c.Person(3), c.Item(1), c.Item(3)
        return lambda: p3.items.add([i1, i3])
    @sc('add', 'one-to-many: notes taken from another author (succeeds unless faulted)')
    def _(c):
        p3, n1, n6 = c.Person(3), c.Note(1), c.Note(6)
        return lambda: p3.notes.add([n1, n6])
    @sc('add', 'one-to-many: a deleted item among the new ones')
    def _(c):
        p1, t8, t50 = c.Person(1), c.Task(8), c.Task(50); t8.delete()
        return lambda: p1.tasks.add([t8, t50])

    # ---- collection remove ----------------------------------------------------------------------
    @sc('remove', 'many-to-many (succeeds unless faulted)')
    def _(c):
        p1, g1, g2 = c.Person(1), c.Group(1), c.Group(2)
        return lambda: p1.groups.remove([g1, g2])
    @sc('remove', 'one-to-many, optional (succeeds unless faulted)')
    def _(c):
        p1, t1, t2 = c.Person(1), c.Task(1), c.Task(2)
        return lambda: p1.tasks.remove([t1, t2])
    @sc('remove', 'one-to-many, required without cascade')
    def _(c):
        p1, n1, n2 = c.Person(1), c.Note(1), c.Note(2)
        return lambda: p1.notes.remove([n1, n2])
    @sc('remove', 'cascade refused at depth 2')
    def _(c):
        p1, i1 = c.Person(1), c.Item(1)
        return lambda: p1.items.remove(i1)
    @sc('remove', 'cascade (succeeds unless faulted)')
    def _(c):
        p1, i2 = c.Person(1), c.Item(2)
        return lambda: p1.items.remove(i2)
    @sc('remove', 'cascade: one item goes, the other is refused')
    def _(c):
        p1, i1, i2 = c.Person(1), c.Item(1), c.Item(2)
        return lambda: p1.items.remove([i1, i2])
    @sc('remove', 'parts: one goes, the sealed one is refused')
    def _(c):
        i1, pa1, pa2 = c.Item(1), c.Part(1), c.Part(2); pa2.item = i1
        return lambda: i1.parts.remove([pa1, pa2])

    # ---- collection assignment ------------------------------------------------------------------
    @sc('collset', 'many-to-many replaced (succeeds unless faulted)')
    def _(c):
        p1, g3, g2 = c.Person(1), c.Group(3), c.Group(2)
        return lambda: setattr(p1, 'groups', [g3, g2])
    @sc('collset', 'one-to-many: conflict after an item was removed')
    def _(c):
        p1, t1, t9 = c.Person(1), c.Task(1), c.Task(9)
        return lambda: setattr(p1, 'tasks', [t1, t9])
    @sc('collset', 'one-to-many cascade: refused at depth 2')
    def _(c):
        p1, i3 = c.Person(1), c.Item(3)
        return lambda: setattr(p1, 'items', [i3])
    @sc('collset', 'one-to-many, required without cascade: emptied')
    def _(c):
        p1 = c.Person(1)
        return lambda: setattr(p1, 'notes', [])
    @sc('collset', 'one-to-many: the new items conflict with each other')
    def _(c):
        p3, t1, t3 = c.Person(3), c.Task(1), c.Task(3)
        return lambda: setattr(p3, 'tasks', [t1, t3])
    @sc('collset', 'one-to-many cascade (succeeds unless faulted)')
    def _(c):
        p2, i2 = c.Person(2), c.Item(2)
        return lambda: setattr(p2, 'items', [i2])
    @sc('collset', 'many-to-many from the other side (succeeds unless faulted)')
    def _(c):
        g1, p3, p1 = c.Group(1), c.Person(3), c.Person(1)
        return lambda: setattr(g1, 'members', [p3, p1])
    @sc('collset', 'notes replaced by notes of others: old ones cannot be unlinked')
    def _(c):
        p1, n6, n1 = c.Person(1), c.Note(6), c.Note(1)
        return lambda: setattr(p1, 'notes', [n6, n1])

    # ---- delete ---------------------------------------------------------------------------------
    @sc('delete', 'refused by required dependents, with many-to-many links')
    def _(c):
        p = c.Person(6)
        return lambda: p.delete()
    @sc('delete', 'refused by required dependents, no many-to-many links')
    def _(c):
        p = c.Person(7)
        return lambda: p.delete()
    @sc('delete', 'refused by a required one-to-one partner, with many-to-many links')
    def _(c):
        p = c.Person(5)
        return lambda: p.delete()
    @sc('delete', 'refused by a required one-to-one partner, no links')
    def _(c):
        p = c.Person(8)
        return lambda: p.delete()
    @sc('delete', 'refused by a required one-to-one partner, links added in this session')
    def _(c):
        p = c.Person(8); p.groups.add([c.Group(1), c.Group(2)]); p.tasks.add(c.Task(8))
        return lambda: p.delete()
    @sc('delete', 'cascade chain refused at depth 2, with many-to-many links')
    def _(c):
        p = c.Person(4)
        return lambda: p.delete()
    @sc('delete', 'everything: links, optional children, refused by notes')
    def _(c):
        p = c.Person(1)
        return lambda: p.delete()
    @sc('delete', 'cascade of depth 2 succeeds, then refused by the passport')
    def _(c):
        p = c.Person(2)
        return lambda: p.delete()
    @sc('delete', 'free object (succeeds unless faulted)')
    def _(c):
        p = c.Person(3)
        return lambda: p.delete()
    @sc('delete', 'item: cascade refused at depth 1')
    def _(c):
        i = c.Item(1)
        return lambda: i.delete()
    @sc('delete', 'item: cascade (succeeds unless faulted)')
    def _(c):
        i = c.Item(2)
        return lambda: i.delete()
    @sc('delete', 'group: many-to-many from the other side (succeeds unless faulted)')
    def _(c):
        g = c.Group(1)
        return lambda: g.delete()
    @sc('delete', 'passport (succeeds unless faulted)')
    def _(c):
        pp = c.Passport(1)
        return lambda: pp.delete()
    @sc('delete', 'task with owner and composite key (succeeds unless faulted)')
    def _(c):
        t = c.Task(1)
        return lambda: t.delete()
    @sc('delete', 'person whose notes were moved away: cascade refused at depth 2 after links and tasks')
    def _(c):
        p1, p3 = c.Person(1), c.Person(3); c.Note(1).author = p3; c.Note(2).author = p3
        return lambda: p1.delete()

    # pending (unflushed) link changes on the collection that a nested Set.__set__ then rewrites, and a later step that raises
    @sc('delete', 'refused by notes after a many-to-many link was removed in this session')
    def _(c):
        p, g1 = c.Person(1), c.Group(1); p.groups.remove(g1)
        return lambda: p.delete()
    @sc('delete', 'refused at depth 2 after a many-to-many link was removed in this session')
    def _(c):
        p, g1 = c.Person(4), c.Group(1); p.groups.remove(g1)
        return lambda: p.delete()
    @sc('delete', 'refused by notes after a task was unlinked in this session')
    def _(c):
        p, t1 = c.Person(1), c.Task(1); p.tasks.remove(t1)
        return lambda: p.delete()

    # ---- mixed sessions and validation ----------------------------------------------------------
    @sc('mixed', 'assign an object of an earlier session')
    def _(c):
        p1 = c.Person(1)
        return lambda: setattr(p1, 'locker', c.old['l'])
    @sc('mixed', 'add an object of an earlier session to many-to-many')
    def _(c):
        p1, g3 = c.Person(1), c.Group(3)
        return lambda: p1.groups.add([g3, c.old['g']])
    @sc('mixed', 'add an object of an earlier session to one-to-many')
    def _(c):
        p1, t8 = c.Person(1), c.Task(8)
        return lambda: p1.tasks.add([t8, c.old['t']])
    @sc('mixed', 'assign a collection containing an object of an earlier session')
    def _(c):
        p1 = c.Person(1)
        return lambda: setattr(p1, 'groups', [c.old['g']])
    @sc('mixed', 'create with an object of an earlier session')
    def _(c):
        N = c.db.Note
        return lambda: N(id=9, author=c.old['p'])
    @sc('mixed', 'create with a collection of earlier-session objects')
    def _(c):
        P = c.db.Person; l2, g1 = c.Locker(2), c.Group(1)
        return lambda: P(id=9, name='x', a=9, b=9, locker=l2, groups=[g1, c.old['g']])
    @sc('mixed', 'set() with an object of an earlier session after a key')
    def _(c):
        p2 = c.Person(2)
        return lambda: p2.set(code=33, locker=c.old['l'])
    @sc('mixed', 'set() collection with an object of an earlier session after a key and a relation')
    def _(c):
        p2, l2 = c.Person(2), c.Locker(2)
        return lambda: p2.set(code=33, locker=l2, groups=[c.old['g']])
    @sc('mixed', 'validation: wrong type')
    def _(c):
        p1 = c.Person(1)
        return lambda: setattr(p1, 'name', 5)
    @sc('mixed', 'validation: py_check')
    def _(c):
        p1 = c.Person(1)
        return lambda: setattr(p1, 'age', -1)
    @sc('mixed', 'validation: set() with a bad value after a key')
    def _(c):
        p2 = c.Person(2)
        return lambda: p2.set(code=33, age=-1)
    @sc('mixed', 'validation: create with a missing required attribute')
    def _(c):
        P = c.db.Person; g1 = c.Group(1)
        return lambda: P(id=9, a=9, b=9, groups=[g1])
    @sc('mixed', 'validation: wrong entity in a collection')
    def _(c):
        p1, g3, n1 = c.Person(1), c.Group(3), c.Note(1)
        return lambda: p1.groups.add([g3, n1])
    @sc('mixed', 'validation: primary key change')
    def _(c):
        p1 = c.Person(1)
        return lambda: setattr(p1, 'id', 7)
    @sc('mixed', 'assignment to a deleted object')
    def _(c):
        p3 = c.Person(3); p3.delete()
        return lambda: setattr(p3, 'code', 33)
    @sc('mixed', 'collection change of a deleted object')
    def _(c):
        p3, g1 = c.Person(3), c.Group(1); p3.delete()
        return lambda: p3.groups.add(g1)

    # ---- second batch: values going to / coming from None, and calls that meet PENDING collection changes ------------------
    @sc('set', 'optional unique value cleared, then a composite conflict')
    def _(c):
        c.Person(1); p2 = c.Person(2)
        return lambda: p2.set(code=None, a=1, b=1)
    @sc('set', 'memo emptied, then a unique conflict (passport number)')
    def _(c):
        c.Passport(1); pp2 = c.Passport(2)
        return lambda: pp2.set(memo='', number=101)
    @sc('set', 'optional unique value cleared, then a collection that cannot be unlinked')
    def _(c):
        p7 = c.Person(7)
        return lambda: p7.set(code=None, notes=[])
    @sc('set', 'owner of a relation-composite key cleared together with a memo (succeeds unless faulted)')
    def _(c):
        t3 = c.Task(3)
        return lambda: t3.set(memo='x', owner=None)
    @sc('set', 'pending removal put back by the new collection, then a second collection that cannot be unlinked')
    def _(c):
        p1, g1, g2 = c.Person(1), c.Group(1), c.Group(2); p1.groups.remove(g1)
        return lambda: p1.set(groups=[g1, g2], notes=[])
    @sc('set', 'removal pending on the reverse side put back, then a second collection that cannot be unlinked')
    def _(c):
        p1, g1, g2, g3 = c.Person(1), c.Group(1), c.Group(2), c.Group(3); g1.members.remove(p1)
        return lambda: p1.set(groups=[g1, g2, g3], notes=[])
    @sc('set', 'one-to-many item with a pending unlink put back, then a second collection that cannot be unlinked')
    def _(c):
        p1, t1, t2 = c.Person(1), c.Task(1), c.Task(2); p1.tasks.remove(t1)
        return lambda: p1.set(tasks=[t1, t2], notes=[])
    @sc('set', 'pending addition dropped by the new collection, then a conflicting second collection')
    def _(c):
        p2, g2, g3, t1, t3 = c.Person(2), c.Group(2), c.Group(3), c.Task(1), c.Task(3); p2.groups.add(g3)
        return lambda: p2.set(groups=[g2], tasks=[t1, t3])
    @sc('assign', 'optional unique value cleared (succeeds unless faulted)')
    def _(c):
        p2 = c.Person(2)
        return lambda: setattr(p2, 'code', None)
    @sc('assign', 'unique value for a person who had none (succeeds unless faulted)')
    def _(c):
        p3 = c.Person(3)
        return lambda: setattr(p3, 'code', 33)
    @sc('assign', 'owner of a relation-composite key cleared (succeeds unless faulted)')
    def _(c):
        t3 = c.Task(3)
        return lambda: setattr(t3, 'owner', None)
    @sc('assign', 'owner given to a task that had none: composite conflict')
    def _(c):
        c.Task(1); t9, p1 = c.Task(9), c.Person(1)
        return lambda: setattr(t9, 'owner', p1)
    @sc('add', 'many-to-many: a pending removal added back together with a new link (succeeds unless faulted)')
    def _(c):
        p1, g1, g3 = c.Person(1), c.Group(1), c.Group(3); p1.groups.remove(g1)
        return lambda: p1.groups.add([g1, g3])
    @sc('add', 'many-to-many: removal pending on the reverse side added back with a new link (succeeds unless faulted)')
    def _(c):
        p1, g1, g3 = c.Person(1), c.Group(1), c.Group(3); g1.members.remove(p1)
        return lambda: p1.groups.add([g3, g1])
    @sc('add', 'one-to-many: an unlinked task added back together with a conflicting one')
    def _(c):
        c.Task(2); p1, t1, t9 = c.Person(1), c.Task(1), c.Task(9); p1.tasks.remove(t1)
        return lambda: p1.tasks.add([t1, t9])
    @sc('remove', 'many-to-many: a pending addition removed together with a stored link (succeeds unless faulted)')
    def _(c):
        p2, g2, g3 = c.Person(2), c.Group(2), c.Group(3); p2.groups.add(g3)
        return lambda: p2.groups.remove([g3, g2])
    @sc('remove', 'many-to-many: addition pending on the reverse side removed with a stored link (succeeds unless faulted)')
    def _(c):
        p2, g2, g3 = c.Person(2), c.Group(2), c.Group(3); g3.members.add(p2)
        return lambda: p2.groups.remove([g2, g3])
    @sc('collset', 'many-to-many: pending removal put back, stored link dropped, new link added (succeeds unless faulted)')
    def _(c):
        p1, g1, g3 = c.Person(1), c.Group(1), c.Group(3); p1.groups.remove(g1)
        return lambda: setattr(p1, 'groups', [g1, g3])
    @sc('collset', 'many-to-many: removal pending on the reverse side put back (succeeds unless faulted)')
    def _(c):
        p1, g1, g3 = c.Person(1), c.Group(1), c.Group(3); g1.members.remove(p1)
        return lambda: setattr(p1, 'groups', [g3, g1])
    @sc('collset', 'one-to-many: unlinked task put back next to a conflicting one')
    def _(c):
        c.Task(2); p1, t1, t9 = c.Person(1), c.Task(1), c.Task(9); p1.tasks.remove(t1)
        return lambda: setattr(p1, 'tasks', [t1, t9])
    @sc('delete', 'refused by a seal two levels down, after a pending removal and a pending addition of group links')
    def _(c):
        p4, g1, g2 = c.Person(4), c.Group(1), c.Group(2); p4.groups.remove(g1); p4.groups.add(g2)
        return lambda: p4.delete()
    @sc('delete', 'refused by a note, with a link removal pending on the reverse side')
    def _(c):
        p6, g1 = c.Person(6), c.Group(1); g1.members.remove(p6)
        return lambda: p6.delete()
    return S



SCENARIOS = _scenarios()
FAMILIES = []
for _f, _n, _p in SCENARIOS:
    if _f not in FAMILIES: FAMILIES.append(_f)


def family(name):
    return [(i, n, p) for i, (f, n, p) in enumerate(SCENARIOS) if f == name]


# follow-up operations (thorough tier); each may succeed or fail, in both the reference and the test run alike.  Their operands
# are fetched BEFORE the call under test: a fetch after it would be a query (and an auto-flush) in the reference run only
# whenever the failed call happened to load the object.
def _follow_operands(c, f):
    if f == 3: return c.Person(1), c.Group(3), c.Person(6), c.Group(2)
    if f == 4: return (c.Person(1),)
    if f in (5, 6): return (c.Person(3),)
    if f == 7: return (c.Person(2),)
    return ()


def _follow(c, f, ops):
    db = c.db
    if f == 1: db.Person(id=70, name='new', a=70, b=70, code=33)           # the value several failed calls tried to take
    elif f == 2: db.Person(id=70, name='new', a=1, b=1)                    # an existing composite key: must fail in both runs
    elif f == 3: ops[0].groups.add(ops[1]); ops[2].groups.add(ops[3])
    elif f == 4: db.Task(id=70, owner=ops[0], slot=7)
    elif f == 5: ops[0].delete()
    elif f == 6: db.Passport(id=9, number=909, person=ops[0])              # the pk/number a failed create tried to take
    elif f == 7: ops[0].set(code=34, name='again')


N_FOLLOW = 8


# ---------------------------------------------------------------------------------------------------- the session
def setup():
    """called by engine.ch in the harness process before the analysis (and by replays)"""
    _setup()


def _setup():
    if _S: return
    from pony.orm import Database
    core.time = lambda: 0.0
    db = Database()
    define_entities(db)
    db.bind('sqlite', ':memory:')
    db.generate_mapping(create_tables=True)
    install_fault_points()
    _S.update(db=db, tables=None, ref={}, kmax={})


KMAX_RUNS = ((0, 0, 1), (1, 0, 0), (0, 1, 1), (2, 2, 1), (0, 0, 0))


def kmax(si):
    """Bound on the fault index of scenario si: the largest number of counted calls seen in un-faulted runs of the call (five
    histories, twice each because pony walks address-ordered sets) + MARGIN.  R4 makes sure no path exceeds it."""
    _setup()
    m = _S['kmax'].get(si)
    if m is None:
        m = 0
        for origin, hist, preload in KMAX_RUNS:
            for order in (0, 1):
                m = max(m, _execute(si, 0, origin, hist, preload, 0, with_call=True, order=order)['calls'])
        m = _S['kmax'][si] = m + MARGIN
    return m


def _con():
    return _S['db'].provider.pool.con


def _tables():
    if _S['tables'] is None:
        rows = _con().execute("select name from sqlite_master where type='table' order by name").fetchall()
        _S['tables'] = [r[0] for r in rows]
    return _S['tables']


def reset_db():
    db = _S['db']
    core.local.db2cache.clear()
    core.local.db_session = None
    core.local.db_context_counter = 0
    con = _con()
    con.rollback()
    con.execute('PRAGMA foreign_keys = false')
    for t in _tables(): con.execute('DELETE FROM "%s"' % t)
    con.execute('PRAGMA foreign_keys = true')


def dump_db():
    con = _con()
    return {t: sorted(con.execute('SELECT * FROM "%s"' % t).fetchall(), key=repr) for t in _tables()}


def _oid(obj):
    return (obj.__class__.__name__, obj._pkval_ if not isinstance(obj._pkval_, core.Entity) else _oid(obj._pkval_))


def _norm(v):
    if isinstance(v, core.Entity): return _oid(v)
    if isinstance(v, tuple): return tuple(_norm(x) for x in v)
    if isinstance(v, core.SetData):
        return {'items': sorted(map(_oid, v)), 'added': sorted(map(_oid, v.added or ())), 'removed': sorted(map(_oid, v.removed or ())),
                'count': v.count, 'loaded': v.is_fully_loaded}
    if v is core.NOT_LOADED: return 'NOT_LOADED'
    return v


def _keyname(key):
    return key.name if isinstance(key, core.Attribute) else '+'.join(a.name for a in key) if isinstance(key, tuple) else repr(key)


def snapshot(cache):
    """Deep, read-only picture of the session (nothing is loaded by taking it)."""
    snap = {'objects': {}, 'indexes': {}, 'to_save': [], 'modified_collections': {}, 'modified': cache.modified}
    indexed = set()
    for key, index in cache.indexes.items():
        ent = key.entity.__name__ if isinstance(key, core.Attribute) else key[0].entity.__name__ if key else '?'
        d = {}
        for kv, obj in index.items():
            d[repr(_norm(kv))] = _oid(obj)
            indexed.add(id(obj))
        if d: snap['indexes'][ent + '.' + _keyname(key)] = d
    snap['to_save'] = [None if o is None else _oid(o) for o in cache.objects_to_save]
    queued = set(id(o) for o in cache.objects_to_save if o is not None)
    referenced = set()
    for obj in cache.objects:
        for attr, v in (obj._vals_ or {}).items():
            if isinstance(v, core.Entity): referenced.add(id(v))
            elif isinstance(v, core.SetData):
                for o in v: referenced.add(id(o))
                for o in (v.added or ()): referenced.add(id(o))
                for o in (v.removed or ()): referenced.add(id(o))
    for attr, objs in cache.modified_collections.items():
        if objs:
            snap['modified_collections'][attr.entity.__name__ + '.' + attr.name] = sorted(map(_oid, objs))
            for o in objs: referenced.add(id(o))
    for obj in cache.objects:
        if id(obj) not in indexed and id(obj) not in queued and id(obj) not in referenced and obj._status_ == 'created':
            continue                      # unobservable husk of a failed constructor call
        vals = {a.name: _norm(v) for a, v in (obj._vals_ or {}).items()}
        rec = {'status': obj._status_, 'wbits': obj._wbits_, 'save_pos': obj._save_pos_, 'vals': vals}
        oid = _oid(obj)
        if oid in snap['objects']: oid = oid + ('duplicate', len(snap['objects']))
        snap['objects'][oid] = rec
    return snap


def diff(a, b, path=''):
    """Human-readable list of differences between two snapshots."""
    out = []
    if isinstance(a, dict) and isinstance(b, dict):
        for k in sorted(set(a) | set(b), key=repr):
            if k not in a: out.append('%s/%s: appeared: %r' % (path, k, b[k]))
            elif k not in b: out.append('%s/%s: disappeared (was %r)' % (path, k, a[k]))
            else: out.extend(diff(a[k], b[k], '%s/%s' % (path, k)))
    elif a != b:
        out.append('%s: %r -> %r' % (path, a, b))
    return out


def subset_diff(before, after):
    """preload=0: the call may have loaded rows/collections.  Everything that was there before must be unchanged; new index
    entries must point to objects that were not in the cache before."""
    out = []
    for key in ('to_save', 'modified_collections', 'modified'):
        out.extend(diff(before[key], after[key], '/' + key))
    for oid, rec in before['objects'].items():
        rec2 = after['objects'].get(oid)
        if rec2 is None:
            out.append('/objects/%r: disappeared' % (oid,)); continue
        for f in ('status', 'wbits', 'save_pos'):
            if rec[f] != rec2[f]: out.append('/objects/%r/%s: %r -> %r' % (oid, f, rec[f], rec2[f]))
        for name, v in rec['vals'].items():
            if name not in rec2['vals']:
                out.append('/objects/%r/vals/%s: disappeared (was %r)' % (oid, name, v)); continue
            v2 = rec2['vals'][name]
            if isinstance(v, dict) and isinstance(v2, dict) and not v['loaded']:
                # a partially loaded collection may have been completed from the database: pending changes must be the same and
                # nothing known before may have vanished
                if v['added'] != v2['added'] or v['removed'] != v2['removed'] or not set(v['items']) <= set(v2['items']):
                    out.append('/objects/%r/vals/%s: %r -> %r' % (oid, name, v, v2))
            elif v != v2:
                out.append('/objects/%r/vals/%s: %r -> %r' % (oid, name, v, v2))
    for oid, rec2 in after['objects'].items():
        if oid not in before['objects'] and (rec2['status'] != 'loaded' or rec2['wbits']):
            out.append('/objects/%r: appeared with status %r' % (oid, rec2['status']))
    for iname, d in before['indexes'].items():
        d2 = after['indexes'].get(iname, {})
        for kv, oid in d.items():
            if d2.get(kv) != oid: out.append('/indexes/%s/%s: %r -> %r' % (iname, kv, oid, d2.get(kv)))
    for iname, d2 in after['indexes'].items():
        d = before['indexes'].get(iname, {})
        for kv, oid in d2.items():
            if kv not in d and oid in before['objects']:
                out.append('/indexes/%s/%s: appeared for %r, which was in the session before the call' % (iname, kv, oid))
    return out


def load_everything(db, cache):
    """Read every row and every collection through the public API with auto-flush disabled (a flush would change statuses)."""
    with cache.flush_disabled():
        for name in ENTITIES:
            ent = getattr(db, name)
            for obj in ent.select()[:]:
                pass
        for obj in sorted(cache.objects, key=lambda o: repr(_oid(o))):
            if obj._status_ in ('deleted', 'cancelled', 'marked_to_delete'): continue
            if obj._vals_ is None: continue
            for attr in obj._attrs_:
                try:
                    v = attr.__get__(obj)
                    if attr.is_collection: list(v)
                except core.UnrepeatableReadError:
                    raise
    return None


def _execute(si, k, origin, hist, preload, follow, with_call, order=0):
    """One concrete session.  with_call=False is the reference run (the same session without the call under test)."""
    from pony.orm import db_session, commit, flush, rollback
    db = _S['db']
    fam, name, prepare = SCENARIOS[si]
    res = {'raised': None, 'calls': 0, 'hit': None, 'problems': [], 'commit_error': None, 'follow_error': None, 'log': [], 'nested_sets': []}
    reset_db()
    Order.reset(order)
    with db_session:
        old = populate_foreign(db)
    if origin == 0:
        with db_session:
            populate(db)
    try:
        with db_session:
            try:
                cache = db._get_cache()
                if origin != 0:
                    populate(db)
                    if origin == 2: flush()
                if hist:
                    for ename in TOUCHED:
                        for obj in getattr(db, ename).select().order_by(lambda o: o.id)[:]:
                            obj.memo = 'touched'
                    if hist == 2: flush()
                if preload: load_everything(db, cache)
                c = Ctx(db, old)
                ops = _follow_operands(c, follow)
                call = prepare(c)
                if with_call:
                    before = snapshot(cache)
                    Fault.arm(k)
                    try:
                        call()
                    except Exception as e:
                        res['raised'] = '%s: %s' % (type(e).__name__, str(e)[:120])
                    finally:
                        Fault.disarm()
                    res['calls'], res['hit'], res['log'], res['nested_sets'] = Fault.n, Fault.hit, list(Fault.log), list(Fault.nested_sets)
                    if res['raised'] is None:
                        rollback()
                        return res                                  # the property says nothing about calls that succeed
                    after = snapshot(cache)
                    d = diff(before, after) if (preload or (origin == 1 and not hist)) else subset_diff(before, after)
                    res['problems'].extend('R1 same-run snapshot: ' + x for x in d)
                if follow:
                    try: _follow(c, follow, ops)
                    except Exception as e: res['follow_error'] = type(e).__name__
                try:
                    load_everything(db, cache)
                    res['state'] = snapshot(cache)
                except Exception as e:
                    res['state'] = 'reading the whole session raised %s: %s' % (type(e).__name__, str(e)[:160])
                try:
                    commit()
                except Exception as e:
                    res['commit_error'] = '%s: %s' % (type(e).__name__, str(e)[:160])
                    rollback()
            finally:
                Fault.disarm()
        res['db'] = dump_db()
    except Exception as e:
        res['problems'].append('session machinery raised %s: %s' % (type(e).__name__, str(e)[:200]))
        res['db'] = None
        try: rollback()
        except Exception: pass
    return res


def _run_path(si, k, origin, hist, preload, follow, order=0):
    """-> (holds, reasons, result of the test run)"""
    bound = kmax(si)
    key = (si, origin, hist, preload, follow, order)
    ref = _S['ref'].get(key)
    if ref is None:
        ref = _S['ref'][key] = _execute(si, 0, origin, hist, preload, follow, with_call=False, order=order)
    res = _execute(si, k, origin, hist, preload, follow, with_call=True, order=order)
    why = list(res['problems'])
    if ref['problems']: why.append('reference run: %r' % ref['problems'])
    if res['calls'] > bound:
        why.append('R4 %d counted calls, bound %d' % (res['calls'], bound))
    if k and res['calls'] >= k and not res['hit']: why.append('R4 fault %d was not injected' % k)
    if res['raised'] is not None:
        if isinstance(res.get('state'), str) or isinstance(ref.get('state'), str):
            if res.get('state') != ref.get('state'): why.append('R2 %s (reference: %s)' % (res.get('state'), str(ref.get('state'))[:60]))
        else:
            why.extend('R2 against the reference run: ' + x for x in diff(ref['state'], res['state']))
        if res['follow_error'] != ref['follow_error']:
            why.append('R2 follow-up operation: %r, in the reference run: %r' % (res['follow_error'], ref['follow_error']))
        if res['commit_error'] != ref['commit_error']:
            why.append('R3 commit: %r, in the reference run: %r' % (res['commit_error'], ref['commit_error']))
        if res.get('db') != ref.get('db'):
            why.extend('R3 database after commit: ' + x for x in diff(ref.get('db') or {}, res.get('db') or {}))
    return (not why), why, res


# ---------------------------------------------------------------------------------------------------- classification
KEYS = ('undo-keyerror-on-unloaded-attribute', 'set-failed-nothing-undone', 'cascade-delete-undo-assertion',
        'failed-create-stays-in-identity-map', 'undone-delete-of-new-object-loses-its-insert',
        'refused-delete-leaves-collection-emptied', 'modified-flag-left-set')


def explains(key, si, res, reason):
    """Does defect class `key` account for this one difference on this path?  (Symptom patterns; the classes whose undo chain is
    cut short - an exception inside an undo closure, set() that registers no undo at all - account for anything left behind.)"""
    import re
    fam, name, _ = SCENARIOS[si]
    raised = res.get('raised') or ''
    if reason.startswith('R4') or reason.startswith('reference run') or reason.startswith('session machinery'): return False
    if key == 'modified-flag-left-set': return '/modified:' in reason
    if '/modified:' in reason: return False
    if key == 'undo-keyerror-on-unloaded-attribute': return raised.startswith('KeyError')
    if key == 'set-failed-nothing-undone': return fam == 'set' or 'set()' in name
    if key == 'cascade-delete-undo-assertion': return raised.startswith('AssertionError') and not (fam == 'set' or 'set()' in name)
    if key == 'failed-create-stays-in-identity-map':       # everything that mentions the object the constructor was making (pk 9 / 99)
        return (fam == 'create' or 'create' in name) and re.search(r"\('\w+', 9+\)|\.id/9+:", reason) is not None
    if key == 'undone-delete-of-new-object-loses-its-insert':
        return re.search(r'/save_pos: \d+ -> None|/to_save: |R3 database after commit', reason) is not None and 'injected' not in reason
    if key == 'refused-delete-leaves-collection-emptied':      # only the collections a (cascading) delete emptied through a nested Set.__set__
        for oid, ent, attr in res.get('nested_sets') or ():
            if ('/objects/%s/vals/%s' % (oid, attr)) in reason: return True
            if ('/modified_collections/%s.%s' % (ent, attr)) in reason and oid in reason: return True
        return False
    return False


TOLERATE = set(x for x in os.environ.get('C13_TOLERATE', '').split(',') if x)      # set by checks/c13.py for re-check rounds
ONLY_FLAG = [False]


def classify_path(si, res, why):
    """-> (holds, key): the path holds when every difference is accounted for by a tolerated class; otherwise `key` is the first
    class of KEYS (not tolerated) that accounts for one of the remaining differences, or None (an unknown kind of failure)."""
    rest = [w for w in why if not any(explains(k, si, res, w) for k in KEYS if k in TOLERATE)]
    if not rest: return True, None
    for k in KEYS:
        if k not in TOLERATE and any(explains(k, si, res, w) for w in rest): return False, k
    return False, None


def judge(si, k, origin, hist, preload, follow, order=0):
    """-> [holds, key, reasons, info]  (JSON-able; this is what the helper process returns)"""
    base = None
    if follow:
        # a follow-up is only evaluated on a session that is clean without it; otherwise the path is the follow-up-free path
        # (what a later operation does to an already damaged session belongs to the defect that damaged it)
        bkey = (si, k, origin, hist, preload, order)
        base = _S.setdefault('base', {}).get(bkey)
        if base is None: base = _S['base'][bkey] = _run_path(si, k, origin, hist, preload, 0, order)
        if [w for w in base[1] if '/modified:' not in w]: follow = 0
    good, why, res = base if (base is not None and follow == 0) else _run_path(si, k, origin, hist, preload, follow, order)
    if ONLY_FLAG[0]: why = [w for w in why if '/modified:' in w or w.startswith('R4')]
    else: why = [w for w in why if '/modified:' not in w]
    holds, key = classify_path(si, res, why)
    info = dict(scenario='%s: %s' % SCENARIOS[si][:2], raised=res['raised'], injected=res['hit'], calls=res['calls'], steps=res['log'],
                commit=res['commit_error'])
    return [holds, key, why, info]


def explain(fn, s, k, mode, order=0, follow=0):
    """untraced, in-process re-run of one path of harness `fn` -> [holds, key, reasons, info]"""
    only_flag = HARNESSES[fn][1]
    lst, modes = scenarios_of(fn), modes_of(fn)
    si = lst[min(max(s, 0), len(lst) - 1)][0]
    o, h, p = modes[min(max(mode, 0), len(modes) - 1)]
    ONLY_FLAG[0] = only_flag
    return judge(si, min(max(k, 0), kmax(si)), o, h, p, min(max(follow, 0), N_FOLLOW - 1) if FOLLOW else 0, 1 if order else 0)


# ---------------------------------------------------------------------------------------------------- helper process
class Helper(object):
    """Under CrossHair the concrete sessions run in a helper PROCESS.  CrossHair instruments the interpreter it runs in
    (process-wide): with tracing suspended (NoTracing) the same session still costs 37 ms instead of 8 ms, in the harness
    thread as well as in any other thread (both measured).  The helper is a plain interpreter that imports this module and the
    same pony tree; the harness process makes the symbolic decisions, sends the concrete (scenario, k, history) and gets the
    verdict back.  Replays and explain() run in-process."""
    proc = None

    @classmethod
    def call(cls, what, *args):
        import json, subprocess, sys
        if cls.proc is None or cls.proc.poll() is not None:
            root = os.path.dirname(os.path.dirname(os.path.abspath(__file__)))
            code = 'import sys; sys.path.insert(0, %r); from checks import h_c13; h_c13.helper_main()' % root
            cls.proc = subprocess.Popen([sys.executable, '-c', code], stdin=subprocess.PIPE, stdout=subprocess.PIPE, text=True, bufsize=1)
        cls.proc.stdin.write(json.dumps([what] + list(args)) + '\n')
        cls.proc.stdin.flush()
        line = cls.proc.stdout.readline()
        if not line: raise RuntimeError('C13 helper process died')
        kind, val = json.loads(line)
        if kind != 'ok': raise RuntimeError('C13 helper: ' + val)
        return val


def helper_main():
    import json, sys, traceback
    out = os.fdopen(os.dup(sys.stdout.fileno()), 'w', buffering=1)
    sys.stdout = sys.stderr
    _setup()
    for line in sys.stdin:
        req = json.loads(line)
        try:
            if req[0] == 'kmax': val = kmax(req[1])
            elif req[0] == 'judge':
                ONLY_FLAG[0] = req[1]
                val = judge(*req[2:])[:2]
            else: raise ValueError(req[0])
            out.write(json.dumps(['ok', val]) + '\n')
        except BaseException as e:
            out.write(json.dumps(['error', traceback.format_exc()[-1500:]]) + '\n')


# ---------------------------------------------------------------------------------------------------- harnesses
# (origin, hist, preload) combinations.  Quick tier: the first N_QUICK_MODES; thorough tier: all 18.
MODES = [(0, 0, 0), (0, 0, 1), (0, 1, 0), (0, 1, 1), (0, 2, 0), (0, 2, 1), (1, 0, 0), (2, 0, 0), (2, 1, 0), (2, 2, 1),
         (1, 1, 0), (1, 2, 0), (1, 0, 1), (1, 1, 1), (1, 2, 1), (2, 0, 1), (2, 1, 1), (2, 2, 0)]
N_QUICK_MODES = 10
N_MODES = len(MODES) if os.environ.get('C13_ALL_MODES') == '1' else N_QUICK_MODES
KCAP = 64


def _pick(x, n):
    """explicit branching (bisection, one solver decision per comparison) turns the symbolic int into a concrete one in
    range(n); crosshair's realize() never lets the search exhaust"""
    lo, hi = 0, n - 1
    while lo < hi:
        mid = (lo + hi) // 2
        if x <= mid: hi = mid
        else: lo = mid + 1
    return lo


def _harness(fn, s, k, mode, order, follow):
    from crosshair import NoTracing
    from crosshair.tracers import is_tracing
    traced = is_tracing()
    only_flag = HARNESSES[fn][1]
    lst, modes = scenarios_of(fn), modes_of(fn)
    si = lst[_pick(s, len(lst))][0]
    with NoTracing():
        bound = Helper.call('kmax', si) if traced else kmax(si)
    kk = _pick(k, bound + 1)
    o, h, p = modes[_pick(mode, len(modes))]
    f = _pick(follow, N_FOLLOW) if FOLLOW and not only_flag else 0       # the flag harnesses need no follow-up
    od = 0 if only_flag else (1 if order else 0)                         # ... and one walk order
    with NoTracing():
        if traced: holds, key = Helper.call('judge', only_flag, si, kk, o, h, p, f, od)
        else:                          # replay of a counterexample (untraced, in-process)
            ONLY_FLAG[0] = only_flag
            holds, key = judge(si, kk, o, h, p, f, od)[:2]
    return holds


def scenarios_of(fn):
    """the scenarios of harness fn: a family, or every n-th scenario of it (the big families are split to run in parallel)"""
    fam, only_flag, part = HARNESSES[fn]
    lst = family(fam)
    return lst if part is None else lst[part[0]::part[1]]


def modes_of(fn):
    """session histories of harness fn.  The modified_flag harnesses only use histories that leave cache.modified False before
    the call (no pending unrelated changes, nothing created and unflushed): otherwise the flag is set anyway."""
    lst = MODES[:N_MODES]
    if HARNESSES[fn][1]: lst = [m for m in lst if m[0] != 1 and m[1] != 1]
    return lst


def _n(fn):
    return len(scenarios_of(fn))


def _m(fn):
    return len(modes_of(fn))


HARNESSES = {'create_a': ('create', False, (0, 2)), 'create_b': ('create', False, (1, 2)), 'assign': ('assign', False, None),
             'set_call': ('set', False, (0, 2)), 'set_call_b': ('set', False, (1, 2)), 'one_to_one': ('o2o', False, None), 'coll_add': ('add', False, None),
             'coll_remove': ('remove', False, None), 'coll_set': ('collset', False, None),
             'delete_a': ('delete', False, (0, 2)), 'delete_b': ('delete', False, (1, 2)), 'mixed': ('mixed', False, None),
             'modified_flag_assign': ('assign', True, None), 'modified_flag_delete': ('delete', True, None)}


def create_a(s: int, k: int, mode: int, order: bool, follow: int) -> bool:
    """
    pre: 0 <= s < _n('create_a') and 0 <= k <= KCAP and 0 <= mode < _m('create_a') and 0 <= follow < N_FOLLOW
    post: _
    """
    return ok(_harness('create_a', s, k, mode, order, follow))


def create_b(s: int, k: int, mode: int, order: bool, follow: int) -> bool:
    """
    pre: 0 <= s < _n('create_b') and 0 <= k <= KCAP and 0 <= mode < _m('create_b') and 0 <= follow < N_FOLLOW
    post: _
    """
    return ok(_harness('create_b', s, k, mode, order, follow))


def assign(s: int, k: int, mode: int, order: bool, follow: int) -> bool:
    """
    pre: 0 <= s < _n('assign') and 0 <= k <= KCAP and 0 <= mode < _m('assign') and 0 <= follow < N_FOLLOW
    post: _
    """
    return ok(_harness('assign', s, k, mode, order, follow))


def set_call(s: int, k: int, mode: int, order: bool, follow: int) -> bool:
    """
    pre: 0 <= s < _n('set_call') and 0 <= k <= KCAP and 0 <= mode < _m('set_call') and 0 <= follow < N_FOLLOW
    post: _
    """
    return ok(_harness('set_call', s, k, mode, order, follow))


def set_call_b(s: int, k: int, mode: int, order: bool, follow: int) -> bool:
    """
    pre: 0 <= s < _n('set_call_b') and 0 <= k <= KCAP and 0 <= mode < _m('set_call_b') and 0 <= follow < N_FOLLOW
    post: _
    """
    return ok(_harness('set_call_b', s, k, mode, order, follow))


def one_to_one(s: int, k: int, mode: int, order: bool, follow: int) -> bool:
    """
    pre: 0 <= s < _n('one_to_one') and 0 <= k <= KCAP and 0 <= mode < _m('one_to_one') and 0 <= follow < N_FOLLOW
    post: _
    """
    return ok(_harness('one_to_one', s, k, mode, order, follow))


def coll_add(s: int, k: int, mode: int, order: bool, follow: int) -> bool:
    """
    pre: 0 <= s < _n('coll_add') and 0 <= k <= KCAP and 0 <= mode < _m('coll_add') and 0 <= follow < N_FOLLOW
    post: _
    """
    return ok(_harness('coll_add', s, k, mode, order, follow))


def coll_remove(s: int, k: int, mode: int, order: bool, follow: int) -> bool:
    """
    pre: 0 <= s < _n('coll_remove') and 0 <= k <= KCAP and 0 <= mode < _m('coll_remove') and 0 <= follow < N_FOLLOW
    post: _
    """
    return ok(_harness('coll_remove', s, k, mode, order, follow))


def coll_set(s: int, k: int, mode: int, order: bool, follow: int) -> bool:
    """
    pre: 0 <= s < _n('coll_set') and 0 <= k <= KCAP and 0 <= mode < _m('coll_set') and 0 <= follow < N_FOLLOW
    post: _
    """
    return ok(_harness('coll_set', s, k, mode, order, follow))


def delete_a(s: int, k: int, mode: int, order: bool, follow: int) -> bool:
    """
    pre: 0 <= s < _n('delete_a') and 0 <= k <= KCAP and 0 <= mode < _m('delete_a') and 0 <= follow < N_FOLLOW
    post: _
    """
    return ok(_harness('delete_a', s, k, mode, order, follow))


def delete_b(s: int, k: int, mode: int, order: bool, follow: int) -> bool:
    """
    pre: 0 <= s < _n('delete_b') and 0 <= k <= KCAP and 0 <= mode < _m('delete_b') and 0 <= follow < N_FOLLOW
    post: _
    """
    return ok(_harness('delete_b', s, k, mode, order, follow))


def mixed(s: int, k: int, mode: int, order: bool, follow: int) -> bool:
    """
    pre: 0 <= s < _n('mixed') and 0 <= k <= KCAP and 0 <= mode < _m('mixed') and 0 <= follow < N_FOLLOW
    post: _
    """
    return ok(_harness('mixed', s, k, mode, order, follow))


def modified_flag_assign(s: int, k: int, mode: int, order: bool, follow: int) -> bool:
    """
    pre: 0 <= s < _n('modified_flag_assign') and 0 <= k <= KCAP and 0 <= mode < _m('modified_flag_assign') and 0 <= follow < N_FOLLOW
    post: _
    """
    return ok(_harness('modified_flag_assign', s, k, mode, order, follow))


def modified_flag_delete(s: int, k: int, mode: int, order: bool, follow: int) -> bool:
    """
    pre: 0 <= s < _n('modified_flag_delete') and 0 <= k <= KCAP and 0 <= mode < _m('modified_flag_delete') and 0 <= follow < N_FOLLOW
    post: _
    """
    return ok(_harness('modified_flag_delete', s, k, mode, order, follow))
