"""C19 - connections and the SQLite transaction lock are always released (CrossHair, symbolic fault positions)."""
import os
from engine.core import Report
from engine import ch


def classify(spec, cex):
    return None


def run(tier, seed, only=None):
    rep = Report('C19', 'fault_enumeration', 'x')
    T = 150 if tier == 'quick' else 900
    from checks import h_c19
    specs = [dict(module='checks.h_c19', fn=f, cond_timeout=T, path_timeout=T / 2, setup='setup') for f in h_c19.HARNESSES]
    if only: specs = [s for s in specs if only in s['fn']]
    ch.run_harnesses(rep, specs, classify)
    return rep
