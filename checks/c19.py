"""C19 - connections and the SQLite transaction lock are always released.

CrossHair over whole real sessions on the recording fake DB-API (engine/fakedb.py); the positions of the failing
DB-API calls, the body outcome, the mid-session action and the exception class are symbolic.  See checks/h_c19.py
for the scenario, the reference statement R1-R6 and every assumption.
"""
import os
from engine.core import Report
from engine import ch

KNOWN_REGION_NOTE = ('SessionCache.prepare_connection_for_query_execution returns the connection it read BEFORE its '
                     'auto-flush; when the flush reconnects (PostgreSQL/MySQL/Oracle "connection lost" errors) the '
                     'caller goes on with the closed connection. The main pg_*/my_* harnesses exclude exactly the '
                     '"used after close" assertion for such a stale connection and the reconnect_stale_* harnesses '
                     'assert it strictly.')


def classify(spec, cex):
    """Stable keys for the genuine defects; decided from the reasons of an untraced re-run of the harness."""
    from checks import h_c19 as h
    h.setup()
    try:
        r, why, journal = h.explain(spec['fn'], **cex)
    except Exception:
        return None
    if r: return None
    text = ' ; '.join(why)
    if "has no attribute 'pid'" in text:
        return 'sqlitepool-partial-connect-no-pid'
    if spec['fn'].startswith('reconnect_stale') and 'used after close' in text and h.STALE:
        return 'stale-connection-after-reconnect-in-autoflush'
    return None


def run(tier, seed, only=None):
    from pony.orm import core, dbapiprovider as dp
    from pony.orm.dbproviders import sqlite as ps
    from engine import env
    env.install_driver_stubs()
    from pony.orm.dbproviders import postgres as ppg, mysql as pmy
    rep = Report('C19', 'fault_enumeration',
                 'CrossHair explores whole real sessions (db_session / SessionCache / SQLiteProvider lock code / Pool, SQLitePool, '
                 'PGPool) over a recording fake DB-API: the numbers of the DB-API calls that raise (two positions, three in the '
                 'thorough tier), the exception class, whether the body raises and the mid-session action are symbolic. After '
                 'every session: transaction lock free and balanced, no session state left, every connection pooled-and-clean '
                 'or closed exactly once and never used afterwards, checkouts == returns; a following session in the same '
                 'thread and one in another thread run to completion. Only "Confirmed over all paths" counts.')
    S, P, D = core.SessionCache, ps.SQLiteProvider, dp.DBAPIProvider
    rep.fn(core.DBSessionContextManager._commit_or_rollback, core.commit, core.rollback, core.Database._exec_sql,
           core.Database.disconnect, S.connect, S.reconnect, S.prepare_connection_for_query_execution, S.commit, S.close,
           S.flush_and_commit, P.acquire_lock, P.release_lock, P.set_transaction_mode, P.commit, P.rollback, P.drop, P.release,
           D.commit, D.rollback, D.release, D.drop, dp.Pool.connect, dp.Pool.release, dp.Pool.drop, dp.Pool.disconnect,
           ps.SQLitePool._connect, ps.SQLitePool.drop, ps.SQLitePool.disconnect, ppg.PGPool.release, ppg.PGPool._connect,
           ppg.PGProvider.set_transaction_mode, pmy.MySQLProvider.set_transaction_mode, pmy.MySQLProvider.release)
    T = 150 if tier == 'quick' else 1200
    if tier == 'thorough':          # read by checks/h_c19.py in the worker processes
        os.environ['C19_K3MAX'] = os.environ.get('C19_NMAX', '80')
        os.environ['C19_ARMED2'] = '1'
        # C19_FULL=1 (fault pairs for exception classes 1 and 2 as well) is left to manual runs: with the second armed
        # session it is ~12000-17000 paths and 7-12 minutes per harness (measured: file_opt confirmed in 690 s)
    from checks import h_c19
    specs = [dict(module='checks.h_c19', fn=f, cond_timeout=T, path_timeout=T / 2, setup='setup') for f in h_c19.HARNESSES]
    if only: specs = [s for s in specs if only in s['fn']]
    rep.bounds = {
        'fault positions': 'k1 < k2 over every numbered DB-API call of the armed phase (quick); a second armed session, and k1 < k2 < k3 for exception class 0 / mid <= 3 (thorough); '
                           'the harness fails if a path makes more than NMAX=%d armed calls' % h_c19.NMAX,
        'fault points': 'connect, cursor, execute, executemany, commit, rollback, close (incl. the PRAGMAs inside SQLitePool._connect, DISCARD ALL inside PGPool.release)',
        'session shapes': list(h_c19.SHAPES), 'body raises': [False, True],
        'mid-session action': ['none', 'commit()', 'rollback()', 'flush()', 'db.commit()', 'db.rollback()', 'raw db.execute()', 'nested db_session'],
        'exception class': ['driver OperationalError (reconnectable for pg/mysql)', 'driver IntegrityError', 'non-DB-API exception'] +
                           ['classes 1, 2 with a single fault position only (C19_FULL=1 lifts this)'],
        'pools': ['SQLitePool(file)', "SQLitePool(':memory:')", 'PGPool', 'Pool under MySQLProvider'],
        'threads': 'one faulted thread; the follow-up session is run both in the same and in a fresh thread (no schedules)',
    }
    rep.assumptions = [
        'fake DB-API (engine/fakedb.py): a faulted call has no effect; SQLite transaction model = explicit BEGIN..commit()/rollback(), BEGIN inside a '
        'transaction raises OperationalError; PEP 249 implicit-transaction model for PostgreSQL/MySQL; calls on a closed connection raise "already closed"',
        'provider.transaction_lock / pre_transaction_lock replaced by fakedb.ProbeLock (a real threading.Lock probed with acquire(False); raises instead of blocking)',
        'pony.orm.core.time stubbed to a constant; pony.orm.dbproviders.sqlite.sqlite (the driver module global) points at the recording module',
        'the pool classes are subclassed only to count connect/release/drop calls; SessionCache.prepare_connection_for_query_execution is wrapped by a '
        'delegating observer (known region below)',
        "':memory:' pool: rollback() refused twice in a row on the only connection is tolerated (nothing can be done without destroying the database)",
        'SQLite harnesses start from the per-thread pool state DBAPIProvider.__init__ leaves behind (pid set); fresh_thread_file starts from a thread that never connected',
        'the concrete bulk of each path runs with CrossHair\'s opcode tracer switched off (fakedb.untraced); tracing is on for every comparison of a symbolic '
        'fault number with the call counter, which is the only place symbolic data is used',
        'known region: ' + KNOWN_REGION_NOTE,
    ]
    rep.trusted = ['crosshair-tool 0.0.110', 'z3', 'engine/fakedb.py (driver model, ProbeLock)', 'reference R1-R6 in checks/h_c19.py',
                   'threading.Lock hand-over between threads (thread schedules are outside the check)']
    ch.run_harnesses(rep, specs, classify)
    if not only: tie_real_sqlite(rep)
    return rep


def tie_real_sqlite(rep):
    """Concrete tie (NOT solver-quantified; reported as 'concrete-tie' obligations): the same single-fault scenarios on the
    real sqlite3 engine and a real database file through the public API only - the fault is injected by a
    sqlite3.Connection/Cursor subclass passed with the documented `factory=` connect argument.  Ties the fake-driver model
    of the harnesses to the real driver: after every faulted session the provider's real lock is free, no session state is
    left, and a following immediate write session commits."""
    import shutil, sqlite3, tempfile
    from engine.core import Ob, HOLDS, CEX
    from pony.orm import Database, PrimaryKey, Required, db_session, select, core
    from pony.orm.dbproviders import sqlite as _ps
    _ps.sqlite = sqlite3                      # classify()/explain() may have left the recording driver (with armed faults) in place
    core.local.db2cache.clear(); core.local.db_session = None; core.local.db_context_counter = 0

    class Plan(object):
        k = n = 0
        armed = False

    def tick(op):
        if Plan.armed:
            Plan.n += 1
            if Plan.n == Plan.k: raise sqlite3.OperationalError('injected fault in %s' % op)

    class Cur(sqlite3.Cursor):
        def execute(self, *a):
            tick('execute'); return sqlite3.Cursor.execute(self, *a)
        def executemany(self, *a):
            tick('executemany'); return sqlite3.Cursor.executemany(self, *a)

    class Con(sqlite3.Connection):
        def __init__(self, *a, **kw):
            tick('connect'); sqlite3.Connection.__init__(self, *a, **kw)
        def cursor(self, *a, **kw):
            tick('cursor'); return sqlite3.Connection.cursor(self, Cur)
        def execute(self, *a):
            tick('execute'); return sqlite3.Connection.execute(self, *a)
        def commit(self):
            tick('commit'); sqlite3.Connection.commit(self)
        def rollback(self):
            tick('rollback'); sqlite3.Connection.rollback(self)
        def close(self):
            tick('close'); sqlite3.Connection.close(self)

    tmp = tempfile.mkdtemp(prefix='verif_c19_')
    try:
        db = Database()
        db.bind('sqlite', os.path.join(tmp, 'tie.sqlite'), create_db=True, factory=Con, timeout=0.2)

        class T(db.Entity):
            id = PrimaryKey(int, auto=True)
            a = Required(int)
        db.generate_mapping(create_tables=True)
        shapes = {'ro': {}, 'opt': {}, 'imm': dict(immediate=True), 'ser': dict(serializable=True), 'ddl': dict(ddl=True)}
        serial = [0]

        def session(name, raises):
            with db_session(**shapes[name]):
                if name == 'ddl':
                    serial[0] += 1
                    db.execute('CREATE TABLE x%d (a INTEGER)' % serial[0])
                else:
                    select(t for t in T)[:]
                    if name != 'ro': T(a=1)
                if raises: raise KeyError('body')

        for name in shapes:
            for raises in (False, True):
                bad = None
                for k in range(1, 41):
                    Plan.k, Plan.n, Plan.armed = k, 0, True
                    try: session(name, raises)
                    except Exception: pass
                    Plan.armed = False
                    prov = db.provider
                    if prov.transaction_lock.locked() or prov.pre_transaction_lock.locked():
                        bad = (k, 'transaction lock left held'); break
                    if core.local.db2cache or core.local.db_session is not None:
                        bad = (k, 'session state left'); break
                    try:
                        with db_session(immediate=True):
                            T(a=2)
                    except Exception as e:
                        bad = (k, 'following session failed: %s: %s' % (type(e).__name__, e)); break
                    if prov.transaction_lock.locked():
                        bad = (k, 'lock held after the following session'); break
                nm = 'tie:real-sqlite:%s%s:fault 1..40' % (name, ':body-raises' if raises else '')
                if bad:
                    rep.add(Ob(nm, 'concrete-tie', CEX, detail='fault at DB-API call %d: %s' % bad, reproduced=True,
                               cex={'shape': name, 'raises': raises, 'k': bad[0], 'what': bad[1]},
                               replay='# see tie_real_sqlite in /verif/checks/c19.py: shape %s, raises=%r, fault at call %d -> %s\nraise SystemExit(1)\n'
                                      % (name, raises, bad[0], bad[1])))
                    if prov.transaction_lock.locked(): prov.transaction_lock.release()
                else:
                    rep.add(Ob(nm, 'concrete-tie', HOLDS, detail='40 fault positions on the real engine'))
        db.disconnect()
    finally:
        shutil.rmtree(tmp, ignore_errors=True)
