"""C19 - connections and the SQLite transaction lock are always released.

CrossHair over whole real sessions on the recording fake DB-API (engine/fakedb.py); the positions of the failing
DB-API calls, the body outcome, the mid-session action and the exception class are symbolic.  See checks/h_c19.py
for the scenario, the reference statement R1-R6 and every assumption.
"""
import os
from engine.core import Report
from engine import ch

KNOWN_REGION_NOTE = ('SessionCache.prepare_connection_for_query_execution returns the connection it read BEFORE its '
                     'auto-flush; when the flush reconnects (PostgreSQL/MySQL/Oracle "connection lost" errors) the '
                     'caller goes on with the closed connection. The main pg_*/my_* harnesses exclude exactly the '
                     '"used after close" assertion for such a stale connection and the reconnect_stale_* harnesses '
                     'assert it strictly.')


def classify(spec, cex):
    """Stable keys for the genuine defects; decided from the reasons of an untraced re-run of the harness."""
    from checks import h_c19 as h
    h.setup()
    try:
        r, why, journal = h.explain(spec['fn'], **cex)
    except Exception:
        return None
    if r: return None
    text = ' ; '.join(why)
    if "has no attribute 'pid'" in text:
        return 'sqlitepool-partial-connect-no-pid'
    if spec['fn'].startswith('reconnect_stale') and 'used after close' in text and h.STALE:
        return 'stale-connection-after-reconnect-in-autoflush'
    return None


def run(tier, seed, only=None):
    from pony.orm import core, dbapiprovider as dp
    from pony.orm.dbproviders import sqlite as ps
    from engine import env
    env.install_driver_stubs()
    from pony.orm.dbproviders import postgres as ppg, mysql as pmy
    rep = Report('C19', 'fault_enumeration',
                 'CrossHair explores whole real sessions (db_session / SessionCache / SQLiteProvider lock code / Pool, SQLitePool, '
                 'PGPool) over a recording fake DB-API: the numbers of the DB-API calls that raise (two positions, three in the '
                 'thorough tier), the exception class, whether the body raises and the mid-session action are symbolic. After '
                 'every session: transaction lock free and balanced, no session state left, every connection pooled-and-clean '
                 'or closed exactly once and never used afterwards, checkouts == returns; a following session in the same '
                 'thread and one in another thread run to completion. Only "Confirmed over all paths" counts.')
    S, P, D = core.SessionCache, ps.SQLiteProvider, dp.DBAPIProvider
    rep.fn(core.DBSessionContextManager._commit_or_rollback, core.commit, core.rollback, core.Database._exec_sql,
           core.Database.disconnect, S.connect, S.reconnect, S.prepare_connection_for_query_execution, S.commit, S.close,
           S.flush_and_commit, P.acquire_lock, P.release_lock, P.set_transaction_mode, P.commit, P.rollback, P.drop, P.release,
           D.commit, D.rollback, D.release, D.drop, dp.Pool.connect, dp.Pool.release, dp.Pool.drop, dp.Pool.disconnect,
           ps.SQLitePool._connect, ps.SQLitePool.drop, ps.SQLitePool.disconnect, ppg.PGPool.release, ppg.PGPool._connect,
           ppg.PGProvider.set_transaction_mode, pmy.MySQLProvider.set_transaction_mode, pmy.MySQLProvider.release)
    T = 150 if tier == 'quick' else 900
    if tier == 'thorough':          # read by checks/h_c19.py in the worker processes
        os.environ['C19_K3MAX'] = os.environ.get('C19_NMAX', '80')
        os.environ['C19_ARMED2'] = '1'
        os.environ['C19_FULL'] = '1'
    from checks import h_c19
    specs = [dict(module='checks.h_c19', fn=f, cond_timeout=T, path_timeout=T / 2, setup='setup') for f in h_c19.HARNESSES]
    if only: specs = [s for s in specs if only in s['fn']]
    rep.bounds = {
        'fault positions': 'k1 < k2 over every numbered DB-API call of the armed phase (quick); k1 < k2 < k3 and a second armed session (thorough); '
                           'the harness fails if a path makes more than NMAX=%d armed calls' % h_c19.NMAX,
        'fault points': 'connect, cursor, execute, executemany, commit, rollback, close (incl. the PRAGMAs inside SQLitePool._connect, DISCARD ALL inside PGPool.release)',
        'session shapes': list(h_c19.SHAPES), 'body raises': [False, True],
        'mid-session action': ['none', 'commit()', 'rollback()', 'flush()', 'db.commit()', 'db.rollback()', 'raw db.execute()', 'nested db_session'],
        'exception class': ['driver OperationalError (reconnectable for pg/mysql)', 'driver IntegrityError', 'non-DB-API exception'] +
                           (['quick tier: classes 1, 2 with a single fault position only'] if tier == 'quick' else []),
        'pools': ['SQLitePool(file)', "SQLitePool(':memory:')", 'PGPool', 'Pool under MySQLProvider'],
        'threads': 'one faulted thread; the follow-up session is run both in the same and in a fresh thread (no schedules)',
    }
    rep.assumptions = [
        'fake DB-API (engine/fakedb.py): a faulted call has no effect; SQLite transaction model = explicit BEGIN..commit()/rollback(), BEGIN inside a '
        'transaction raises OperationalError; PEP 249 implicit-transaction model for PostgreSQL/MySQL; calls on a closed connection raise "already closed"',
        'provider.transaction_lock / pre_transaction_lock replaced by fakedb.ProbeLock (a real threading.Lock probed with acquire(False); raises instead of blocking)',
        'pony.orm.core.time stubbed to a constant; pony.orm.dbproviders.sqlite.sqlite (the driver module global) points at the recording module',
        'the pool classes are subclassed only to count connect/release/drop calls; SessionCache.prepare_connection_for_query_execution is wrapped by a '
        'delegating observer (known region below)',
        "':memory:' pool: rollback() refused twice in a row on the only connection is tolerated (nothing can be done without destroying the database)",
        'SQLite harnesses start from the per-thread pool state DBAPIProvider.__init__ leaves behind (pid set); fresh_thread_file starts from a thread that never connected',
        'the concrete bulk of each path runs with CrossHair\'s opcode tracer switched off (fakedb.untraced); tracing is on for every comparison of a symbolic '
        'fault number with the call counter, which is the only place symbolic data is used',
        'known region: ' + KNOWN_REGION_NOTE,
    ]
    rep.trusted = ['crosshair-tool 0.0.110', 'z3', 'engine/fakedb.py (driver model, ProbeLock)', 'reference R1-R6 in checks/h_c19.py',
                   'threading.Lock hand-over between threads (thread schedules are outside the check)']
    ch.run_harnesses(rep, specs, classify)
    return rep
