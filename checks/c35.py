"""C35 - locked rows and serializable sessions cannot be overwritten concurrently (MECHANISM ONLY).

CrossHair over whole real sessions on the recording fake DB-API (engine/fakedb.py): the option flags (for_update,
nowait, skip_locked, lookup style, serializable, optimistic, immediate, whether the session writes, an explicit
commit(), what was read before, the kind of rival session started in another thread) are symbolic.  See
checks/h_c35.py for the programs, the reference statement L1-L7 / P1-P5 and every assumption.
"""
import os
from engine.core import Report
from engine import ch


def classify(spec, cex):
    return None


def run(tier, seed, only=None):
    from pony.orm import core, sqlbuilding
    from pony.orm.dbproviders import sqlite as ps
    from engine import env
    env.install_driver_stubs()
    from pony.orm.dbproviders import postgres as ppg
    rep = Report('C35', 'fault_enumeration',
                 'Mechanism only. CrossHair chooses every combination of the locking options (for_update / get_for_update in four lookup '
                 'styles, nowait, skip_locked), the session flags (serializable, optimistic, immediate), whether the session writes, an '
                 'explicit commit(), what was read before the lookup and the kind of rival session started in another thread; the real '
                 'db_session / lookup / query / flush code then runs on the real SQLite and PostgreSQL providers and pools over a '
                 'recording fake DB-API (each path one concrete run). Asserted on the call journal: SQLite - BEGIN IMMEDIATE TRANSACTION '
                 'under the provider lock before the first SELECT of a locking lookup or of a serializable/immediate/non-optimistic '
                 'session, the lock held at every call until commit/rollback, a rival writer in another thread would block and sends '
                 'nothing, locked objects are in cache.for_update and are updated without optimistic criteria while every unlocked object of '
                 'an optimistic session is updated WITH them; PostgreSQL - the SELECT ends in FOR UPDATE [NOWAIT| SKIP LOCKED] exactly as '
                 'requested, autocommit is off before it and until commit, SET TRANSACTION ISOLATION LEVEL SERIALIZABLE opens every '
                 'transaction of a serializable session. Three small kernels (transaction-mode decision on both providers, the FOR UPDATE '
                 'builders) run fully traced with symbolic booleans. Only "Confirmed over all paths" counts. Whether SQLite / PostgreSQL '
                 'then really block a concurrent writer is outside the check.')
    S, P, E, Q = core.SessionCache, ps.SQLiteProvider, core.EntityMeta, core.Query
    rep.fn(core.DBSessionContextManager.__init__, core.DBSessionContextManager._commit_or_rollback, core.commit,
           E.get_for_update, E.get, E._find_one_, E._find_in_cache_, E._find_in_db_, E._construct_sql_, E._fetch_objects,
           E._get_from_identity_map_, Q.for_update, Q._actual_fetch, Q._construct_sql_and_arguments, core.Entity._save_updated_,
           core.Database._exec_sql, S.prepare_connection_for_query_execution, S.connect, S.commit, S.close,
           P.set_transaction_mode, P.acquire_lock, P.release_lock, P.commit, P.rollback, ppg.PGProvider.set_transaction_mode,
           ppg.PGPool.release, sqlbuilding.SQLBuilder.SELECT_FOR_UPDATE, ps.SQLiteBuilder.SELECT_FOR_UPDATE)
    T = 150 if tier == 'quick' else 900
    os.environ.pop('C35_MUTANT', None)                            # canary hook (development only) is never active here
    if tier == 'thorough': os.environ['C35_THOROUGH'] = '1'      # read by checks/h_c35.py in the worker processes
    from checks import h_c35
    specs = [dict(module='checks.h_c35', fn=f, cond_timeout=T, path_timeout=T / 2, setup='setup')
             for f in h_c35.E_HARNESSES + h_c35.K_HARNESSES]
    if only: specs = [s for s in specs if only in s['fn']]
    thorough = tier == 'thorough'
    rep.bounds = {
        'lookup styles': ['T.get(id=1) / T.get_for_update(id=1, ...)', 'T.get(lambda) / T.get_for_update(lambda, ...)',
                          'select(x for x in T if x.id == 1)[.for_update(nw, sk)][:]', 'T.select(lambda x: x.a > 0)[.for_update(...)].first()'],
        'flags': 'for_update, nowait, skip_locked (nowait+skip_locked together: TypeError expected), serializable, optimistic, immediate, writes: all 2^k combinations',
        'mid': ['nothing', 'commit() between lookup and write'] + (['flush() after the write + the lookup again', 'commit() + the lookup again'] if thorough else []),
        'read before the lookup': ['nothing', 'plain T.get(id=1) (object cached, not locked)', 'the same lookup without for_update (query result cached)'] +
                                  (['plain select of all rows', 'a locking lookup of another style'] if thorough else []),
        'rival session in another thread (SQLite)': ['none', 'optimistic writer', 'non-optimistic writer', 'get_for_update writer'],
        'data': 'one entity T(id PrimaryKey(int), a Required(int)), one row; one first session, at most one rival started right after the lookup, one writer after the session',
        'traced kernels': 'k_sqlite_mode / k_pg_mode: serializable, optimistic, immediate, ddl, a plain statement first, a lock request '
                          '(cache.immediate set as the locking lookups do), commit() in between, start_transaction of the last statement: symbolic booleans; '
                          'k_builder: nowait, skip_locked, LIMIT present, dialect in {base SQLBuilder, PostgreSQL, SQLite}',
    }
    rep.assumptions = [
        'fake DB-API (engine/fakedb.py): SQLite transaction model = explicit BEGIN..commit()/rollback(); PEP 249 model for PostgreSQL with the autocommit attribute '
        'as psycopg2 has it (initially off); SELECTs on the table answer the one row, an UPDATE reports rowcount 1',
        'provider.transaction_lock / pre_transaction_lock replaced by fakedb.ProbeLock (a real threading.Lock probed with acquire(False); raises WouldBlock instead of blocking): '
        '"the rival would block" is read off that exception',
        'checks/h_c35.py SnapRecorder subclasses fakedb.Recorder only to snapshot (lock held, autocommit, in_tx) at every DB-API call',
        'pony.orm.core.time stubbed to a constant; pony.orm.dbproviders.sqlite.sqlite (driver module global) points at the recording module',
        'E-harnesses: the option flags are decided under the tracer, the session itself runs under crosshair.NoTracing with the chosen concrete values '
        '(the traced translator does not finish a path in 150 s); every path is one concrete run',
        'an unlocked optimistic first session may end in UnrepeatableReadError/OptimisticCheckError after a rival legitimately committed (allowed by "wait or fail") provided it sent no UPDATE afterwards',
        'not asserted: behaviour of a NON-optimistic session after its own explicit commit() (lock released with the transaction, later UPDATE unconditional: documented meaning of optimistic=False)',
    ]
    rep.trusted = ['crosshair-tool 0.0.110', 'z3', 'engine/fakedb.py (driver model, ProbeLock)', 'reference L1-L7 / P1-P5 in checks/h_c35.py',
                   'that SQLite honours BEGIN IMMEDIATE and PostgreSQL honours FOR UPDATE / SERIALIZABLE (no engine runs); thread schedules']
    ch.run_harnesses(rep, specs, classify)
    return rep
