"""C35 - locked rows and serializable sessions cannot be overwritten concurrently (MECHANISM ONLY).

CrossHair over whole real sessions on the recording fake DB-API (engine/fakedb.py): the option flags (for_update,
nowait, skip_locked, lookup style, serializable, optimistic, immediate, whether the session writes, an explicit
commit(), what was read before, the kind of rival session started in another thread) are symbolic.  See
checks/h_c35.py for the programs, the reference statement L1-L7 / P1-P5 and every assumption.
"""
import os
from engine.core import Report
from engine import ch


def classify(spec, cex):
    return None


def run(tier, seed, only=None):
    from pony.orm import core, sqlbuilding
    from pony.orm.dbproviders import sqlite as ps
    from engine import env
    env.install_driver_stubs()
    from pony.orm.dbproviders import postgres as ppg
    rep = Report('C35', 'fault_enumeration',
                 'Mechanism only. CrossHair chooses every combination of the locking options (for_update / get_for_update in four lookup '
                 'styles, nowait, skip_locked), the session flags (serializable, optimistic, immediate), whether the session writes, an '
                 'explicit commit(), what was read before the lookup and the kind of rival session started in another thread; the real '
                 'db_session / lookup / query / flush code then runs on the real SQLite and PostgreSQL providers and pools over a '
                 'recording fake DB-API (each path one concrete run). Asserted on the call journal: SQLite - BEGIN IMMEDIATE TRANSACTION '
                 'under the provider lock before the first SELECT of a locking lookup or of a serializable/immediate/non-optimistic '
                 'session, the lock held at every call until commit/rollback, a rival writer in another thread would block and sends '
                 'nothing, locked objects are in cache.for_update and are updated without optimistic criteria while every unlocked object of '
                 'an optimistic session is updated WITH them; PostgreSQL - the SELECT ends in FOR UPDATE [NOWAIT| SKIP LOCKED] exactly as '
                 'requested, autocommit is off before it and until commit, SET TRANSACTION ISOLATION LEVEL SERIALIZABLE opens every '
                 'transaction of a serializable session. Three small kernels (transaction-mode decision on both providers, the FOR UPDATE '
                 'builders) run fully traced with symbolic booleans. Only "Confirmed over all paths" counts. Whether SQLite / PostgreSQL '
                 'then really block a concurrent writer is outside the check.')
    S, P, E, Q = core.SessionCache, ps.SQLiteProvider, core.EntityMeta, core.Query
    rep.fn(core.DBSessionContextManager.__init__, core.DBSessionContextManager._commit_or_rollback, core.commit,
           E.get_for_update, E.get, E._find_one_, E._find_in_cache_, E._find_in_db_, E._construct_sql_, E._fetch_objects,
           E._get_from_identity_map_, Q.for_update, Q._actual_fetch, Q._construct_sql_and_arguments, core.Entity._save_updated_,
           core.Database._exec_sql, S.prepare_connection_for_query_execution, S.connect, S.commit, S.close,
           P.set_transaction_mode, P.acquire_lock, P.release_lock, P.commit, P.rollback, ppg.PGProvider.set_transaction_mode,
           ppg.PGPool.release, sqlbuilding.SQLBuilder.SELECT_FOR_UPDATE, ps.SQLiteBuilder.SELECT_FOR_UPDATE)
    T = 240 if tier == 'quick' else 1500         # measured with 16 workers on a machine under load ~30: 100 s per SQLite harness (quick), idle ~25 s
    os.environ.pop('C35_MUTANT', None)                            # canary hook (development only) is never active here
    if tier == 'thorough': os.environ['C35_THOROUGH'] = '1'      # read by checks/h_c35.py in the worker processes
    from checks import h_c35
    specs = [dict(module='checks.h_c35', fn=f, cond_timeout=T, path_timeout=T / 2, setup='setup')
             for f in h_c35.E_HARNESSES + h_c35.K_HARNESSES]
    # a nested `with db_session(serializable=True)` must be refused unless the outer session is serializable (harness of C18's module:
    # it needs the transactional connection model there)
    specs.append(dict(module='checks.h_c18', fn='nested_serializable_refusal', cond_timeout=T, path_timeout=T / 2, setup='setup'))
    # a locking re-fetch of a row whose value the session has already observed fails loudly when the value changed (harness of C21)
    specs.append(dict(module='checks.h_c21', fn='reload_a_locked', cond_timeout=T, path_timeout=T / 2, setup='setup'))
    if only: specs = [s for s in specs if only in s['fn']]
    thorough = tier == 'thorough'
    rep.bounds = {
        'lookup styles': ['T.get(id=1) / T.get_for_update(id=1, ...)', 'T.get(lambda) / T.get_for_update(lambda, ...)',
                          'select(x for x in T if x.id == 1)[.for_update(nw, sk)][:]', 'T.select(lambda x: x.a > 0)[.for_update(...)].first()'],
        'flags': 'for_update, nowait, skip_locked (nowait+skip_locked together: TypeError expected), serializable, optimistic, immediate, writes: all 2^k combinations',
        'mid': ['nothing', 'commit() between lookup and write', 'the body raises at its end (rollback)',
                'write the object, commit(), the lookup again (lock must be re-taken), write again' + ('' if thorough else ' (quick: only with nothing read before)')] +
               (['flush() after the write + the lookup again', 'commit() + the lookup again (object only read before)'] if thorough else []),
        'read before the lookup': ['nothing', 'plain T.get(id=1) (object cached, not locked)', 'the same lookup without for_update (query result cached)',
                                   'an earlier session ran the same locking lookup without nowait/skip_locked (database-wide SQL caches warm)'] +
                                  (['plain select of all rows', 'a locking lookup of another style in the same session'] if thorough else []),
        'rival session in another thread (SQLite)': ['none', 'optimistic writer', 'non-optimistic writer', 'get_for_update writer'],
        'data': 'one entity T(id PrimaryKey(int), a Required(int)), one row; one first session, at most one rival started right after the lookup, one writer after the session',
        'traced kernels': 'k_sqlite_mode / k_pg_mode (64 paths each): serializable, optimistic, immediate, a plain statement first, a lock request '
                          '(cache.immediate set as the locking lookups do), commit() in between: symbolic booleans seen by the real code; '
                          'k_builder: nowait, skip_locked, LIMIT present, dialect in {base SQLBuilder, PostgreSQL, SQLite}',
        'paths': 'quick: 1040 option combinations per SQLite harness (16 harnesses: lookup style x read-only/writing x optimistic/non-optimistic fixed per harness), '
                 '1040 per PostgreSQL harness (4); thorough: 2880 / 2880; every combination is explored exactly once',
        'code objects': 'the plain and the locking variant of every lookup style are built from the same lambda / generator code object (pony keys its translator and SQL caches by it)',
        'concrete tie': '8 kinds of first session x 3 kinds of rival, one schedule each, real sqlite3 + real threads (not solver-quantified)',
    }
    rep.assumptions = [
        'fake DB-API (engine/fakedb.py): SQLite transaction model = explicit BEGIN..commit()/rollback(); PEP 249 model for PostgreSQL with the autocommit attribute '
        'as psycopg2 has it (initially off); SELECTs on the table answer the one row, an UPDATE reports rowcount 1',
        'provider.transaction_lock / pre_transaction_lock replaced by fakedb.ProbeLock (a real threading.Lock probed with acquire(False); raises WouldBlock instead of blocking): '
        '"the rival would block" is read off that exception',
        'checks/h_c35.py SnapRecorder subclasses fakedb.Recorder only to snapshot (lock held, autocommit, in_tx) at every DB-API call',
        'every explored path starts with cold translator / SQL-text caches (db._translator_cache, db._constructed_sql_cache, the entity\'s *_sql_cache_): pony keeps per-location state '
        '(a translator remembers having built a FOR UPDATE statement), so without this the outcome of a path could depend on exploration order',
        'pony.orm.core.time stubbed to a constant; pony.orm.dbproviders.sqlite.sqlite (driver module global) points at the recording module',
        'E-harnesses: the option flags are decided under the tracer, the session itself runs under crosshair.NoTracing with the chosen concrete values '
        '(the traced translator does not finish a path in 150 s); every path is one concrete run',
        'an unlocked optimistic first session may end in UnrepeatableReadError/OptimisticCheckError after a rival legitimately committed (allowed by "wait or fail") provided it sent no UPDATE afterwards',
        'not asserted: behaviour of a NON-optimistic session after its own explicit commit() (lock released with the transaction, later UPDATE unconditional: documented meaning of optimistic=False)',
    ]
    rep.trusted = ['crosshair-tool 0.0.110', 'z3', 'engine/fakedb.py (driver model, ProbeLock)', 'reference L1-L7 / P1-P5 in checks/h_c35.py',
                   'that SQLite honours BEGIN IMMEDIATE and PostgreSQL honours FOR UPDATE / SERIALIZABLE (no engine runs); thread schedules']
    ch.run_harnesses(rep, specs, classify)
    if not only: tie_real_sqlite(rep)
    return rep


def tie_real_sqlite(rep):
    """Concrete tie (NOT solver-quantified; reported as 'concrete-tie' obligations): two real sessions in two threads on the real
    sqlite3 engine and a database file, public API only.  The first session reads the row (locking lookup / serializable /
    immediate / non-optimistic / plain optimistic), signals, waits 0.4 s for the rival, then writes a+1 and ends; the rival
    (optimistic / non-optimistic / get_for_update writer) starts at the signal and writes a+100.  Expected: while a locking
    or serializable first session is open the rival has not finished (it waits), the first session succeeds, nothing hangs,
    and the final value is 10 + the increments of exactly the sessions that reported success (a session may FAIL with
    OptimisticCheckError / UnrepeatableReadError, but a write reported as committed is never lost).  Ties the ProbeLock /
    journal model of the harnesses to the real lock and the real engine for one schedule."""
    import shutil, tempfile, threading
    from engine.core import Ob, HOLDS, CEX
    from pony.orm import Database, PrimaryKey, Required, db_session, select

    tmp = tempfile.mkdtemp(prefix='verif_c35_')
    try:
        db = Database()
        db.bind('sqlite', os.path.join(tmp, 'tie.sqlite'), create_db=True, timeout=2.0)

        class T(db.Entity):
            id = PrimaryKey(int)
            a = Required(int)
        db.generate_mapping(create_tables=True)

        firsts = {
            'get_for_update(id=1)': ({}, lambda: T.get_for_update(id=1), True),
            'get_for_update(lambda)': ({}, lambda: T.get_for_update(lambda x: x.id == 1), True),
            'select().for_update()': ({}, lambda: select(x for x in T if x.id == 1).for_update()[:][0], True),
            'select().for_update().first()': ({}, lambda: T.select(lambda x: x.a > 0).for_update().first(), True),
            'serializable get': (dict(serializable=True), lambda: T.get(id=1), True),
            'immediate get': (dict(immediate=True), lambda: T.get(id=1), True),
            'non-optimistic get': (dict(optimistic=False), lambda: T.get(id=1), True),
            'optimistic get (no lock)': ({}, lambda: T.get(id=1), False),
        }
        rivals = {
            'optimistic writer': ({}, lambda: T.get(id=1)),
            'non-optimistic writer': (dict(optimistic=False), lambda: T.get(id=1)),
            'get_for_update writer': ({}, lambda: T.get_for_update(id=1)),
        }
        for fname, (fkw, flook, locks) in firsts.items():
            for rname, (rkw, rlook) in rivals.items():
                with db_session:
                    db.execute('DELETE FROM T')
                    T(id=1, a=10)
                res = {}
                looked, rival_done = threading.Event(), threading.Event()

                def first():
                    try:
                        with db_session(**fkw):
                            o = flook()
                            v = o.a
                            looked.set()
                            rival_done.wait(0.4)
                            res['rival finished while the first session was open'] = rival_done.is_set()
                            o.a = v + 1
                        res['first'] = 'ok'
                    except Exception as e:
                        res['first'] = type(e).__name__
                    finally:
                        looked.set()

                def rival():
                    looked.wait(10)
                    try:
                        with db_session(**rkw):
                            o = rlook()
                            o.a = o.a + 100
                        res['rival'] = 'ok'
                    except Exception as e:
                        res['rival'] = type(e).__name__
                    finally:
                        rival_done.set()

                ta, tb = threading.Thread(target=first), threading.Thread(target=rival)
                ta.start(); tb.start(); ta.join(20); tb.join(20)
                bad = []
                if ta.is_alive() or tb.is_alive(): bad.append('a session hangs')
                else:
                    with db_session:
                        final = db.get('SELECT a FROM T WHERE id = 1')
                    res['final'] = final
                    want = 10 + (1 if res.get('first') == 'ok' else 0) + (100 if res.get('rival') == 'ok' else 0)
                    if final != want: bad.append('final value %r, the sessions that reported success add up to %r (a committed write was lost)' % (final, want))
                    for k in ('first', 'rival'):
                        if res.get(k) not in ('ok', 'OptimisticCheckError', 'UnrepeatableReadError'): bad.append('%s session: %s' % (k, res.get(k)))
                    if locks:
                        if res.get('rival finished while the first session was open'): bad.append('the rival finished while the locking session was open')
                        if res.get('first') != 'ok': bad.append('the locking session failed: %s' % res.get('first'))
                    if db.provider.transaction_lock.locked(): bad.append('transaction lock left held')
                nm = 'tie:real-sqlite:%s vs %s' % (fname, rname)
                if bad:
                    rep.add(Ob(nm, 'concrete-tie', CEX, detail='; '.join(bad) + ' | %r' % (res,), reproduced=True, cex={'first': fname, 'rival': rname, 'observed': res},
                               replay='# see tie_real_sqlite in /verif/checks/c35.py: first session %s, rival %s -> %s\nraise SystemExit(1)\n' % (fname, rname, '; '.join(bad))))
                    if ta.is_alive() or tb.is_alive(): return          # do not pile up blocked threads
                else:
                    rep.add(Ob(nm, 'concrete-tie', HOLDS, detail=repr(res)))
        db.disconnect()
    finally:
        shutil.rmtree(tmp, ignore_errors=True)
