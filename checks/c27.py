"""C27 - objects keep their class and polymorphic queries are exact (query side).

E1 obligation over two 4-class hierarchies (string and integer discriminators): the discriminator column is symbolic per row
(ranging over the declared codes); z3 decides that the SQL emitted for `select(x for x in Sub)`, isinstance tests (single
class, tuples, negated), subclass-only attributes and references to a polymorphic root selects exactly the rows whose code
belongs to the class or one of its subclasses.
"""
import ast, random
import z3
from engine.core import Report, Ob, CEX, HOLDS, INCONCLUSIVE
from engine import env as E0
from engine.symsql import symdb
from engine.symsql.e1 import Program
from checks import c01

_dbs = {}
# input regions of defects recorded under C01 (NULL handling, division) are not this property's subject: assumed away here
C01_KEYS = [e['key'] for e in __import__('engine.core', fromlist=['load_known']).load_known('C01')]


def get_db(variant):
    if variant in _dbs: return _dbs[variant]
    from pony.orm import Required, Optional, Set, PrimaryKey, Discriminator
    db = E0.sqlite_memory_database()
    if variant == 'str':
        class A(db.Entity):
            id = PrimaryKey(int)
            x = Required(int)
            hs = Set('H', reverse='ref')
            hs2 = Set('H', reverse='ref2')
        class B(A):
            y = Optional(int)
        class C(A):
            z = Optional(int)
        class D(B):
            w = Optional(int)
    elif variant == 'diamond':
        # multiple inheritance: F derives from B and from E, whose path to the root has two steps (A <- C <- E)
        class A(db.Entity):
            id = PrimaryKey(int)
            x = Required(int)
            hs = Set('H', reverse='ref')
            hs2 = Set('H', reverse='ref2')
        class B(A):
            y = Optional(int)
        class C(A):
            z = Optional(int)
        class E(C):
            v = Optional(int)
        class F(B, E):
            w = Optional(int)
    else:
        class A(db.Entity):
            id = PrimaryKey(int)
            kind = Discriminator(int)
            _discriminator_ = 1
            x = Required(int)
            hs = Set('H', reverse='ref')
            hs2 = Set('H', reverse='ref2')
        class B(A):
            _discriminator_ = 2
            y = Optional(int)
        class C(A):
            _discriminator_ = 0          # a falsy code is an ordinary code
            z = Optional(int)
        class D(B):
            _discriminator_ = 4
            w = Optional(int)
    class H(db.Entity):
        id = PrimaryKey(int)
        ref = Optional(A, reverse='hs')
        ref2 = Optional(A, reverse='hs2')
        k = Required(int)
    db.generate_mapping(create_tables=True)
    _dbs[variant] = db
    return db


PROGRAMS = [
    '(a for a in A)', '(b for b in B)', '(c for c in C)', '(d for d in D)',
    '(a for a in A if isinstance(a, B))', '(a for a in A if isinstance(a, C))', '(a for a in A if isinstance(a, D))', '(a for a in A if isinstance(a, A))',
    '(a for a in A if isinstance(a, (B, C)))', '(a for a in A if isinstance(a, (C, D)))', '(a for a in A if not isinstance(a, B))',
    '(a for a in A if not isinstance(a, (C, D)))', '(b for b in B if isinstance(b, D))', '(b for b in B if not isinstance(b, D))',
    '(a for a in A if isinstance(a, B) and a.x > x)', '(a for a in A if isinstance(a, C) or a.x == x)', '(a for a in A if not (isinstance(a, D) or a.x < x))',
    '(a.x for a in A)', '(b.x for b in B)', '(b.y for b in B)', '(d.w for d in D)', '(d.y for d in D)', '((b.id, b.y) for b in B if b.y is not None)',
    '(b for b in B if b.y is None)', '(b for b in B if b.y == x)', '(d for d in D if d.y == x or d.w == x)', '(c for c in C if not c.z)',
    '(a.id for a in A if a.x > x)', '(b.id for b in B if b.x > x)', '(d.id for d in D if d.x > x and d.y is None)',
    '(h for h in H if isinstance(h.ref, B))', '(h for h in H if isinstance(h.ref, (C, D)))', '(h for h in H if h.ref is not None and not isinstance(h.ref, B))',
    '(h.ref for h in H if h.k > x)', '(h.k for h in H if h.ref.x > x)', '(h for h in H if h.ref in (b for b in B))', '(h for h in H if h.ref in (d for d in D if d.w is None))',
    '(a for a in A if a.hs)', '(b for b in B if not b.hs)', '((a.id, len(a.hs)) for a in A)', '((d.id, len(d.hs)) for d in D)', '(b for b in B if x in b.hs.k)',
    '(b for b in B for h in b.hs if h.k > x)', '((b.id, h.id) for b in B for h in H if h.ref == b)', '(h for h in H for d in D if h.ref == d and d.w == h.k)',
    '(a for a in A if a in (h.ref for h in H if h.k == x))', '(c for c in C if c.id in (h.ref.id for h in H))',
    # isinstance naming an ancestor / sibling of the iterated (non-root) entity
    '(b for b in B if isinstance(b, A))', '(b for b in B if isinstance(b, B))', '(d for d in D if isinstance(d, A))', '(d for d in D if isinstance(d, B))',
    '(d for d in D if isinstance(d, (B, C)))', '(b for b in B if isinstance(b, (A, C)))', '(b for b in B if not isinstance(b, A))', '(d for d in D if not isinstance(d, (A, C)))',
    '(b for b in B if isinstance(b, C))', '(c for c in C if isinstance(c, (B, D)))', '(c for c in C if not isinstance(c, B))', '(b for b in B if isinstance(b, (C, D)))',
    '(b for b in B if isinstance(b, A) and b.y == x)', '(d.id for d in D if isinstance(d, B) or d.w == x)',
    # tuples with several entity columns of the same declared type
    '((h.ref, h.k, h.ref2) for h in H if h.ref is not None and h.ref2 is not None)', '((h.ref2, h.ref) for h in H if h.ref is not None and h.ref2 is not None)',
    '((h, h.ref2) for h in H if h.ref2 is not None)', '((a, h.ref2) for a in A for h in a.hs if h.ref2 is not None)',
    # subqueries over a subclass written with the entity's own methods and a lambda (another path to the class condition)
    '(h for h in H if B.exists(lambda b: b.id == h.k))', '(h for h in H if not D.exists(lambda d: d.id == h.k))', '(h for h in H if h.ref in B.select(lambda b: b.id > 0))',
    '(h for h in H if count(C.select(lambda c: c.id == h.k)) > 0)', '(h for h in H if B.exists(lambda b: b.x == h.k))', '(a for a in A if B.exists(lambda b: b.id == a.id))',
    '(a for a in A if a in D.select(lambda d: d.id > x))',
]


def diamond_programs():
    names = ['A', 'B', 'C', 'E', 'F']
    out = []
    for X in names:
        v = X.lower()
        out.append('(%s for %s in %s)' % (v, v, X))
        out.append('(%s.id for %s in %s if %s.x > x)' % (v, v, X, v))
        for Y in names:
            out.append('(%s for %s in %s if isinstance(%s, %s))' % (v, v, X, v, Y))
            out.append('(%s for %s in %s if not isinstance(%s, %s))' % (v, v, X, v, Y))
        for Y, Z in (('B', 'E'), ('C', 'F'), ('E', 'F'), ('B', 'C')):
            out.append('(%s for %s in %s if isinstance(%s, (%s, %s)))' % (v, v, X, v, Y, Z))
    out += ['(h for h in H if isinstance(h.ref, E))', '(h for h in H if isinstance(h.ref, (B, E)))', '(h.ref for h in H if h.k > x)', '((e.id, len(e.hs)) for e in E)',
            '(c for c in C if c.hs)', '(f.v for f in F)', '(f.y for f in F)', '(e.v for e in E)', '(b.y for b in B)', '(c.z for c in C)', '(h for h in H if h.ref in (e for e in E))',
            '(h for h in H if h.ref in (b for b in B if isinstance(b, C)))', '((b.id, h.id) for b in B for h in H if h.ref == b)']
    return out


def lookup_tie(rep, db, S, variant):
    """Concrete tie on solver-chosen databases: X[pk], X.get(id=pk), X.exists(id=pk) for every class X and every stored row, with the row
    not yet seen, already loaded by a query over the root, and known as a bare reference - a row is found through X exactly
    when its class is X or a subclass of X, and the object keeps its class."""
    from pony.orm import db_session
    from pony.orm.core import ObjectNotFound
    from engine.symsql import e1
    root = db.A
    classes = [e for e in db.entities.values() if issubclass(e, root)]
    code2cls = {cls._discriminator_: cls for cls in classes}
    dcol = root._discriminator_attr_.columns[0]
    s = z3.Solver(); s.set('timeout', 5000)
    s.add(*S.constraints)
    rows = S.tables['A']
    for r in rows: s.add(r.present)
    for r in S.tables['H']: s.add(r.present, z3.Not(r.cols['ref'].n))
    if len(rows) >= 2: s.add(rows[0].cols[dcol].t != rows[1].cols[dcol].t)
    for attempt in range(4):
        if s.check() != z3.sat: break
        m = s.model()
        tables = symdb.concrete_rows(S, m)
        e1.populate(db, tables)
        bad = []
        for warm in ('cold', 'loaded', 'seed'):
            for X in classes:
                for r in tables['A']:
                    real = code2cls[r[dcol]]
                    want = issubclass(real, X)
                    try:
                        with db_session:
                            if warm == 'loaded': root.select()[:]
                            elif warm == 'seed': [h.ref for h in db.H.select()]
                            got = X.get(id=r['id'])
                            ex = X.exists(id=r['id'])
                            try: idx = X[r['id']]
                            except ObjectNotFound: idx = None
                            for how, o in (('get', got), ('[]', idx)):
                                if (o is not None) != want: bad.append((warm, X.__name__, how, r['id'], real.__name__, 'found' if o is not None else 'not found'))
                                elif o is not None and type(o) is not real: bad.append((warm, X.__name__, how, r['id'], real.__name__, 'class ' + type(o).__name__))
                            if bool(ex) != want: bad.append((warm, X.__name__, 'exists', r['id'], real.__name__, ex))
                    except Exception as exn:
                        bad.append((warm, X.__name__, 'raised', r['id'], real.__name__, '%s: %s' % (type(exn).__name__, str(exn)[:80])))
        name = '[%s discriminator] lookup tie %d' % (variant, attempt)
        if bad:
            rep.add(Ob(name, 'concrete-tie', CEX, detail='(cache state, class, lookup, pk, stored class, outcome): %r' % bad[:6], cex={'tables': tables, 'wrong': bad[:20]},
                       reproduced=True, key='wrong-lookup', replay='# C27 lookup tie on %r: %r\nraise SystemExit(1)\n' % (tables, bad[:6])))
            return
        rep.add(Ob(name, 'concrete-tie', HOLDS))
        s.add(z3.Or([r.cols[dcol].t != m.eval(r.cols[dcol].t, model_completion=True) for r in rows]))


def reference_paths_tie(rep):
    """Concrete tie (fixed data, NOT solver-chosen): an object of a subclass first reached through each kind of reference - many-to-one,
    the column-less side of a one-to-one, a one-to-many and a many-to-many collection typed with the base class - has its own class,
    also when it is looked up again later in the session."""
    from pony.orm import Database, PrimaryKey, Required, Optional, Set, db_session
    db = Database()
    class Person(db.Entity):
        id = PrimaryKey(int)
        passport = Optional('Passport')
        notes = Set('Note')
        team = Optional('Team')
        clubs = Set('Club')
    class Grad(Person):
        thesis = Optional(str)
    class Passport(db.Entity):
        id = PrimaryKey(int)
        person = Required(Person)
    class Note(db.Entity):
        id = PrimaryKey(int)
        author = Required(Person)
    class Team(db.Entity):
        id = PrimaryKey(int)
        members = Set(Person)
    class Club(db.Entity):
        id = PrimaryKey(int)
        members = Set(Person)
    db.bind('sqlite', ':memory:'); db.generate_mapping(create_tables=True)
    with db_session:
        t = Team(id=1); c = Club(id=1)
        p1 = Person(id=1, team=t, clubs=[c]); g2 = Grad(id=2, thesis='x', team=t, clubs=[c])
        Passport(id=1, person=p1); Passport(id=2, person=g2); Note(id=1, author=p1); Note(id=2, author=g2)
    paths = {
        'one-to-one (column on the other side)': lambda: [Passport[2].person],
        'many-to-one': lambda: [Note[2].author],
        'one-to-many collection': lambda: [x for x in Team[1].members if x.id == 2],
        'many-to-many collection': lambda: [x for x in Club[1].members if x.id == 2],
        'query over the base class': lambda: list(Person.select(lambda p: p.id == 2)),
    }
    known = {e['key'] for e in __import__('engine.core', fromlist=['load_known']).load_known('C27')}
    for name, reach in paths.items():
        bad = []
        try:
            with db_session:
                objs = reach()
                if len(objs) != 1: bad.append('reached %d objects' % len(objs))
                for o in objs:
                    if type(o) is not Grad: bad.append('reached as %s' % type(o).__name__)
                    try:
                        if o.thesis != 'x': bad.append('thesis %r' % (o.thesis,))
                    except AttributeError: bad.append('no attribute thesis')
                again = Person[2]
                if type(again) is not Grad: bad.append('Person[2] afterwards is %s' % type(again).__name__)
        except Exception as ex:
            bad.append('%s: %s' % (type(ex).__name__, str(ex)[:80]))
        nm = 'reference path: ' + name
        key = 'm2m-collection-items-not-refined' if name.startswith('many-to-many') else None
        if not bad: rep.add(Ob(nm, 'concrete-tie', HOLDS))
        else: rep.add(Ob(nm, 'concrete-tie', CEX, detail='; '.join(bad), cex={'path': name, 'wrong': bad}, reproduced=True, key=key,
                         replay='# C27: a Grad row reached through %s: %s (see checks/c27.py reference_paths_tie)\nraise SystemExit(1)\n' % (name, '; '.join(bad))))


def class_tie(rep, db, S, variant, src, scope):
    """Concrete tie on solver-chosen databases: run the real query in a fresh session and compare the CLASS of every returned
    object with the class its row's discriminator denotes (objects keep their class however they are reached)."""
    from pony.orm import db_session
    from pony.orm.core import Entity
    from engine.symsql import e1
    root = db.A
    code2cls = {cls._discriminator_: cls.__name__ for cls in db.entities.values() if issubclass(cls, root)}
    dcol = root._discriminator_attr_.columns[0]
    s = z3.Solver(); s.set('timeout', 5000)
    s.add(*S.constraints)
    rows = S.tables['A']
    # every slot present, pairwise different classes where possible, references set: the interesting databases
    for r in rows: s.add(r.present)
    for r in S.tables['H']:
        s.add(r.present, z3.Not(r.cols['ref'].n), z3.Not(r.cols['ref2'].n), r.cols['ref'].t != r.cols['ref2'].t)
    if len(rows) >= 2: s.add(rows[0].cols[dcol].t != rows[1].cols[dcol].t)
    for attempt in range(3):
        if s.check() != z3.sat: break
        m = s.model()
        tables = symdb.concrete_rows(S, m)
        expected = {r['id']: code2cls[r[dcol]] for r in tables['A']}
        e1.populate(db, tables)
        name = '[%s discriminator] class tie %d: %s' % (variant, attempt, src)
        bad = []
        try:
            with db_session:
                q = e1.build_query(db, Program(src, scope, 'string'))
                for item in q[:]:
                    for obj in (item if isinstance(item, tuple) else (item,)):
                        if isinstance(obj, Entity) and isinstance(obj, root):
                            if type(obj).__name__ != expected.get(obj.id): bad.append((obj.id, type(obj).__name__, expected.get(obj.id)))
        except Exception as ex:
            rep.add(Ob(name, 'concrete-tie', INCONCLUSIVE, detail='%s: %s' % (type(ex).__name__, str(ex)[:100]))); return
        if bad:
            rep.add(Ob(name, 'concrete-tie', CEX, detail='objects with the wrong class (id, got, expected): %r' % bad, cex={'program': src, 'tables': tables, 'wrong': bad},
                       reproduced=True, key='wrong-class', replay='# C27 class tie: %r on %r returns objects of the wrong class: %r\nraise SystemExit(1)\n' % (src, tables, bad)))
            return
        rep.add(Ob(name, 'concrete-tie', HOLDS))
        # next database: different class assignment
        s.add(z3.Or([r.cols[dcol].t != m.eval(r.cols[dcol].t, model_completion=True) for r in rows]))


def run(tier, seed, only=None):
    from pony.orm import core, sqltranslation as T
    rep = Report('C27', 'translation_validation',
                 'E1 obligation (SQL text of the real translator evaluated over a symbolic database vs the Python-semantics oracle, decided by z3) '
                 'over polymorphic hierarchies: the discriminator value of every row is symbolic over the declared codes.')
    rep.fn(core.EntityMeta._construct_discriminator_criteria_ if hasattr(core.EntityMeta, '_construct_discriminator_criteria_') else core.Entity._construct_discriminator_criteria_,
           T.FuncIsinstanceMonad.call if hasattr(T, 'FuncIsinstanceMonad') else T.SQLTranslator.init)
    c01.PID = 'C27'
    R = 2 if tier == 'quick' else 3
    n = 0
    for variant in ('str', 'int', 'diamond'):
        db = get_db(variant)
        S = symdb.build(db, R=R, strlen=3)
        c01._cache['sqlite'] = db            # replay uses c01.get_db('sqlite')
        if not only or only == 'lookup': lookup_tie(rep, db, S, variant)
        for src in (diamond_programs() if variant == 'diamond' else PROGRAMS):
            if only and only not in src: continue
            names = {x.id for x in ast.walk(ast.parse(src)) if isinstance(x, ast.Name)}
            prog = Program(src, {'x': ('int', 1)} if 'x' in names else {}, 'string', variant)
            n += 1
            for ob in c01.check_program(db, S, prog, 'SQLite', 'sqlite', 20000, exclude=C01_KEYS):
                ob.name = '[%s discriminator] %s' % (variant, ob.name)
                rep.add(ob)
                if ob.verdict == CEX: rep.sample({'program': src, 'variant': variant, 'counterexample': ob.cex, 'key': ob.key}, limit=6)
            elt = ast.parse(src, mode='eval').body.elt
            if isinstance(elt, (ast.Name, ast.Tuple, ast.Attribute)) and not src.startswith('(h for') and '.id' not in src.split(' for ')[0] and '.x' not in src.split(' for ')[0] \
                    and not any(src.startswith(pfx) for pfx in ('(b.y', '(d.w', '(d.y', '(h.k')):
                class_tie(rep, db, S, variant, src, prog.scope)
    c01._cache.pop('sqlite', None)
    if not only or only == 'paths': reference_paths_tie(rep)
    rep.programs = n
    rep.bounds = {'hierarchy': 'A <- B <- D, A <- C (string and integer codes); diamond A <- B, A <- C <- E, F(B, E); H.ref -> A (optional), A.hs reverse set', 'rows per table': R,
                  'discriminator': 'symbolic per row over the declared codes (string codes and integer codes 1..4)', 'programs': len(PROGRAMS)}
    rep.assumptions = ['inputs inside the regions of the findings recorded for C01 (%s) are excluded: they are reported by C01' % ', '.join(C01_KEYS),
                       'single-table inheritance rows: columns of classes the row does not belong to are NULL; discriminator values outside the declared codes do not occur',
                       'class refinement of already-loaded objects and diamond attribute merging are history/heap behaviour outside this check']
    rep.trusted = ['z3', 'engine/symsql (SQL model validated against real SQLite per program)', 'engine/symsql/pysem.py']
    return rep
