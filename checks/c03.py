"""C03 - decompiling a generator or lambda preserves its meaning.

Programs (expressions placed as generator condition, generator element, lambda body, plus multi-clause
generators) are enumerated; for each, the running CPython compiles the source, pony's real Decompiler
reconstructs a tree from the bytecode, and z3 decides (E2/ExprEq) whether ANY assignment of the free names
makes the reconstructed tree evaluate differently from the source tree.
"""
import ast, random, time
from engine.core import Report, Ob, HOLDS, CEX, REJECTED, INCONCLUSIVE
from engine import expreq, exprgen


def conj(ifs):
    if not ifs: return ast.Constant(True)
    if len(ifs) == 1: return ifs[0]
    return ast.BoolOp(ast.And(), list(ifs))


class _Any(object):
    def __iter__(self): return iter(())


def decompile_src(src):
    """Build a live generator / lambda object from the source (as a user program does), hand it to the real public entry
    point pony.orm.decompiling.decompile() - including its caches keyed by code-object identity - and drop the object again,
    so that code objects are allocated and freed over the run the way dynamically created queries are."""
    from pony.orm.decompiling import decompile
    scope = {'T': _Any(), 'U': _Any(), 'V': _Any()}
    obj = eval(compile(src, '<verif>', 'eval'), scope)
    tree = decompile(obj)[0]
    if hasattr(obj, 'close'): obj.close()
    return tree


def classify(src_tree, placement):
    """syntactic features of the source expression (keys of known findings)"""
    feats = set()
    parents = {}
    for n in ast.walk(src_tree):
        for ch in ast.iter_child_nodes(n):
            parents[ch] = n
    def used_as_value(n):
        p = parents.get(n)
        if p is None: return False
        if isinstance(p, ast.IfExp) and p.test is n: return False
        if isinstance(p, ast.BoolOp) or (isinstance(p, ast.UnaryOp) and isinstance(p.op, ast.Not)): return used_as_value(p)
        return True
    for n in ast.walk(src_tree):
        p = parents.get(n)
        if isinstance(n, ast.BoolOp) and used_as_value(n):
            feats.add('boolop-used-as-value')
        if isinstance(n, ast.IfExp) and p is not None and not isinstance(p, ast.IfExp):
            feats.add('ifexp-as-operand')
        if isinstance(n, ast.IfExp) and p is not None and isinstance(p, ast.IfExp):
            feats.add('nested-ifexp')
        if isinstance(n, ast.UnaryOp) and isinstance(n.op, ast.Not) and p is not None and not isinstance(p, (ast.BoolOp, ast.UnaryOp)) \
                and not (isinstance(p, ast.IfExp) and p.test is n):
            feats.add('not-used-as-value')
        if isinstance(n, ast.Compare) and len(n.ops) > 1:
            feats.add('chained-compare')
    if placement == 'elt':
        # a conditional expression in element position whose TEST mixes `not` with and/or (known finding, see known_findings.json)
        for n in ast.walk(src_tree):
            if isinstance(n, ast.IfExp):
                sub = list(ast.walk(n.test))
                if any(isinstance(x, ast.BoolOp) for x in sub) and any(isinstance(x, ast.UnaryOp) and isinstance(x.op, ast.Not) for x in sub):
                    return 'ifexp-test-mixes-not-with-and-or'
    if 'ifexp-as-operand' in feats or 'nested-ifexp' in feats: return 'ifexp-as-operand'
    if 'boolop-used-as-value' in feats: return 'boolop-used-as-value'
    if 'not-used-as-value' in feats: return 'not-used-as-value'
    if any(isinstance(n, ast.IfExp) and (isinstance(n.body, ast.Constant) or isinstance(n.orelse, ast.Constant)) for n in ast.walk(src_tree)):
        return 'ifexp-constant-arm'
    return 'plain'


def unparse(t):
    try: return ast.unparse(t)
    except Exception: return '<malformed tree: %s>' % ast.dump(t)[:200]


def malformed(t):
    """a reconstructed tree that CPython itself refuses to compile (a comprehension where an expression belongs, a missing
    child) cannot be translated either: the query fails with an error downstream, which is the property's 'rejected' outcome"""
    import copy
    try:
        e = copy.deepcopy(t)
        for n in ast.walk(e):
            if isinstance(n, ast.Name) and n.id.startswith('.'): n.id = '_outermost'
        compile(ast.fix_missing_locations(ast.Expression(e)), '<malformed?>', 'eval')
        return False
    except (TypeError, ValueError, AttributeError, SyntaxError):
        return True


def check_pair(name, a, b, mode, src, placement, extra_key=None):
    if malformed(b):
        # a tree with a missing child cannot be translated: the query fails with an error downstream (counted as rejected)
        return Ob(name, 'z3', REJECTED, detail='decompiler produced a tree CPython cannot compile (fails downstream)')
    try:
        verdict, names, model, how, dt = expreq.differ(a, b, mode)
    except expreq.NotEncodable as e:
        return Ob(name, 'z3', INCONCLUSIVE, detail='not encodable: %s' % e)
    if verdict == 'unsat': return Ob(name, 'z3', HOLDS, time_s=dt)
    if verdict == 'unknown': return Ob(name, 'z3', INCONCLUSIVE, detail='solver unknown', time_s=dt)
    if verdict == 'spurious':
        return Ob(name, 'z3', INCONCLUSIVE, detail='only models that do not reproduce under CPython eval (abstraction too coarse): %s | %s' % (unparse(b), how), time_s=dt)
    cls = classify(a, placement)
    ob = Ob(name, 'z3', CEX, detail='decompiled: %s | %s' % (unparse(b), how), cex={'source': src, 'placement': placement, 'names': names,
            'decompiled': unparse(b)}, time_s=dt, reproduced=True, key='%s:%s' % (placement, cls))
    ob.replay = ('# C03 replay: build the live object, decompile with pony, evaluate both trees with plain eval\n'
                 'import ast\nfrom pony.orm.decompiling import decompile\nsrc = %r\nnames = %r\n'
                 'class Any:\n    def __iter__(self): return iter(())\n'
                 'obj = eval(src, {"T": Any(), "U": Any(), "V": Any()})\n'
                 'print("source    :", src)\nprint("decompiled:", ast.unparse(decompile(obj)[0]))\nprint("differs on", names, %r)\nraise SystemExit(1)\n'
                 % (src, names, how))
    return ob


def one(src, placement):
    """placement in cond / elt / lambda / gen (whole generator given)"""
    s = ast.parse(src, mode='eval').body
    try:
        d = decompile_src(src)
    except Exception as e:
        return [Ob('%s: %s' % (placement, src), 'z3', REJECTED, detail='%s: %s' % (type(e).__name__, str(e)[:80]))]
    obs = []
    name = '%s: %s' % (placement, src)
    if placement == 'lambda':
        obs.append(check_pair(name, s.body, d, 'value', src, placement))
        return obs
    if malformed(d):
        return [Ob(name, 'z3', REJECTED, detail='decompiler produced a tree CPython cannot compile (fails downstream)')]
    if not isinstance(d, ast.GeneratorExp) or len(d.generators) != len(s.generators):
        obs.append(Ob(name, 'structural', CEX, detail='loop structure differs: %s' % unparse(d), cex={'source': src}, reproduced=True,
                      key='%s:loop-structure' % placement))
        return obs
    for i, (gs, gd) in enumerate(zip(s.generators, d.generators)):
        if ast.dump(gs.target) != ast.dump(gd.target):
            obs.append(Ob(name + ' [target %d]' % i, 'structural', CEX, detail='target differs', cex={'source': src}, reproduced=True,
                          key='%s:loop-structure' % placement))
        it_s, it_d = gs.iter, gd.iter
        if i == 0:
            if not (isinstance(it_d, ast.Name) and it_d.id == '.0'):
                obs.append(Ob(name + ' [iter 0]', 'structural', CEX, detail='first iterable is not the outermost argument', cex={'source': src},
                              reproduced=True, key='%s:loop-structure' % placement))
        else:
            obs.append(check_pair(name + ' [iter %d]' % i, it_s, it_d, 'value', src, placement))
        if gs.ifs or gd.ifs:
            obs.append(check_pair(name + ' [if %d]' % i, conj(gs.ifs), conj(gd.ifs), 'truth', src, placement))
    obs.append(check_pair(name + ' [elt]', s.elt, d.elt, 'value', src, placement))
    return obs


MULTI = [
    '(x for x in T for y in x.items)', '((x, y) for x in T for y in x.items if y.q > a)', '(x for x in T if a for y in x.items if b)',
    '(x for x in T if x.p == a if x.q == b)', '(y for x in T if a and b for y in U if c or x.p)', '(x for x in T for y in U for z in V if x.p == y.p == z.p)',
    '(x for x in T if sum(y.q for y in x.items) > a)', '(x for x in T if a in (y.q for y in x.items if y.r or b))',
    '(x.p for x in T if not (a and b) for y in x.items if not y.q)', '((x, y) for x in T for y in U if x.p < y.p and (a or b))',
    '(x for x in T if (a if b else c) for y in x.items if (y.q if a else b))',
]


def run(tier, seed, only=None):
    from pony.orm import decompiling
    rep = Report('C03', 'translation_validation',
                 'For each enumerated expression placed as generator condition, generator element and lambda body (plus multi-clause '
                 'generators) the real Decompiler output is compared with the parsed source by a z3 query over all values of the free '
                 'names (integer-valued with Python truthiness; non-linear operators, attributes, calls, subscripts as shared '
                 'uninterpreted functions); loop structure is compared structurally.')
    D = decompiling.Decompiler
    rep.fn(D.__init__, D.decompile, D.analyze_jumps, D.get_instructions, D.process_target, D.conditional_jump, D.conditional_jump_new,
           D.conditional_jump_none_impl, D.JUMP_IF_FALSE_OR_POP, D.JUMP_FORWARD, D.COMPARE_OP, decompiling.simplify)
    atoms = exprgen.ATOMS
    rng = random.Random(seed)
    exprs = exprgen.level1(atoms)
    l2 = exprgen.level2(atoms)
    if tier == 'quick':
        core = l2[::7]
        extra = rng.sample(l2, 400)
        deep = exprgen.random_deep(atoms, 3, 300, rng)
    else:
        core, extra = l2, []
        deep = exprgen.random_deep(atoms, 3, 6000, rng) + exprgen.random_deep(atoms, 4, 3000, rng)
    if tier == 'quick':
        boolfam = exprgen.bool_family(2) + exprgen.bool_family(3) + rng.sample(exprgen.bool_family(4), 1500)
    else:
        boolfam = exprgen.bool_family(2) + exprgen.bool_family(3) + exprgen.bool_family(4)
    seen = set(); allx = []
    wide = exprgen.wide()
    for e in exprs + wide + core + extra + deep:
        if e in seen: continue
        seen.add(e)
        try: ast.parse(e, mode='eval')
        except SyntaxError: continue
        allx.append(e)
    progs = []
    for e in allx:
        progs.append(('cond', '(x for x in T if (%s))' % e))
        progs.append(('elt', '((%s) for x in T)' % e))
        progs.append(('lambda', 'lambda x: (%s)' % e))
    for e in boolfam:
        if e in seen: continue
        seen.add(e)
        progs.append(('cond', '(x for x in T if (%s))' % e))
    for e in boolfam[::5]:
        progs.append(('lambda', 'lambda x: (%s)' % e))
        progs.append(('elt', '((%s) for x in T)' % e))
    # boolean skeletons as the TEST of a conditional expression (its own jump pattern), in every placement
    for t in exprgen.bool_family(2, kinds=['{v}', '{v} is None'], names='bc') + exprgen.bool_family(3, kinds=['{v}'], names='bcd')[::3]:
        e = 'a if (%s) else d' % t
        if e in seen: continue
        seen.add(e)
        progs.append(('elt', '((%s) for x in T)' % e))
        progs.append(('cond', '(x for x in T if (%s))' % e))
        progs.append(('lambda', 'lambda x: (%s)' % e))
    for g in MULTI:
        progs.append(('gen', g))
    n = 0
    for placement, src in progs:
        if only and only not in src: continue
        n += 1
        for ob in one(src, placement):
            rep.add(ob)
            if ob.verdict == CEX: rep.sample({'program': src, 'counterexample': ob.cex, 'key': ob.key}, limit=5)
    rep.programs = n
    rep.sample({'program': progs[5][1], 'obligation': 'z3: exists a,b,c,x.p . decompiled != source ?  -> unsat'}, limit=6)
    rep.bounds = {'expressions': 'depth 1 exhaustive (%d), depth 2 %s (%d), depth 3-4 seeded random (%d)' % (
        len(exprs), 'slice+seeded sample' if tier == 'quick' else 'exhaustive', len(core) + len(extra), len(deep)),
        'boolean skeletons': 'every and/or/not shape over 2-3 leaves x 6 leaf-kind rotations (name, is None, is not None, ==, in, call); 4 leaves: %s' % ('seeded sample of 1500' if tier == 'quick' else 'exhaustive'),
        'names': 'all integer values (Python truthiness), uninterpreted attribute/call/subscript results', 'cpython': '3.12 (the running interpreter)'}
    rep.assumptions = ['values are modelled as integers with Python truthiness; operators other than + - unary- and comparisons are uninterpreted',
                       'a decompiler exception of any type counts as "rejected"']
    rep.trusted = ['z3', 'engine/expreq.py encoding', 'CPython ast.parse as the meaning of the source']
    return rep
