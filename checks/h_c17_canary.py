"""Detection-power canaries for C17 (not part of `./check`): each `mNN_*` function is a `setup` that monkey-patches the
imported pony objects (/repo is never edited) with a realistic bug; PLAN lists the harnesses that must then report a
counterexample.  Run:  cd /verif && PYTHONPATH=/verif PYTHONHASHSEED=0 .venv/bin/python -m checks.h_c17_canary [mutant ...]
Expected: every line says CAUGHT except the mutants whose name starts with `eq_` (equivalent mutants: pony rolls a
connection back twice on the way to the pool - SessionCache.close and Pool.release - so removing one of the two is
invisible; they document that redundancy)."""
import inspect, textwrap, sys
from checks.h_c17 import *          # harness functions (CrossHair analyses them as members of this module)
from checks import h_c17 as h


def _mut(owner, name, old, new):
    f = getattr(owner, name)
    src = textwrap.dedent(inspect.getsource(f))
    if src.count(old) < 1:          # `old`/`new` were written with the indentation of the file: methods lose one level by dedent
        old, new = _dedent4(old), _dedent4(new)
    assert src.count(old) >= 1, (name, old)
    src = src.replace(old, new)
    ns = {}
    mod = sys.modules[f.__module__]
    exec(compile(src, '<mutant %s>' % name, 'exec'), mod.__dict__, ns)
    setattr(owner, name, ns[name])


def _dedent4(text):
    return '\n'.join(l[4:] if l.startswith('    ') else l for l in text.split('\n'))


def _core():
    from pony.orm import core
    return core


def _after(mutate):
    """the unfaulted sanity runs of h.setup() happen on the unmutated code; some mutants would fail them"""
    h.setup()
    mutate()


def m1_no_begin_immediate():
    from pony.orm.dbproviders.sqlite import SQLiteProvider
    _after(lambda: _mut(SQLiteProvider, 'set_transaction_mode', "                cursor.execute(sql)\n                cache.in_transaction = True",
                        "                cache.in_transaction = True"))
def m2_start_transaction_ignored():
    _after(lambda: _mut(_core().Database, '_exec_sql', "if start_transaction: cache.immediate = True", "pass"))
def m3_commit_inside_flush():
    _after(lambda: _mut(_core().SessionCache, 'flush', "                        if obj is not None: obj._save_()\n",
                        "                        if obj is not None:\n                            obj._save_()\n"
                        "                            if cache.in_transaction: cache.database.provider.commit(cache.connection, cache)\n"))
def m3b_commit_between_m2m_remove_and_add():
    _after(lambda: _mut(_core().SessionCache, 'flush', "                        attr.remove_m2m(removed)\n",
                        "                        attr.remove_m2m(removed)\n"
                        "                        if cache.in_transaction: cache.database.provider.commit(cache.connection, cache)\n"))
def m4_no_rollback_anywhere():
    from pony.orm.dbapiprovider import DBAPIProvider, Pool
    def go():
        _mut(DBAPIProvider, 'rollback', "connection.rollback()", "pass")
        _mut(Pool, 'release', "try: con.rollback()", "try: pass")
    _after(go)
def eq_m4a_provider_rollback_skipped():
    from pony.orm.dbapiprovider import DBAPIProvider
    _after(lambda: _mut(DBAPIProvider, 'rollback', "connection.rollback()", "pass"))
def eq_m4b_pool_release_no_rollback():
    from pony.orm.dbapiprovider import Pool
    _after(lambda: _mut(Pool, 'release', "try: con.rollback()", "try: pass"))
def m5_commit_on_any_exception():
    _after(lambda: _mut(_core().DBSessionContextManager, '_commit_or_rollback',
                        "can_commit = issubclass(exc_type, tuple(db_session.allowed_exceptions))", "can_commit = True"))
def m6_inner_exit_commits():
    _after(lambda: _mut(_core().DBSessionContextManager, '__exit__',
                        "        if not local.db_context_counter:\n            assert local.db_session is db_session\n", "        if True:\n"))
def m9_get_connection_no_transaction():
    _after(lambda: _mut(_core().Database, 'get_connection', "            cache.immediate = True\n", "            pass\n"))
def m10_commit_does_not_reach_connection():
    from pony.orm.dbapiprovider import DBAPIProvider
    _after(lambda: _mut(DBAPIProvider, 'commit', "connection.commit()", "pass"))
def m11_commit_failure_not_rolled_back_and_session_commits_rest():
    # cache.commit(): on a failed flush/commit the cache is NOT rolled back and the error is swallowed
    _after(lambda: _mut(_core().SessionCache, 'commit', "        except:\n            cache.rollback()\n            raise", "        except:\n            pass"))
def m12_flush_failure_commits_what_was_flushed():
    _after(lambda: _mut(_core().SessionCache, 'flush_and_commit', "        except:\n            cache.rollback()\n            raise",
                        "        except:\n            if cache.in_transaction: cache.database.provider.commit(cache.connection, cache)\n            raise"))
def m13_db_insert_autocommit():
    _after(lambda: _mut(_core().Database, 'insert', "cursor = database._exec_sql(sql, arguments, start_transaction=True)",
                        "cursor = database._exec_sql(sql, arguments)"))
def m14_bulk_delete_autocommit():
    _after(lambda: _mut(_core().Query, 'delete', "        cache.immediate = True\n", "        pass\n"))


PLAN = {
 'm1_no_begin_immediate': ['insert', 'update', 'delete', 'm2m', 'raw_first', 'two_flushes', 'commit_mid', 'for_update'],
 'm2_start_transaction_ignored': ['raw_first', 'commit_mid_raw', 'db_insert'],
 'm3_commit_inside_flush': ['insert', 'update', 'orm_first', 'delete'],
 'm3b_commit_between_m2m_remove_and_add': ['m2m'],
 'm4_no_rollback_anywhere': ['update', 'raw_first', 'rollback_mid'],
 'eq_m4a_provider_rollback_skipped': ['update', 'raw_first'],
 'eq_m4b_pool_release_no_rollback': ['update', 'raw_first'],
 'm5_commit_on_any_exception': ['raw_first', 'two_flushes', 'get_connection'],
 'm6_inner_exit_commits': ['nested'],
 'm9_get_connection_no_transaction': ['get_connection'],
 'm10_commit_does_not_reach_connection': ['insert', 'commit_mid'],
 'm11_commit_failure_not_rolled_back_and_session_commits_rest': ['update', 'commit_mid'],
 'm12_flush_failure_commits_what_was_flushed': ['commit_mid_raw'],
 'm13_db_insert_autocommit': ['db_insert'],
 'm14_bulk_delete_autocommit': ['bulk_delete'],
}


def _job(a):
    m, fn = a
    from engine import ch
    try:
        msgs, dt = ch._analyze('checks.h_c17_canary', fn, 150, 75, False, m)
        bad = [x for x in msgs if x[0] in ('POST_FAIL', 'POST_ERR', 'EXEC_ERR')]
        return m, fn, ('CAUGHT ' + bad[0][1][:150].replace('\n', ' ')) if bad else ('not caught: %r' % [x[0] for x in msgs]), dt
    except BaseException as e:
        return m, fn, 'ERR %r' % e, 0


if __name__ == '__main__':
    import multiprocessing as mp, os
    os.environ.setdefault('C17_K2MAX', os.environ.get('C17_KMAX', '48'))
    only = sys.argv[1:]
    jobs = [(m, f) for m, fs in PLAN.items() for f in fs if not only or m in only]
    with mp.get_context('spawn').Pool(int(os.environ.get('VERIF_PROCS') or 4), maxtasksperchild=1) as p:
        for m, fn, r, dt in p.imap(_job, jobs, chunksize=1):
            print('%-62s %-16s %5.1fs %s' % (m, fn, dt, r), flush=True)
