"""C06 - values reach the database unchanged: inline literals, LIKE patterns, bound parameters, identifiers.

placeholder (filled in below)
"""
from engine.core import Report, Ob, HOLDS, CEX, INCONCLUSIVE
from engine import ch

LITERALS = ('lit_str_sqlite', 'lit_str_postgres', 'lit_str_oracle', 'lit_str_mysql', 'lit_str_mysql_no_backslash_escapes',
            'lit_str_mysql_backslash', 'lit_str_styles', 'lit_int', 'lit_bool_none', 'mod_percent')
NUMBERING = tuple('numbering_' + s for s in ('qmark', 'format', 'numeric', 'named', 'pyformat')) + ('numbering_dialects', 'param_converter')
IDENTS = ('ident_sqlite', 'ident_postgres', 'ident_mysql', 'ident_oracle', 'ident_oracle_dquote', 'ident_percent_postgres', 'ident_percent_mysql')
LIKES = ('like_const_sqlite', 'like_const_oracle', 'like_const_postgres', 'like_const_mysql',
         'like_const_backslash_postgres', 'like_const_backslash_mysql',
         'like_nonconst_sqlite', 'like_nonconst_postgres', 'like_nonconst_mysql', 'like_nonconst_oracle')
HARNESSES = LITERALS + NUMBERING + IDENTS + LIKES


def classify(spec, cex):
    fn = spec['fn']
    if fn == 'lit_str_mysql_backslash' and '\\' in cex.get('s', ''):
        return 'mysql-inline-literal-backslash'
    if fn in ('like_const_backslash_postgres', 'like_const_backslash_mysql') and '\\' in cex.get('x', ''):
        return 'like-constant-operand-backslash-default-escape'
    if fn in ('ident_percent_postgres', 'ident_percent_mysql') and '%' in cex.get('alias', '') + cex.get('name', ''):
        return 'identifier-percent-under-format-paramstyle'
    if fn == 'ident_oracle_dquote' and '"' in cex.get('alias', '') + cex.get('name', ''):
        return 'oracle-identifier-double-quote'
    return None


def run(tier, seed, only=None):
    rep = Report('C06', 'other', 'x')
    T = 120 if tier == 'quick' else 900
    specs = [dict(module='checks.h_c06', fn=f, cond_timeout=T, path_timeout=T / 2) for f in HARNESSES]
    if only: specs = [s for s in specs if only in s['fn']]
    ch.run_harnesses(rep, specs, classify)
    return rep
