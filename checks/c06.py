"""C06 - values reach the database unchanged: inline literals, LIKE patterns, bound parameters, identifiers.

CrossHair runs the REAL builder / value classes / parameter machinery / quote_name / StringMixin._like (checks/h_c06.py)
on symbolic strings, integers, key sequences and names and hands the resulting `(sql, arguments)` - what pony would pass
to `cursor.execute` - to a reference model of the receiving side written from the documented rules: the driver's `%`
interpolation for format/pyformat, the dialect's lexer (string literals, quoted identifiers, placeholders), PEP 249
placeholder binding, and SQL LIKE with ESCAPE.  Asserted: the token stream the server sees has exactly the intended
structure and every value token IS the supplied value; LIKE patterns decode to the canonical pattern of the operand.

Four parts (DESIGN.md "### C06"):
 1 inline literals   lit_str_<dialect>, lit_str_styles (generic Value x five styles), lit_int, lit_bool_none, mod_percent
 2 LIKE              like_const_<dialect> (real escaping of a constant operand), like_nonconst_<dialect> (parameter / column
                     operand: the REPLACE chain is evaluated over the lexed statement), like_lemma (the canonical pattern means
                     startswith / endswith / in under the reference matcher; the matcher is compared with real SQLite at start-up)
 3 numbering         numbering_<style> for the five styles (<= 4 occurrences of <= 3 distinct keys, one a tuple item),
                     numbering_dialects (shipped builders), param_converter (str converter on the way)
 4 identifiers       ident_<dialect>: alias.column, compound (schema, table) names through COLUMN, FROM and provider.quote_name

Regions where pony does not meet the property are carved out by preconditions into harnesses of their own (so the
remaining region must CONFIRM and a new failure there still surfaces); their counterexamples get stable keys:
  mysql-inline-literal-backslash                    lit_str_mysql_backslash      (design F7; model-only, depends on sql_mode)
  like-constant-operand-backslash-default-escape    like_const_backslash_{postgres,mysql}
  identifier-percent-under-format-paramstyle        ident_percent_{postgres,mysql}
  oracle-identifier-double-quote                    ident_oracle_dquote

Deviations from the design text:
 * LIKE is decided in two steps instead of one harness over (s, operand): (a) pony's statement, lexed and evaluated, yields a
   pattern whose decoding under the dialect's LIKE rules is the canonical item list of the operand (symbolic operand only,
   therefore valid for EVERY left-hand string), (b) like_lemma: canonical items <=> Python semantics for symbolic s and operand.
   The single-harness form (both strings symbolic through translator, builder, lexer, evaluator and matcher) did not confirm in 120 s.
 * the statement is evaluated from its lexed TEXT by ~40 lines in h_c06.py (sql_eval), not by engine.symsql.
 * bytes / date / datetime / timedelta / float / Decimal literals realise under CrossHair (hexlify, isoformat, '%d'): they are
   checked as a labelled concrete tie, not by the solver. E4 (format-string rewriting) does not exist in the framework yet.
 * integer literals are bounded to |n| < 10**6 (10**9 thorough): the reference lexer walks the digits.
 * CompositeParam (JSON paths) is not exercised.
"""
import itertools, os, time
from engine.core import Report, Ob, HOLDS, CEX, INCONCLUSIVE
from engine import ch

LITERALS = ('lit_str_sqlite', 'lit_str_postgres', 'lit_str_oracle', 'lit_str_mysql', 'lit_str_mysql_no_backslash_escapes',
            'lit_str_mysql_backslash', 'lit_str_styles', 'lit_int', 'lit_bool_none', 'mod_percent')
NUMBERING = tuple('numbering_' + s for s in ('qmark', 'format', 'numeric', 'named', 'pyformat')) + ('numbering_dialects', 'param_converter')
IDENTS = ('ident_sqlite', 'ident_postgres', 'ident_mysql', 'ident_oracle', 'ident_oracle_dquote', 'ident_percent_postgres', 'ident_percent_mysql')
LIKES = ('like_lemma', 'like_const_sqlite', 'like_const_oracle', 'like_const_postgres', 'like_const_mysql',
         'like_const_backslash_postgres', 'like_const_backslash_mysql',
         'like_nonconst_sqlite', 'like_nonconst_postgres', 'like_nonconst_mysql', 'like_nonconst_oracle')
HARNESSES = LITERALS + NUMBERING + IDENTS + LIKES


def classify(spec, cex):
    """stable keys for the carved-out regions only (each such harness has the region as its precondition)"""
    fn = spec['fn']
    if fn == 'lit_str_mysql_backslash' and '\\' in cex.get('s', ''):
        return 'mysql-inline-literal-backslash'
    if fn in ('like_const_backslash_postgres', 'like_const_backslash_mysql') and '\\' in cex.get('x', ''):
        return 'like-constant-operand-backslash-default-escape'
    if fn in ('ident_percent_postgres', 'ident_percent_mysql') and '%' in cex.get('alias', '') + cex.get('name', ''):
        return 'identifier-percent-under-format-paramstyle'
    if fn == 'ident_oracle_dquote' and '"' in cex.get('alias', '') + cex.get('name', ''):
        return 'oracle-identifier-double-quote'
    return None


def run(tier, seed, only=None):
    from pony.orm import sqlbuilding as sb, sqltranslation as st, dbapiprovider as dp
    rep = Report('C06', 'other',
                 'CrossHair symbolic execution of the real SQL builder, value classes, parameter adapter, quote_name and '
                 'StringMixin LIKE translation: the value / operand / identifier / parameter-key sequence is symbolic; the (sql, arguments) '
                 'pair handed to cursor.execute is lexed by a reference model of the driver and the dialect and must contain exactly the '
                 'intended tokens with exactly the supplied values. Only "Confirmed over all paths" counts as holding.')
    T = 150 if tier == 'quick' else 900
    if tier == 'thorough':      # read by checks/h_c06.py in the worker processes
        os.environ.update({'C06_N_LIT': '4', 'C06_N_X': '3', 'C06_N_S': '4', 'C06_N_ID': '3', 'C06_N_INT': '9'})
    from checks import h_c06 as h
    rep.fn(sb.SQLBuilder.__init__, sb.SQLBuilder.make_param, sb.SQLBuilder.PARAM, sb.SQLBuilder.VALUE, sb.SQLBuilder.MOD, sb.SQLBuilder.COLUMN,
           sb.SQLBuilder.LIKE, sb.SQLBuilder.NOT_LIKE, sb.SQLBuilder.REPLACE, sb.SQLBuilder.CONCAT, sb.SQLBuilder.compound_name,
           sb.Param.eval, sb.Param.__str__, sb.Value.__str__, sb.Value.quote_str, sb.flat, dp.DBAPIProvider.quote_name,
           st.StringMixin._like, st.StringMixin.contains, st.StringMixin.call_startswith, st.StringMixin.call_endswith)
    for p in h.PROVIDERS:
        prov = h.provider(p)
        rep.fn(prov.sqlbuilder_cls.value_class.__str__)
        if 'CONCAT' in prov.sqlbuilder_cls.__dict__: rep.fn(prov.sqlbuilder_cls.CONCAT)
        if 'MOD' in prov.sqlbuilder_cls.__dict__: rep.fn(prov.sqlbuilder_cls.MOD)
    specs = [dict(module='checks.h_c06', fn=f, cond_timeout=T, path_timeout=T / 2, setup='setup') for f in HARNESSES]
    if only: specs = [s for s in specs if only in s['fn']]
    rep.bounds = {
        'inline string literal': 'len <= %d over %r (MySQL default sql_mode: without the backslash; the backslash region is a harness of its own)' % (h.N_LIT, h.LIT_ALPHA),
        'inline integer': '|n| < 10**%d, all four dialects' % h.N_INT,
        'LIKE operand': 'len <= %d over %r (left-hand string: unbounded through the canonical-pattern argument; like_lemma: len <= %d)' % (h.N_X, h.LIKE_ALPHA_B, h.N_S),
        'parameters': '<= %d occurrences of <= 3 distinct keys (plain variable, two items of a tuple variable), values unbounded ints; five paramstyles' % h.N_PAR,
        'identifiers': 'alias len <= %d, name len <= %d over %r (+ %% where the statement is not %%-interpolated)' % (h.N_ID - 1, h.N_ID, h.ID_ALPHA),
        'dialects': list(h.PROVIDERS)}
    rep.assumptions = [
        'receiving side = reference model in checks/h_c06.py: format/pyformat drivers compute `sql % args` whenever an argument object is passed '
        '(pony builders always pass one); standard-conforming string literals on SQLite/PostgreSQL/Oracle; MySQL default sql_mode (backslash escapes, '
        '"..." is a string) unless stated; Oracle quoted identifiers cannot contain a double quote; LIKE default escape is the backslash on PostgreSQL/MySQL and none on SQLite/Oracle',
        'PostgreSQL / MySQL / Oracle: real translator, builder and provider classes over driver stubs and a fake pool (no server in the sandbox): findings there are model-only',
        'LIKE harnesses build real monads (StringExprMonad / StringConstMonad / StringParamMonad) inside the real translator of a real query and call the real '
        'call_startswith / call_endswith / contains; operands are NOT NULL; Oracle\'s empty-string-is-NULL rule is not modelled',
        'databases, mappings and translators are created in the harness setup, outside the tracer; pony.orm.core.time is frozen there']
    rep.trusted = ['crosshair-tool 0.0.110', 'z3', 'ref_percent / ref_lex / ref_bind / like_items / like_match / sql_eval in checks/h_c06.py',
                   'sqlite3 (validation of the reference LIKE matcher, end-to-end tie)']
    ch.run_harnesses(rep, specs, classify)
    if not only or only == 'tie':
        for f in (tie_matcher_vs_sqlite, tie_sqlite_end_to_end, tie_monads_vs_real_query, tie_param_paths, tie_other_literals):
            t0 = time.time()
            try:
                f(rep, tier)
            except Exception as e:      # a tie that cannot run is a harness error, not a pass
                import traceback
                rep.harness_errors.append('%s: %s' % (f.__name__, traceback.format_exc()[-600:]))
    return rep


def _strs(alpha, n):
    for k in range(n + 1):
        for t in itertools.product(alpha, repeat=k):
            yield ''.join(t)


def tie_matcher_vs_sqlite(rep, tier):
    """Concrete validation of the reference LIKE matcher (h_c06.ref_like) against real SQLite on a connection opened by pony
    (case_sensitive_like pragma as pony sets it), with and without ESCAPE '!'."""
    from checks import h_c06 as h
    from pony.orm import db_session
    db = h.get_db('sqlite')
    alpha = '%_!aA\\'
    n_s, n_p = (2, 3) if tier == 'quick' else (3, 4)
    bad, cnt = None, 0
    with db_session:
        cur = db.get_connection().cursor()
        for s in _strs(alpha, n_s):
            for p in _strs(alpha, n_p):
                for esc in (None, '!'):
                    try: want = h.ref_like(s, p, esc)
                    except h.PatternError: want = False       # SQLite: a pattern ending in the escape character matches nothing
                    if esc is None: cur.execute('select ? like ?', (s, p))
                    else: cur.execute("select ? like ? escape '!'", (s, p))
                    got = bool(cur.fetchone()[0])
                    cnt += 1
                    if got != want and bad is None: bad = (s, p, esc, got, want)
    if bad is None:
        rep.add(Ob('tie:ref_like == SQLite LIKE (%d pairs)' % cnt, 'concrete-tie', HOLDS, detail='strings len <= %d, patterns len <= %d over %r' % (n_s, n_p, alpha)))
    else:
        rep.add(Ob('tie:ref_like == SQLite LIKE', 'concrete-tie', INCONCLUSIVE, detail='reference matcher disagrees with SQLite on %r' % (bad,)))


def tie_sqlite_end_to_end(rep, tier):
    """Concrete tie through the public API on real SQLite: constant / parameter / column operands of startswith, endswith, in,
    not in, and inline string literals in `==`, for every string of the bound; the backend's answer must equal Python's."""
    from checks import h_c06 as h
    from pony.orm import db_session, select, commit
    from pony.orm import core
    db = h.get_db('sqlite')
    T = db.T
    vals = list(_strs(h.LIKE_ALPHA_B, 2)) + ["'", "''", "a'", '"', 'é%', '%s', '?', ':p1']
    with db_session:
        if not select(t for t in T).exists():
            for s in vals:
                for x in vals:
                    T(s=s, x=x)
            commit()
    rows = [(s, x) for s in vals for x in vals]
    pyops = {'startswith': lambda s, x: s.startswith(x), 'endswith': lambda s, x: s.endswith(x), 'in': lambda s, x: x in s,
             'not in': lambda s, x: x not in s, '==': lambda s, x: s == x}
    src = {'startswith': 't.s.startswith(%s)', 'endswith': 't.s.endswith(%s)', 'in': '%s in t.s', 'not in': '%s not in t.s', '==': 't.s == %s'}
    n = 0
    fails = []
    with db_session:
        for op in ('startswith', 'endswith', 'in', 'not in', '=='):
            for kind in ('const', 'param', 'col'):
                for x in ([None] if kind == 'col' else vals):
                    if op == '==' and x == '': continue       # `t.s == ''` is translated specially (Oracle compatibility), not a literal question
                    operand = repr(x) if kind == 'const' else 'x' if kind == 'param' else 't.x'
                    q = 'select((t.s, t.x) for t in T if %s)' % (src[op] % operand)
                    try:
                        got = sorted(set(core.select(q[7:-1], {'T': T}, {'x': x})[:]))
                    except Exception as e:      # the statement did not even run: the value changed its structure
                        got = 'raised %s: %s' % (type(e).__name__, e)
                    want = sorted(set((s, xx) for (s, xx) in rows if pyops[op](s, xx if kind == 'col' else x)))
                    n += 1
                    if got != want:
                        fails.append((op, kind, x, q))
    if not fails:
        rep.add(Ob('tie:real SQLite end-to-end (%d queries x %d rows)' % (n, len(rows)), 'concrete-tie', HOLDS))
    for op, kind, x, q in fails[:5]:
        rep.add(Ob('tie:real SQLite %s/%s operand %r' % (op, kind, x), 'concrete-tie', CEX, cex={'op': op, 'kind': kind, 'x': x, 'query': q},
                   reproduced=True, detail='rows returned by SQLite differ from Python\'s %s' % op,
                   replay=_E2E_REPLAY % {'x': x, 'q': q, 'py': {'startswith': 's.startswith(X)', 'endswith': 's.endswith(X)', 'in': 'X in s', 'not in': 'X not in s', '==': 's == X'}[op],
                                         'xx': 'xx' if kind == 'col' else 'x'}))


_E2E_REPLAY = '''from pony.orm import *
db = Database('sqlite', ':memory:')
class T(db.Entity):
    s = Optional(str)
    x = Optional(str)
db.generate_mapping(create_tables=True)
vals = ['', '%%', '_', '!', 'a', '\\\\', 'a%%', '%%a', '!%%', "a'", 'a_']
x = %(x)r
with db_session:
    for s in vals:
        for xx in vals: T(s=s, x=xx)
    flush()
    got = sorted(set(%(q)s[:]))
    want = sorted(set((s, xx) for s in vals for xx in vals if (lambda s, X: %(py)s)(s, %(xx)s)))
print('got ', got); print('want', want)
raise SystemExit(0 if got == want else 1)
'''


def tie_monads_vs_real_query(rep, tier):
    """The LIKE harnesses call the monad methods directly (a symbolic constant cannot be spelled in query source text).
    Tie: for concrete operands the WHERE condition of a real query - public select() through decompiler, translator and
    builder - is the same text as the statement the harnesses obtain from like_sql()."""
    from checks import h_c06 as h
    from pony.orm import db_session
    from pony.orm import core
    bad, n = [], 0
    src = ('t.s.startswith(%s)', 't.s.endswith(%s)', '%s in t.s', '%s not in t.s')
    for p in h.PROVIDERS:
        db = h.get_db(p)
        with db_session:
            for op in range(4):
                for kind in ('const', 'param', 'col'):
                    for x in ('a', '%', 'a_!', "'\\"):
                        if kind == 'col' and x != 'a': continue
                        operand = repr(x) if kind == 'const' else 'x' if kind == 'param' else 't.x'
                        q = core.select('t.s for t in T if ' + src[op] % operand, {'T': db.T}, {'x': x})
                        sql, args = q._construct_sql_and_arguments()[:2]
                        cond, hargs = h.like_sql(p, op, kind, x)
                        n += 1
                        where = sql.split('WHERE ', 1)[1].strip().replace('t-1', 't')      # pony names the alias t-1 because the entity is called T
                        if p == 'oracle':       # Oracle: column names are upper-cased by the mapping; Optional(str) is nullable ('' is NULL)
                            where = where.replace('"S"', '"s"').replace('"X"', '"x"')
                            tail = ' OR "t"."s" IS NULL)'
                            if where.startswith('(') and where.endswith(tail): where = where[1:-len(tail)]
                        if where != cond or (kind == 'param' and (list(args.values()) if isinstance(args, dict) else list(args)) != [x]):
                            bad.append((p, op, kind, x, where, cond))
    if not bad:
        rep.add(Ob('tie:monad-level statement == WHERE clause of the real query (%d queries, 4 dialects)' % n, 'concrete-tie', HOLDS))
    else:
        rep.add(Ob('tie:monad-level statement == WHERE clause of the real query', 'concrete-tie', INCONCLUSIVE,
                   detail='harness and public API disagree: %r' % (bad[0],)))


def tie_param_paths(rep, tier):
    """Concrete tie for the two Param.eval paths the symbolic harnesses reach only in part: items of a tuple variable (index i)
    and the columns of an entity instance with a composite primary key (index j), through real queries on real SQLite;
    the arguments recorded at cursor.execute must be the values in placeholder order and the rows must be Python's answer."""
    from pony.orm import Database, Required, Optional, Set, PrimaryKey, db_session, select
    db = Database('sqlite', ':memory:')

    class P(db.Entity):
        a = Required(int)
        b = Required(int)
        kids = Set('K')
        PrimaryKey(a, b)

    class K(db.Entity):
        p = Required(P)
        s = Optional(str)
    db.generate_mapping(create_tables=True)
    bad = []
    with db_session:
        for a, b in ((1, 2), (2, 1), (1, 1), (7, 9)):
            K(p=P(a=a, b=b), s='%d-%d' % (a, b))
    with db_session:
        for a, b in ((1, 2), (2, 1), (1, 1), (7, 9)):
            p = P[a, b]
            q = select(k.s for k in K if k.p == p)
            sql, args = q._construct_sql_and_arguments()[:2]
            if list(q) != ['%d-%d' % (a, b)] or tuple(args) != (a, b): bad.append(('entity parameter', (a, b), sql, args))
            q = select(k.s for k in K if k.p != p and k.p.a == a)
            if sorted(q) != sorted('%d-%d' % (x, y) for x, y in ((1, 2), (2, 1), (1, 1), (7, 9)) if (x, y) != (a, b) and x == a):
                bad.append(('entity parameter !=', (a, b), q.get_sql(), None))
        for tup in ((1, 7), (7, 1), (2, 2), (9, 1)):
            q = select(k.s for k in K if k.p.a in tup and k.p.b == tup[1])
            want = sorted('%d-%d' % (x, y) for x, y in ((1, 2), (2, 1), (1, 1), (7, 9)) if x in tup and y == tup[1])
            sql, args = q._construct_sql_and_arguments()[:2]
            if sorted(q) != want or tuple(args) != (tup[0], tup[1], tup[1]): bad.append(('tuple parameter', tup, sql, args))
    db.disconnect()
    if not bad:
        rep.add(Ob('tie:entity (composite pk) and tuple parameters through real queries on SQLite', 'concrete-tie', HOLDS))
    for what, v, sql, args in bad[:3]:
        rep.add(Ob('tie:%s %r' % (what, v), 'concrete-tie', CEX, cex={'what': what, 'value': repr(v), 'sql': sql, 'args': repr(args)}, reproduced=True,
                   detail='%s %r: wrong rows or arguments; sql=%s args=%r' % (what, v, sql, args),
                   replay='# %s %r on an entity with PrimaryKey(a, b): sql=%r args=%r\nraise SystemExit(1)\n' % (what, v, sql, args)))


def tie_other_literals(rep, tier):
    """Literal types whose rendering realises under CrossHair (hexlify, isoformat, '%d'): concrete family per dialect.
    The rendered text must lex to the documented literal form and denote the value."""
    import datetime as dt
    from decimal import Decimal
    from checks import h_c06 as h
    D, TS, TD = dt.date, dt.datetime, dt.timedelta
    values = [b'', b'\x00', b"'", b'\xff\x27%s', bytes(range(0, 256, 17)),
              D(1, 1, 1), D(2024, 2, 29), D(9999, 12, 31),
              TS(1, 1, 1), TS(2024, 2, 29, 23, 59, 59), TS(2024, 2, 29, 23, 59, 59, 1), TS(9999, 12, 31, 23, 59, 59, 999999),
              TD(0), TD(seconds=1), TD(microseconds=1), TD(days=1, seconds=3661, microseconds=50), TD(days=-1), TD(microseconds=-1),
              TD(days=-3, seconds=7, microseconds=9), TD(days=4000, seconds=86399),
              0.0, -0.0, 1.5, -2.25, 1e-5, 1e22, 1.7976931348623157e308, 5e-324, 0.1,
              Decimal('0'), Decimal('-1.50'), Decimal('1E+2'), Decimal('123456789.000000001')]
    n, bad = 0, []
    for p in h.PROVIDERS:
        prov = h.provider(p)
        for v in values:
            sql, adapter = h.build(prov, ['EQ', ['COLUMN', None, 'c'], ['VALUE', v]])
            toks = h.db_sees(sql, adapter({}), p, prov.paramstyle)
            n += 1
            try:
                good = toks is not None and toks[:2] == [('id', 'c'), ('p', '=')] and _denotes(p, toks[2:], v)
            except Exception:
                good = False
            if not good: bad.append((p, v, sql))
    if not bad:
        rep.add(Ob('tie:bytes/date/datetime/timedelta/float/Decimal literals (%d renderings)' % n, 'concrete-tie', HOLDS))
    for p, v, sql in bad[:5]:
        rep.add(Ob('tie:%s literal %r' % (p, v), 'concrete-tie', CEX, cex={'dialect': p, 'value': repr(v), 'sql': sql}, reproduced=True,
                   detail='rendered as %s' % sql, replay='# %s: VALUE %r rendered as %s\nraise SystemExit(1)\n' % (p, v, sql)))


def _num(toks):
    """numeric literal tokens -> text ('-', digits, '.', exponent)"""
    out = ''
    for k, t in toks:
        if k not in ('w', 'p') or not all(c in '0123456789.eE+-' for c in t): raise ValueError(toks)
        out += t
    return out


def _denotes(p, toks, v):
    import datetime as dt
    from decimal import Decimal
    def words(ts): return [t[1].upper() for t in ts if t[0] == 'w']
    if isinstance(v, bytes):
        return len(toks) == 2 and toks[0] in (('w', 'X'), ('w', 'x')) and toks[1][0] == 'str' and bytes.fromhex(toks[1][1]) == v
    if isinstance(v, dt.datetime):
        if p == 'sqlite': lit = toks
        else:
            if toks[0] != ('w', 'TIMESTAMP'): return False
            lit = toks[1:]
        return len(lit) == 1 and lit[0][0] == 'str' and dt.datetime.strptime(lit[0][1], '%Y-%m-%d %H:%M:%S.%f') == v and len(lit[0][1]) == 26
    if isinstance(v, dt.date):
        if p == 'sqlite': lit = toks
        else:
            if toks[0] != ('w', 'DATE'): return False
            lit = toks[1:]
        y, m, d = lit[0][1].split('-')
        return len(lit) == 1 and lit[0][0] == 'str' and (len(y), len(m), len(d)) == (4, 2, 2) and dt.date(int(y), int(m), int(d)) == v
    if isinstance(v, dt.timedelta):
        if p == 'sqlite':       # a REAL number of days that reads back (timedelta(days=real), as SQLiteTimedeltaConverter.sql2py does) as the value
            return dt.timedelta(days=float(_num(toks))) == v
        if toks[0] != ('w', 'INTERVAL') or toks[1][0] != 'str': return False
        unit = words(toks[2:])
        text = toks[1][1]
        if p == 'mysql':
            if unit != (['HOUR_MICROSECOND'] if '.' in text else ['HOUR_SECOND']): return False
        elif unit != ['HOUR', 'TO', 'SECOND']: return False
        neg = text.startswith('-')
        hh, mm, ss = text.lstrip('-').split(':')
        sec, _, frac = ss.partition('.')
        if frac and len(frac) != 6: return False
        if not (0 <= int(mm) < 60 and 0 <= int(sec) < 60): return False
        td = dt.timedelta(hours=int(hh), minutes=int(mm), seconds=int(sec), microseconds=int(frac or 0))
        return (-td if neg else td) == v
    if isinstance(v, float):
        import math
        t = float(_num(toks))
        return t == v and math.copysign(1, t) == math.copysign(1, v)
    if isinstance(v, Decimal):
        return Decimal(_num(toks)) == v
    return False
