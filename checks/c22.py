"""C22 - concurrent threads do not interfere through shared process state.

Part 1 (solver-chosen adversary schedules, checks/h_c22.py): the shared dictionaries are AdvDict instances; before each of
thread A's accesses an adversary (the other threads) may delete the key or install the entry another thread would have
stored; the schedule is the symbolic input, CrossHair explores every schedule, each path is one concrete run of the real
pipeline.  Part 2 (concrete, one case each): objects of another thread's session are refused.
"""
import threading
from engine.core import Report, Ob, HOLDS, CEX
from engine import ch


def classify(spec, cex):
    return None


def cross_thread(rep):
    from pony.orm import Database, Required, Optional, Set, db_session, rollback, core
    db = Database()
    class A(db.Entity):
        x = Required(int)
        bs = Set('B')
    class B(db.Entity):
        a = Optional(A)
        y = Required(int)
        cs = Set('C')
    class C(db.Entity):
        z = Required(int)
        bs = Set(B)
    db.bind('sqlite', ':sharedmemory:')
    db.generate_mapping(create_tables=True)
    with db_session:
        A(id=1, x=1); B(id=1, y=1); C(id=1, z=1)
    box = {}
    ready, done = threading.Event(), threading.Event()
    def other():
        with db_session:
            box['a'] = A[1]; box['b'] = B[1]; box['c'] = C[1]
            ready.set(); done.wait(20)
    th = threading.Thread(target=other); th.start(); ready.wait(20)
    cases = {
        'assign foreign-session object to an attribute': lambda: setattr(B[1], 'a', box['a']),
        'add foreign-session object to a collection': lambda: A[1].bs.add(box['b']),
        'add a single foreign-session object to a many-to-many collection': lambda: C[1].bs.add(box['b']),
        'add a list of foreign-session objects to a many-to-many collection': lambda: C[1].bs.add([box['b']]),
        'remove a foreign-session object from a many-to-many collection': lambda: B[1].cs.remove(box['c']),
        'assign a foreign-session object to a many-to-many collection': lambda: setattr(B[1], 'cs', box['c']),
        'create an object referring to a foreign-session object': lambda: B(id=7, y=1, a=box['a']),
        'load() an object of another thread\'s session': lambda: box['a'].load(),
        'modify an object of another thread\'s session': lambda: setattr(box['a'], 'x', 5),
        'delete an object of another thread\'s session': lambda: box['a'].delete(),
    }
    # the same uses as the FIRST operation of the session (no session cache exists yet when the check is made)
    first = {
        'get(ref=foreign object) as the first operation': lambda: B.get(a=box['a']),
        'exists(ref=foreign object) as the first operation': lambda: B.exists(a=box['a']),
        'create with a foreign reference as the first operation': lambda: B(id=8, y=1, a=box['a']),
        'filter(ref=foreign object) as the first operation': lambda: B.select().filter(a=box['a'])[:],
    }
    cases.update(first)
    try:
        for name, f in cases.items():
            with db_session:
                try:
                    f(); got = 'accepted'
                except core.TransactionError as e: got = 'TransactionError'
                except Exception as e: got = type(e).__name__
                finally: rollback()
            nm = 'cross-thread: ' + name
            if got == 'TransactionError': rep.add(Ob(nm, 'concrete-tie', HOLDS, detail=got))
            else: rep.add(Ob(nm, 'concrete-tie', CEX, detail='expected TransactionError, got %s' % got, cex={'case': name, 'got': got}, reproduced=True, key='foreign-thread-object-modification-accepted' if name.startswith('modify') else None,
                             replay='# C22 cross-thread object use: %s -> %s (expected TransactionError); see checks/c22.py cross_thread()\nraise SystemExit(1)\n' % (name, got)))
    finally:
        done.set(); th.join(20)
    # ... and once more after the other thread's session is OVER (its objects are detached snapshots of a finished session)
    for name, f in first.items():
        with db_session:
            try:
                f(); got = 'accepted'
            except (core.TransactionError, core.DatabaseSessionIsOver) as e: got = type(e).__name__
            except Exception as e: got = type(e).__name__
            finally: rollback()
        nm = 'cross-thread (owner session finished): ' + name
        if got in ('TransactionError', 'DatabaseSessionIsOver'): rep.add(Ob(nm, 'concrete-tie', HOLDS, detail=got))
        else: rep.add(Ob(nm, 'concrete-tie', CEX, detail='expected TransactionError, got %s' % got, cex={'case': name, 'got': got}, reproduced=True, key=None,
                         replay='# C22 cross-thread object use after the owner session ended: %s -> %s (expected TransactionError); see checks/c22.py cross_thread()\nraise SystemExit(1)\n' % (name, got)))


def thread_local_state(rep):
    """Structural tie: every mutable container reachable as an attribute of pony's thread-local objects (core.local, a provider's
    pool, Database._dblocal) is a different object in a second thread - a class-level default shared by all threads is process-wide
    state in disguise."""
    from pony.orm import Database, Required, db_session, core
    db = Database()
    class A(db.Entity):
        x = Required(int)
    db.bind('sqlite', ':sharedmemory:')
    db.generate_mapping(create_tables=True)
    holders = {'core.local': core.local, 'provider.pool': db.provider.pool, 'db._dblocal': db._dblocal}
    def snap():
        with db_session:
            A.select()[:]
            out = {}
            for hn, h in holders.items():
                for k in dir(h):
                    if k.startswith('__'): continue
                    try: v = getattr(h, k)
                    except Exception: continue
                    if isinstance(v, (list, dict, set)): out['%s.%s' % (hn, k)] = id(v)
            return out
    mine = snap()
    box = {}
    th = threading.Thread(target=lambda: box.update(snap())); th.start(); th.join(20)
    # Pool.forked_connections is a class-level, append-only keep-alive list (connections inherited through fork() must never be
    # garbage-collected, i.e. closed, in the child); nothing ever reads it, so it carries no state from one thread to another
    shared = sorted(k for k in mine if k in box and mine[k] == box[k] and k != 'provider.pool.forked_connections')
    if shared:
        rep.add(Ob('thread-local state is per thread', 'structural', CEX, detail='the same mutable object is seen by two threads: %s' % ', '.join(shared),
                   cex={'shared': shared}, reproduced=True, key=None,
                   replay='# C22: mutable thread-local state shared between threads: %r (see checks/c22.py thread_local_state)\nraise SystemExit(1)\n' % (shared,)))
    else:
        rep.add(Ob('thread-local state is per thread', 'structural', HOLDS, detail='%d mutable containers compared' % len(mine)))


def run(tier, seed, only=None):
    import os
    from pony.orm import core, asttranslation, decompiling
    rep = Report('C22', 'fault_enumeration',
                 'Shared caches are wrapped so that an adversary acts before each access of the thread under test (nothing / delete the key / install '
                 'another thread\'s legitimate entry); the adversary schedule is symbolic and CrossHair explores every schedule over the real query '
                 'pipeline (each path one concrete run). Asserted: same SQL and arguments as single-threaded, no spurious exception. Second family: the preemption point inside a query method (count, order_by(None), random, bulk delete ...) is symbolic; a real second thread runs the same location to completion there; both threads must produce their single-threaded SQL.')
    rep.fn(core.Query.__init__, core.Query._get_translator, core.Query._construct_sql_and_arguments, core.string2ast, asttranslation.create_extractors,
           decompiling.decompile, core.adapt_sql)
    T = 150 if tier == 'quick' else 900
    from checks import h_c22 as h
    specs = [dict(module='checks.h_c22', fn='adversary_q%d' % i, cond_timeout=T, path_timeout=T / 2, setup='setup') for i in range(6)]
    specs += [dict(module='checks.h_c22', fn='adversary_late_q%d' % i, cond_timeout=T, path_timeout=T / 2, setup='setup') for i in range(6)]
    acts = [n for n, _ in h.ACTS]
    specs += [dict(module='checks.h_c22', fn='preempt_%s' % n, cond_timeout=T, path_timeout=T / 2, setup='setup') for n in acts]
    # the SQLite write lock (provider.transaction_lock) is process-wide state too: under every placement of driver faults a session releases it
    # exactly as often as it acquired it (a second release would free the lock ANOTHER thread holds).  Shared with C19 (its quick bounds).
    specs += [dict(module='checks.h_c19', fn=f, cond_timeout=T, path_timeout=T / 2, setup='setup') for f in (('file_imm',) if tier == 'quick' else ('file_imm', 'file_opt', 'file_ro'))]
    if only: specs = [s for s in specs if only in s['fn']]
    ch.run_harnesses(rep, specs, classify)
    if not only: cross_thread(rep); thread_local_state(rep)
    rep.extra = {'fault_points': 8, 'faults_injected': 5 ** 4 * 12 * 2}
    rep.bounds = {'adversary': '4 actions (nothing / delete the key / install the other thread\'s entry / a real second thread runs the same location to completion before / right after the access) around each of accesses 1-4 (adversary_q*) and 5-8 (adversary_late_q*) of the shared caches (of 4-20 per query), cold and warm start',
                  'preemption': 'a real second thread runs the same program location from start to end at the k-th preemption point inside a query method of the first thread (k symbolic, 0 <= k < %d): '
                                'every entry into a pony function and every %d-th entry into any other Python function (copy.deepcopy ...); methods: %s' % (h.KMAX, h.STRIDE, ', '.join(n for n, _ in h.ACTS)),
                  'queries': '6 program locations (pinned slice bounds, plain parameters, string query, index, filter/order_by chain, raw_sql fragment), two parameter vectors'}
    rep.assumptions = ['single dict operations are atomic under the GIL, so adversary-before-each-access covers every schedule with respect to one dictionary',
                       'the adversary only installs entries another thread running the same program location would legitimately have written',
                       'real preemption inside C code and threading.local itself are outside']
    rep.trusted = ['crosshair-tool (schedule enumeration)', 'AdvDict in checks/h_c22.py']
    return rep
