"""CrossHair harnesses for C06 (values reach the database unchanged: literals, LIKE patterns, parameters, identifiers).

Every harness hands a symbolic value (string / int / key sequence / name) to the REAL pony code
(`SQLBuilder.__init__`, `VALUE`/`Value.__str__`/`quote_str` and the dialect value classes, `PARAM`/`make_param`/
`Param.eval`/adapter, `COLUMN`/`quote_name`, `MOD`, `StringMixin.call_startswith/call_endswith/contains/_like`
on real monads inside a real translator) and takes what pony would pass to `cursor.execute`: the SQL text and the
argument object.  The reference side is written here from the documented rules, not from pony:

* `ref_percent`  - what a `format`/`pyformat` driver does to the text (Python `%` interpolation: `%%` -> `%`,
                   `%s` / `%(name)s` -> the next / the named argument, anything else is an error);
* `ref_lex`      - the dialect's lexer: '...' string literals with '' doubling (MySQL default sql_mode: backslash
                   escapes as well, and "..." is a string), quoted identifiers ("..." with "" doubling; MySQL `...`
                   with `` doubling; Oracle "..." WITHOUT any way to spell the quote), placeholders of the
                   qmark / numeric / named styles outside quotes, words and punctuation;
* `ref_bind`     - PEP 249 matching of placeholders to the argument object;
* `ref_like`     - SQL LIKE with an ESCAPE character (case sensitive; validated against real SQLite by checks/c06.py);
* `sql_eval`     - a few lines evaluating `replace(..)`, `||`, `concat(..)` over the token stream.

Asserted: the token stream the database sees is exactly the expected structure and every value token equals the
value the program supplied.  For LIKE: the pattern the server evaluates (literal, or REPLACE chain over the bound
argument / column), decoded with the ESCAPE character in force (the dialect's default when pony gives none), is the
canonical pattern of the operand - its characters as literals, `%` at the open end(s) - which holds for every left-hand
string; `like_lemma` then shows with both strings symbolic that the canonical pattern means startswith / endswith / in.

Regions where pony is known not to meet the property have harnesses of their own whose precondition IS the region
(lit_str_mysql_backslash, like_const_backslash_*, ident_percent_*, ident_oracle_dquote); every other harness must confirm.
Preconditions never contain a backslash: CrossHair evaluates them from the raw source text of the docstring.
"""
import os
from engine.ch import ok
from engine import env as E0

E0.install_driver_stubs()
from pony.orm import sqlbuilding as sb            # noqa: E402
from pony.orm import sqltranslation as st         # noqa: E402
from pony.orm import core                         # noqa: E402

N_LIT = int(os.environ.get('C06_N_LIT', '3'))      # inline string literal length
N_ID = int(os.environ.get('C06_N_ID', '2'))        # identifier length (two identifiers per statement)
N_S = int(os.environ.get('C06_N_S', '3'))          # LIKE: left-hand value length
N_X = int(os.environ.get('C06_N_X', '2'))          # LIKE: operand length
N_INT = int(os.environ.get('C06_N_INT', '6'))      # decimal digits of an inline integer literal
N_PAR = int(os.environ.get('C06_N_PAR', '4'))      # number of parameter occurrences

PROVIDERS = ('sqlite', 'postgres', 'mysql', 'oracle')
STYLES = ('qmark', 'format', 'numeric', 'named', 'pyformat')
LIT_ALPHA = "'\\%\"as\u00e9"          # quote, backslash, percent, the other quote, ordinary, 's' (so that %s can be spelled), non-ASCII
LIT_ALPHA_NB = "'%\"as\u00e9"         # the same without the backslash
ID_ALPHA = "\"`.a"                  # both quote characters, the dot (compound names), an ordinary character
ID_ALPHA_NQ = "`.a"                  # Oracle: no way to spell a double quote inside a quoted identifier
ID_ALPHA_P = ID_ALPHA + "%"          # SQLite / Oracle statements never pass through % interpolation
ID_ALPHA_NQ_P = ID_ALPHA_NQ + "%"
LIKE_ALPHA = "%_!ab"                  # LIKE metacharacters, pony's escape character, two ordinary characters
BS = "\\"                            # (preconditions name it: CrossHair reads them from the raw source text)
LIKE_ALPHA_B = "%_!a\\"               # ... and the backslash (default escape character of PostgreSQL / MySQL)

_dbs = {}


def get_db(pname):
    """A real Database for the dialect with one mapped entity (SQLite: real in-memory file; others: fake pool)."""
    if pname in _dbs: return _dbs[pname]
    from pony.orm import Required, Optional as Opt
    db = E0.sqlite_memory_database() if pname == 'sqlite' else E0.mock_database(pname)

    class T(db.Entity):
        s = Opt(str)
        x = Opt(str)
    db.generate_mapping(check_tables=False, create_tables=(pname == 'sqlite'))
    _dbs[pname] = db
    return db


def provider(pname):
    return get_db(pname).provider


class StyleProvider(object):
    """The generic SQLBuilder only reads `paramstyle` and `quote_name` from its provider; the real DBAPIProvider.quote_name
    (taken from the class, unbound) runs on this object, so that all five parameter styles can be exercised
    (no shipped provider uses `numeric`)."""
    quote_char = '"'
    json1_available = False
    def __init__(self, style): self.paramstyle = style
    def quote_name(self, name):
        from pony.orm.dbapiprovider import DBAPIProvider
        return DBAPIProvider.quote_name(self, name)


_translators = {}


def translator(pname):
    if pname in _translators: return _translators[pname]
    from pony.orm import db_session, select
    db = get_db(pname)
    with db_session:
        q = select(t for t in db.T)
        tr = q._translator
    _translators[pname] = tr
    return tr


def setup():
    """run in the worker before the analysis starts: databases, mappings and translators are built outside the tracer"""
    core.time = _frozen_clock
    for p in PROVIDERS:
        get_db(p)
        translator(p)


def _frozen_clock():
    return 0.0


# ------------------------------------------------------------------ reference: driver + lexer + binding

class LexError(Exception):
    pass


class Arg(object):
    """an argument value spliced in by the driver (format / pyformat) or bound to a placeholder"""
    __slots__ = ('v',)
    def __init__(self, v): self.v = v


def ref_percent(sql, args, style):
    """format / pyformat: the driver evaluates `sql % args` after quoting each argument; returns text chunks and Arg items"""
    items, buf = [], []
    i, n, k = 0, len(sql), 0
    while i < n:
        c = sql[i]
        if c != '%':
            buf.append(c); i += 1
            continue
        if i + 1 >= n: raise LexError('incomplete format')
        d = sql[i + 1]
        if d == '%':
            buf.append('%'); i += 2
            continue
        if style == 'format':
            if d != 's': raise LexError('unsupported format character')
            if not isinstance(args, tuple) or k >= len(args): raise LexError('not enough arguments')
            items.append(''.join(buf)); buf = []
            items.append(Arg(args[k]))
            k += 1; i += 2
        else:
            if d != '(': raise LexError('unsupported format character')
            j = i + 2
            while j < n and sql[j] != ')': j += 1
            if j + 1 >= n or sql[j + 1] != 's': raise LexError('incomplete format key')
            name = sql[i + 2:j]
            if not isinstance(args, dict) or name not in args: raise LexError('missing key')
            items.append(''.join(buf)); buf = []
            items.append(Arg(args[name]))
            i = j + 2
    if style == 'format' and k != len(args): raise LexError('not all arguments converted')
    items.append(''.join(buf))
    return items


MYSQL_ESC = {'0': '\0', "'": "'", '"': '"', 'b': '\b', 'n': '\n', 'r': '\r', 't': '\t', 'Z': '\x1a', '\\': '\\', '%': '\\%', '_': '\\_'}
WORD = 'abcdefghijklmnopqrstuvwxyzABCDEFGHIJKLMNOPQRSTUVWXYZ0123456789_'


def ref_lex(items, dialect, style, backslash=None):
    """Token list: ('str', value) ('id', name) ('ph', key) ('arg', value) ('w', word) ('p', char); blanks are dropped.
    `dialect`: sqlite / postgres (standard_conforming_strings, the default since 9.1) / oracle / mysql
    (`backslash` escapes on unless sql_mode has NO_BACKSLASH_ESCAPES)."""
    if backslash is None: backslash = dialect == 'mysql'
    qid = '`' if dialect == 'mysql' else '"'
    id_doubling = dialect != 'oracle'
    chars = []
    for it in items:
        if isinstance(it, Arg): chars.append(it)
        else: chars.extend(it)
    toks = []
    i, n = 0, len(chars)
    while i < n:
        c = chars[i]
        if isinstance(c, Arg):
            toks.append(('arg', c.v)); i += 1
            continue
        if c == "'" or (c == '"' and dialect == 'mysql'):
            q = c
            buf = []
            j = i + 1
            while True:
                if j >= n: raise LexError('unterminated string literal')
                d = chars[j]
                if isinstance(d, Arg): raise LexError('argument spliced into a string literal')
                if d == q:
                    if j + 1 < n and not isinstance(chars[j + 1], Arg) and chars[j + 1] == q:
                        buf.append(q); j += 2
                        continue
                    break
                if d == '\\' and backslash:
                    if j + 1 >= n or isinstance(chars[j + 1], Arg): raise LexError('unterminated string literal')
                    e = chars[j + 1]
                    buf.append(MYSQL_ESC.get(e, e)); j += 2
                    continue
                buf.append(d); j += 1
            toks.append(('str', ''.join(buf)))
            i = j + 1
            continue
        if c == qid:
            buf = []
            j = i + 1
            while True:
                if j >= n: raise LexError('unterminated quoted identifier')
                d = chars[j]
                if isinstance(d, Arg): raise LexError('argument spliced into an identifier')
                if d == qid:
                    if id_doubling and j + 1 < n and not isinstance(chars[j + 1], Arg) and chars[j + 1] == qid:
                        buf.append(qid); j += 2
                        continue
                    break
                buf.append(d); j += 1
            if not buf: raise LexError('zero-length delimited identifier')
            toks.append(('id', ''.join(buf)))
            i = j + 1
            continue
        if c == '?' and style == 'qmark':
            toks.append(('ph', None)); i += 1
            continue
        if c == ':' and style in ('numeric', 'named') and i + 1 < n and not isinstance(chars[i + 1], Arg) and chars[i + 1] in WORD:
            j = i + 1
            while j < n and not isinstance(chars[j], Arg) and chars[j] in WORD: j += 1
            toks.append(('ph', ''.join(chars[i + 1:j])))
            i = j
            continue
        if c in WORD:
            j = i
            while j < n and not isinstance(chars[j], Arg) and chars[j] in WORD: j += 1
            toks.append(('w', ''.join(chars[i:j])))
            i = j
            continue
        if c in ' \n\t':
            i += 1
            continue
        toks.append(('p', c)); i += 1
    return toks


def ref_bind(toks, args, style):
    """PEP 249: qmark - the k-th `?` takes args[k] (as many arguments as marks); numeric - `:N` takes args[N-1];
    named - `:name` takes args[name] (every supplied name must occur: cx_Oracle, the one shipped `named` driver, rejects others)."""
    out = []
    k = 0
    used = set()
    for t in toks:
        if t[0] != 'ph':
            out.append(t)
            continue
        if style == 'qmark':
            if not isinstance(args, tuple) or k >= len(args): raise LexError('too few arguments')
            out.append(('arg', args[k])); k += 1
        elif style == 'numeric':
            if not isinstance(args, tuple) or not t[1].isdigit(): raise LexError('bad numeric placeholder')
            ix = int(t[1])
            if not 1 <= ix <= len(args): raise LexError('placeholder out of range')
            out.append(('arg', args[ix - 1]))
        else:
            if not isinstance(args, dict) or t[1] not in args: raise LexError('missing named argument')
            out.append(('arg', args[t[1]]))
            used.add(t[1])
    if style == 'qmark' and k != len(args): raise LexError('too many arguments')
    if style == 'named' and len(used) != len(args): raise LexError('bind variable without a placeholder (ORA-01036 on cx_Oracle)')
    return out


def db_sees(sql, args, dialect, style, backslash=None):
    """token stream of the statement as the server receives it, arguments bound; None when it is not lexable"""
    try:
        items = ref_percent(sql, args, style) if style in ('format', 'pyformat') else [sql]
        return ref_bind(ref_lex(items, dialect, style, backslash), args, style)
    except LexError:
        return None


def build(prov, ast):
    """the REAL builder: (sql text, adapter)"""
    cls = getattr(prov, 'sqlbuilder_cls', None) or sb.SQLBuilder
    b = cls(prov, ast)
    return b.sql, b.adapter


# ------------------------------------------------------------------ part 1: inline literals

def _lit_str(pname, s, backslash=None):
    prov = provider(pname)
    sql, adapter = build(prov, ['EQ', ['COLUMN', None, 'c'], ['VALUE', s]])
    toks = db_sees(sql, adapter({}), pname, prov.paramstyle, backslash)
    return toks == [('id', 'c'), ('p', '='), ('str', s)]


def lit_str_sqlite(s: str) -> bool:
    """
    pre: len(s) <= N_LIT
    pre: all(c in LIT_ALPHA for c in s)
    post: _
    """
    return ok(_lit_str('sqlite', s))


def lit_str_postgres(s: str) -> bool:
    """
    pre: len(s) <= N_LIT
    pre: all(c in LIT_ALPHA for c in s)
    post: _
    """
    return ok(_lit_str('postgres', s))


def lit_str_oracle(s: str) -> bool:
    """
    pre: len(s) <= N_LIT
    pre: all(c in LIT_ALPHA for c in s)
    post: _
    """
    return ok(_lit_str('oracle', s))


def lit_str_mysql(s: str) -> bool:
    """
    pre: len(s) <= N_LIT
    pre: all(c in LIT_ALPHA_NB for c in s)
    post: _
    """
    # MySQL, default sql_mode, every string WITHOUT a backslash
    return ok(_lit_str('mysql', s))


def lit_str_mysql_backslash(s: str) -> bool:
    """
    pre: len(s) <= N_LIT
    pre: all(c in LIT_ALPHA for c in s)
    pre: BS in s
    post: _
    """
    # MySQL, default sql_mode (backslash is an escape character inside '...'): the complement region
    return ok(_lit_str('mysql', s))


def lit_str_mysql_no_backslash_escapes(s: str) -> bool:
    """
    pre: len(s) <= N_LIT
    pre: all(c in LIT_ALPHA for c in s)
    post: _
    """
    # MySQL with sql_mode NO_BACKSLASH_ESCAPES: standard literals
    return ok(_lit_str('mysql', s, backslash=False))


def lit_str_styles(s: str, style: int) -> bool:
    """
    pre: len(s) <= N_LIT - 1
    pre: all(c in LIT_ALPHA for c in s)
    pre: 0 <= style < 5
    post: _
    """
    # the generic Value class under each of the five parameter styles (standard SQL lexer)
    prov = StyleProvider(STYLES[style])
    sql, adapter = build(prov, ['EQ', ['COLUMN', None, 'c'], ['VALUE', s]])
    toks = db_sees(sql, adapter({}), 'sqlite', prov.paramstyle)
    return ok(toks == [('id', 'c'), ('p', '='), ('str', s)])


def lit_int(n: int, dialect: int) -> bool:
    """
    pre: 0 <= dialect < 4
    pre: -10 ** N_INT < n < 10 ** N_INT
    post: _
    """
    pname = PROVIDERS[dialect]
    prov = provider(pname)
    sql, adapter = build(prov, ['SUB', ['COLUMN', None, 'c'], ['VALUE', n]])
    toks = db_sees(sql, adapter({}), pname, prov.paramstyle)
    if toks is None or len(toks) < 5: return ok(False)
    if toks[:3] != [('p', '('), ('id', 'c'), ('p', '-')] or toks[-1] != ('p', ')'): return ok(False)
    body = toks[3:-1]
    neg = False
    if body[0] == ('p', '-'):
        neg = True
        body = body[1:]
    # decimal notation of |n| (Python's own str() of a non-negative int is the reference decimal renderer), sign in front
    if len(body) != 1 or body[0][0] != 'w': return ok(False)
    return ok(neg == (n < 0) and body[0][1] == str(-n if n < 0 else n))


def lit_bool_none(kind: int, dialect: int) -> bool:
    """
    pre: 0 <= dialect < 4
    pre: 0 <= kind < 3
    post: _
    """
    pname = PROVIDERS[dialect]
    prov = provider(pname)
    value = (None, False, True)[kind]
    sql, adapter = build(prov, ['EQ', ['COLUMN', None, 'c'], ['VALUE', value]])
    toks = db_sees(sql, adapter({}), pname, prov.paramstyle)
    # documented renderings: NULL keyword; booleans are the keywords true/false on PostgreSQL and the integers 1/0 elsewhere
    if value is None: want = 'null'
    elif pname == 'postgres': want = 'true' if value else 'false'
    else: want = '1' if value else '0'
    return ok(toks is not None and len(toks) == 3 and toks[:2] == [('id', 'c'), ('p', '=')]
              and toks[2][0] == 'w' and toks[2][1].lower() == want)


def mod_percent(s: str, dialect: int, a: int) -> bool:
    """
    pre: len(s) <= 2
    pre: all(c in "%'s" for c in s)
    pre: 0 <= dialect < 4
    post: _
    """
    # the modulo operator next to a literal and a parameter: exactly one `%` operator reaches the server
    pname = PROVIDERS[dialect]
    prov = provider(pname)
    key = ('a', None, None)
    sql, adapter = build(prov, ['EQ', ['MOD', ['COLUMN', None, 'c'], ['PARAM', key, None]], ['VALUE', s]])
    toks = db_sees(sql, adapter({'a': a}), pname, prov.paramstyle)
    if pname == 'oracle':       # Oracle has no % operator: MOD(a, b)
        return ok(toks == [('w', 'MOD'), ('p', '('), ('id', 'c'), ('p', ','), ('arg', a), ('p', ')'), ('p', '='), ('str', s)])
    return ok(toks == [('p', '('), ('id', 'c'), ('p', '%'), ('arg', a), ('p', ')'), ('p', '='), ('str', s)])


# ------------------------------------------------------------------ part 3: parameter numbering

KEYS = (('a', None, None), ('b', 0, None), ('b', 1, None))
NASTY = "? :1 :p1 %s %(p1)s %% '"         # inline literal next to the parameters: every placeholder spelling, inside quotes


def _numbering(prov, dialect, n, ks, v0, v1, v2, lit):
    values = {'a': v0, 'b': (v1, v2)}
    want_vals = (v0, v1, v2)
    conds = []
    for i in range(n):
        conds.append(['EQ', ['COLUMN', None, 'c'], ['PARAM', KEYS[ks[i]], None]])
    conds.append(['EQ', ['COLUMN', None, 'c'], ['VALUE', lit]])
    ast = ['SELECT', ['ALL', ['COLUMN', None, 'c']], ['FROM', [None, 'TABLE', 'T']], ['WHERE'] + conds]
    sql, adapter = build(prov, ast)
    toks = db_sees(sql, adapter(values), dialect, prov.paramstyle)
    want = [('w', 'SELECT'), ('id', 'c'), ('w', 'FROM'), ('id', 'T'), ('w', 'WHERE')]
    for i in range(n):
        want += [('id', 'c'), ('p', '='), ('arg', want_vals[ks[i]]), ('w', 'AND')]
    want += [('id', 'c'), ('p', '='), ('str', lit)]
    return toks == want


def _numbering_style(style, n, k0, k1, k2, k3, v0, v1, v2, lit):
    return _numbering(StyleProvider(style), 'sqlite', n, (k0, k1, k2, k3), v0, v1, v2, lit)


def numbering_qmark(n: int, k0: int, k1: int, k2: int, k3: int, v0: int, v1: int, v2: int) -> bool:
    """
    pre: 0 <= n <= N_PAR and 0 <= k0 < 3 and 0 <= k1 < 3 and 0 <= k2 < 3 and 0 <= k3 < 3
    post: _
    """
    return ok(_numbering_style('qmark', n, k0, k1, k2, k3, v0, v1, v2, NASTY))


def numbering_format(n: int, k0: int, k1: int, k2: int, k3: int, v0: int, v1: int, v2: int) -> bool:
    """
    pre: 0 <= n <= N_PAR and 0 <= k0 < 3 and 0 <= k1 < 3 and 0 <= k2 < 3 and 0 <= k3 < 3
    post: _
    """
    return ok(_numbering_style('format', n, k0, k1, k2, k3, v0, v1, v2, NASTY))


def numbering_numeric(n: int, k0: int, k1: int, k2: int, k3: int, v0: int, v1: int, v2: int) -> bool:
    """
    pre: 0 <= n <= N_PAR and 0 <= k0 < 3 and 0 <= k1 < 3 and 0 <= k2 < 3 and 0 <= k3 < 3
    post: _
    """
    return ok(_numbering_style('numeric', n, k0, k1, k2, k3, v0, v1, v2, NASTY))


def numbering_named(n: int, k0: int, k1: int, k2: int, k3: int, v0: int, v1: int, v2: int) -> bool:
    """
    pre: 0 <= n <= N_PAR and 0 <= k0 < 3 and 0 <= k1 < 3 and 0 <= k2 < 3 and 0 <= k3 < 3
    post: _
    """
    return ok(_numbering_style('named', n, k0, k1, k2, k3, v0, v1, v2, NASTY))


def numbering_pyformat(n: int, k0: int, k1: int, k2: int, k3: int, v0: int, v1: int, v2: int) -> bool:
    """
    pre: 0 <= n <= N_PAR and 0 <= k0 < 3 and 0 <= k1 < 3 and 0 <= k2 < 3 and 0 <= k3 < 3
    post: _
    """
    return ok(_numbering_style('pyformat', n, k0, k1, k2, k3, v0, v1, v2, NASTY))


def numbering_dialects(dialect: int, n: int, k0: int, k1: int, k2: int, v0: int, v1: int, v2: int) -> bool:
    """
    pre: 0 <= dialect < 4
    pre: 0 <= n <= 3 and 0 <= k0 < 3 and 0 <= k1 < 3 and 0 <= k2 < 3
    post: _
    """
    # the shipped builders (SQLiteBuilder, PGSQLBuilder, MySQLBuilder, OraBuilder) with their own style and lexer
    pname = PROVIDERS[dialect]
    return ok(_numbering(provider(pname), pname, n, (k0, k1, k2), v0, v1, v2, NASTY))


def param_converter(dialect: int, v: str, w: str, first: bool) -> bool:
    """
    pre: 0 <= dialect < 4
    pre: len(v) <= 2 and len(w) <= 2
    post: _
    """
    # string parameters through the provider's real str converter (val2dbval + py2sql) arrive unchanged, each at its own placeholder
    pname = PROVIDERS[dialect]
    prov = provider(pname)
    conv = prov.get_converter_by_py_type(str)
    k1, k2 = ('v', None, None), ('w', None, None)
    if not first: k1, k2 = k2, k1
    ast = ['AND', ['EQ', ['COLUMN', None, 'c'], ['PARAM', k1, conv]], ['EQ', ['COLUMN', None, 'd'], ['PARAM', k2, conv]],
           ['EQ', ['COLUMN', None, 'e'], ['PARAM', k1, conv]]]
    sql, adapter = build(prov, ast)
    vals = {'v': v, 'w': w}
    toks = db_sees(sql, adapter(vals), pname, prov.paramstyle)
    return ok(toks == [('id', 'c'), ('p', '='), ('arg', vals[k1[0]]), ('w', 'AND'), ('id', 'd'), ('p', '='), ('arg', vals[k2[0]]),
                       ('w', 'AND'), ('id', 'e'), ('p', '='), ('arg', vals[k1[0]])])


# ------------------------------------------------------------------ part 4: identifiers

def _ident(pname, alias, name):
    prov = provider(pname)
    sql, adapter = build(prov, ['EQ', ['COLUMN', alias, name], ['VALUE', 1]])
    toks = db_sees(sql, adapter({}), pname, prov.paramstyle)
    if toks != [('id', alias), ('p', '.'), ('id', name), ('p', '='), ('w', '1')]: return False
    # compound (schema, table) names: DBAPIProvider.quote_name on a tuple, and SQLBuilder.compound_name in FROM
    sql, adapter = build(prov, ['SELECT', ['ALL', ['VALUE', 1]], ['FROM', [None, 'TABLE', (alias, name)]]])
    toks = db_sees(sql, adapter({}), pname, prov.paramstyle)
    if toks != [('w', 'SELECT'), ('w', '1'), ('w', 'FROM'), ('id', alias), ('p', '.'), ('id', name)]: return False
    toks = db_sees(prov.quote_name((alias, name)), (), pname, 'qmark')
    return toks == [('id', alias), ('p', '.'), ('id', name)]


def ident_sqlite(alias: str, name: str) -> bool:
    """
    pre: 1 <= len(alias) <= N_ID - 1 and 1 <= len(name) <= N_ID
    pre: all(c in ID_ALPHA_P for c in alias) and all(c in ID_ALPHA_P for c in name)
    post: _
    """
    return ok(_ident('sqlite', alias, name))


def ident_postgres(alias: str, name: str) -> bool:
    """
    pre: 1 <= len(alias) <= N_ID - 1 and 1 <= len(name) <= N_ID
    pre: all(c in ID_ALPHA for c in alias) and all(c in ID_ALPHA for c in name)
    post: _
    """
    return ok(_ident('postgres', alias, name))


def ident_mysql(alias: str, name: str) -> bool:
    """
    pre: 1 <= len(alias) <= N_ID - 1 and 1 <= len(name) <= N_ID
    pre: all(c in ID_ALPHA for c in alias) and all(c in ID_ALPHA for c in name)
    post: _
    """
    return ok(_ident('mysql', alias, name))


def ident_oracle(alias: str, name: str) -> bool:
    """
    pre: 1 <= len(alias) <= N_ID - 1 and 1 <= len(name) <= N_ID
    pre: all(c in ID_ALPHA_NQ_P for c in alias) and all(c in ID_ALPHA_NQ_P for c in name)
    post: _
    """
    return ok(_ident('oracle', alias, name))


def ident_oracle_dquote(alias: str, name: str) -> bool:
    """
    pre: 1 <= len(alias) <= N_ID - 1 and 1 <= len(name) <= N_ID
    pre: all(c in ID_ALPHA for c in alias) and all(c in ID_ALPHA for c in name)
    pre: '"' in alias or '"' in name
    post: _
    """
    # complement region: Oracle quoted identifiers cannot contain a double quote (no doubling rule); an error is accepted
    try:
        return ok(_ident('oracle', alias, name))
    except Exception:
        return ok(True)


def _ident_percent(pname, alias, name):
    try:
        return _ident(pname, alias, name)
    except Exception:
        return True


def ident_percent_postgres(alias: str, name: str) -> bool:
    """
    pre: 1 <= len(alias) <= N_ID - 1 and 1 <= len(name) <= N_ID
    pre: all(c in 'a%s' for c in alias) and all(c in 'a%s' for c in name)
    pre: '%' in alias or '%' in name
    post: _
    """
    # complement region: a name containing `%` in a statement that goes through a pyformat driver
    return ok(_ident_percent('postgres', alias, name))


def ident_percent_mysql(alias: str, name: str) -> bool:
    """
    pre: 1 <= len(alias) <= N_ID - 1 and 1 <= len(name) <= N_ID
    pre: all(c in 'a%s' for c in alias) and all(c in 'a%s' for c in name)
    pre: '%' in alias or '%' in name
    post: _
    """
    return ok(_ident_percent('mysql', alias, name))


# ------------------------------------------------------------------ part 2: LIKE

class PatternError(Exception):
    pass


ANY, ONE, LIT = 2, 1, 0


def like_items(pattern, esc):
    """SQL LIKE pattern -> items: (ANY,) for `%`, (ONE,) for `_`, (LIT, c) for c; the character after `esc` stands for
    itself (a pattern ending in `esc` is an error)."""
    items = []
    i, n = 0, len(pattern)
    while i < n:
        c = pattern[i]
        if esc is not None and c == esc:
            if i + 1 >= n: raise PatternError('pattern ends with the escape character')
            items.append((LIT, pattern[i + 1])); i += 2
        elif c == '%':
            items.append((ANY, None)); i += 1
        elif c == '_':
            items.append((ONE, None)); i += 1
        else:
            items.append((LIT, c)); i += 1
    return items


def ref_like(s, pattern, esc):
    """s LIKE pattern ESCAPE esc (case sensitive); validated against real SQLite by checks/c06.py"""
    return like_match(s, 0, like_items(pattern, esc), 0)


def like_match(s, si, items, pi):
    if pi == len(items): return si == len(s)
    kind, ch = items[pi]
    if kind == ANY:
        k = si
        while True:
            if like_match(s, k, items, pi + 1): return True
            if k >= len(s): return False
            k += 1
    if si >= len(s): return False
    if kind == ONE or s[si] == ch: return like_match(s, si + 1, items, pi + 1)
    return False


def collapse(items):
    """adjacent `%` items mean the same as one"""
    out = []
    for it in items:
        if it[0] == ANY and out and out[-1][0] == ANY: continue
        out.append(it)
    return out


def canonical_items(op, x):
    """the pattern that MEANS startswith(x) / endswith(x) / x in .. : the characters of x as literals, `%` at the open end(s)"""
    return collapse(([(ANY, None)] if op != 0 else []) + [(LIT, c) for c in x] + ([(ANY, None)] if op != 1 else []))


class EvalError(Exception):
    pass


def sql_replace(s, a, b):
    """SQL replace(): every occurrence of a in s becomes b; an empty a leaves s alone"""
    if len(a) == 0: return s
    if len(a) == 1:
        return ''.join([(b if c == a else c) for c in s])
    return s.replace(a, b)


def sql_eval(toks, pos, cols):
    """value of a string expression starting at toks[pos]: literal, bound argument, "t"."col", replace(e, e, e),
    concat(e, ...), (e || e ...); returns (value, next position)"""
    t = toks[pos]
    if t[0] in ('str', 'arg'): return t[1], pos + 1
    if t[0] == 'id':
        if toks[pos + 1] != ('p', '.') or toks[pos + 2][0] != 'id': raise EvalError(pos)
        return cols[toks[pos + 2][1]], pos + 3
    if t[0] == 'w' and t[1].lower() in ('replace', 'concat') and toks[pos + 1] == ('p', '('):
        args = []
        pos += 2
        while True:
            v, pos = sql_eval(toks, pos, cols)
            args.append(v)
            if toks[pos] == ('p', ')'): break
            if toks[pos] != ('p', ','): raise EvalError(pos)
            pos += 1
        if t[1].lower() == 'concat': return ''.join(args), pos + 1
        if len(args) != 3: raise EvalError(pos)
        return sql_replace(args[0], args[1], args[2]), pos + 1
    if t == ('p', '('):
        parts = []
        pos += 1
        while True:
            v, pos = sql_eval(toks, pos, cols)
            parts.append(v)
            if toks[pos] == ('p', ')'): break
            if toks[pos] != ('p', '|') or toks[pos + 1] != ('p', '|'): raise EvalError(pos)
            pos += 2
        return ''.join(parts), pos + 1
    raise EvalError(pos)


def like_parts(toks, cols, default_escape):
    """<expr> [NOT] LIKE <expr> [ESCAPE <expr>]  ->  (left value, negated, pattern value, escape character or None)"""
    left, pos = sql_eval(toks, 0, cols)
    negate = False
    if toks[pos] == ('w', 'NOT'):
        negate = True
        pos += 1
    if toks[pos] != ('w', 'LIKE'): raise EvalError(pos)
    pattern, pos = sql_eval(toks, pos + 1, cols)
    esc = default_escape
    if pos < len(toks):
        if toks[pos] != ('w', 'ESCAPE'): raise EvalError(pos)
        esc, pos = sql_eval(toks, pos + 1, cols)
        if len(esc) != 1: raise EvalError(pos)
    if pos != len(toks): raise EvalError(pos)
    return left, negate, pattern, esc


DEFAULT_ESCAPE = {'sqlite': None, 'oracle': None, 'postgres': '\\', 'mysql': '\\'}
OPS = ('startswith', 'endswith', 'in', 'not in')
COL_S = '\x00column-s'


def like_sql(pname, op, kind, x):
    """REAL translation + REAL builder: what goes to cursor.execute for  t.s.startswith(x) / t.s.endswith(x) / x in t.s / x not in t.s
    kind: 'const' (operand written in the query text), 'param' (outer variable), 'col' (another column)"""
    tr = translator(pname)
    prov = provider(pname)
    with tr:
        left = st.StringExprMonad(str, ['COLUMN', 't', 's'], nullable=False)
        if kind == 'const': item = st.StringConstMonad(x)
        elif kind == 'param': item = st.StringParamMonad(str, ('x', None, None))
        else: item = st.StringExprMonad(str, ['COLUMN', 't', 'x'], nullable=False)
        if op == 0: m = left.call_startswith(item)
        elif op == 1: m = left.call_endswith(item)
        elif op == 2: m = left.contains(item)
        else: m = left.contains(item, not_in=True)
        ast = m.getsql()[0]
    sql, adapter = build(prov, ast)
    return sql, adapter({'x': x})


def _like(pname, op, kind, x):
    """the pattern the server evaluates, decoded under the dialect's LIKE rules, must be the canonical pattern for x"""
    prov = provider(pname)
    sql, args = like_sql(pname, op, kind, x)
    toks = db_sees(sql, args, pname, prov.paramstyle)
    if toks is None: return False
    try:
        left, negate, pattern, esc = like_parts(toks, {'s': COL_S, 'x': x}, DEFAULT_ESCAPE[pname])
        items = collapse(like_items(pattern, esc))
    except (EvalError, PatternError, IndexError):
        return False
    return left == COL_S and negate == (op == 3) and items == canonical_items(op, x)


def like_lemma(op: int, s: str, x: str) -> bool:
    """
    pre: 0 <= op < 3 and len(s) <= N_S and len(x) <= N_X
    pre: all(c in "%_a" for c in s) and all(c in "%_a" for c in x)
    post: _
    """
    # no pony code: the canonical pattern, under the reference matcher, means Python's startswith / endswith / in
    got = like_match(s, 0, canonical_items(op, x), 0)
    want = s.startswith(x) if op == 0 else s.endswith(x) if op == 1 else x in s
    return ok(got == want)


def like_const_sqlite(op: int, x: str) -> bool:
    """
    pre: 0 <= op < 4 and len(x) <= N_X
    pre: all(c in LIKE_ALPHA_B for c in x)
    post: _
    """
    return ok(_like('sqlite', op, 'const', x))


def like_const_oracle(op: int, x: str) -> bool:
    """
    pre: 0 <= op < 4 and len(x) <= N_X
    pre: all(c in LIKE_ALPHA_B for c in x)
    post: _
    """
    return ok(_like('oracle', op, 'const', x))


def like_const_postgres(op: int, x: str) -> bool:
    """
    pre: 0 <= op < 4 and len(x) <= N_X
    pre: all(c in LIKE_ALPHA_B for c in x)
    pre: not (BS in x and '%' not in x and '_' not in x)
    post: _
    """
    # every constant operand outside the region of like_const_backslash_postgres
    return ok(_like('postgres', op, 'const', x))


def like_const_mysql(op: int, x: str) -> bool:
    """
    pre: 0 <= op < 4 and len(x) <= N_X
    pre: all(c in LIKE_ALPHA for c in x)
    post: _
    """
    return ok(_like('mysql', op, 'const', x))


def like_const_backslash_postgres(op: int, x: str) -> bool:
    """
    pre: 0 <= op < 4 and len(x) <= N_X
    pre: all(c in LIKE_ALPHA_B for c in x)
    pre: BS in x and '%' not in x and '_' not in x
    post: _
    """
    # complement region: constant operand containing a backslash and no LIKE metacharacter (PostgreSQL's LIKE uses `\\` as the escape character when no ESCAPE is given)
    return ok(_like('postgres', op, 'const', x))


def like_nonconst_sqlite(op: int, col: bool, x: str) -> bool:
    """
    pre: 0 <= op < 4 and len(x) <= N_X
    pre: all(c in LIKE_ALPHA_B for c in x)
    post: _
    """
    return ok(_like('sqlite', op, 'col' if col else 'param', x))


def like_nonconst_postgres(op: int, col: bool, x: str) -> bool:
    """
    pre: 0 <= op < 4 and len(x) <= N_X
    pre: all(c in LIKE_ALPHA_B for c in x)
    post: _
    """
    return ok(_like('postgres', op, 'col' if col else 'param', x))


def like_nonconst_mysql(op: int, col: bool, x: str) -> bool:
    """
    pre: 0 <= op < 4 and len(x) <= N_X
    pre: all(c in LIKE_ALPHA_B for c in x)
    post: _
    """
    return ok(_like('mysql', op, 'col' if col else 'param', x))


def like_nonconst_oracle(op: int, col: bool, x: str) -> bool:
    """
    pre: 0 <= op < 4 and len(x) <= N_X
    pre: all(c in LIKE_ALPHA_B for c in x)
    post: _
    """
    return ok(_like('oracle', op, 'col' if col else 'param', x))


def like_const_backslash_mysql(op: int, x: str) -> bool:
    """
    pre: 0 <= op < 4 and len(x) <= N_X
    pre: all(c in LIKE_ALPHA_B for c in x)
    pre: BS in x
    post: _
    """
    # complement region on MySQL (backslash is both a literal escape and the default LIKE escape)
    return ok(_like('mysql', op, 'const', x))
