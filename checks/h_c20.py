"""scratch prototype"""
import os, re
from engine.ch import ok

db = None
E = G = None
POOL = None


class Cursor(object):
    arraysize = 1

    def __init__(self, con):
        self.con = con
        self._rows = []
        self.description = []
        self.rowcount = -1
        self.lastrowid = None

    def execute(self, sql, args=None):
        con = self.con
        con.log.append((sql, args))
        rows, descr, rowcount = con.respond(sql, args)
        self._rows = list(rows)
        self.description = descr
        self.rowcount = rowcount
        return self

    def executemany(self, sql, args=None):
        self.con.log.append((sql, args))
        self.rowcount = -1

    def fetchone(self): return self._rows.pop(0) if self._rows else None

    def fetchmany(self, size=None):
        size = size or self.arraysize
        out, self._rows = self._rows[:size], self._rows[size:]
        return out

    def fetchall(self):
        out, self._rows = self._rows, []
        return out

    def close(self): pass


class Connection(object):
    def __init__(self):
        self.reset()

    def reset(self, responder=None):
        self.log = []
        self.commits = 0
        self.rollbacks = 0
        self.responder = responder

    def respond(self, sql, args):
        if self.responder is not None:
            r = self.responder(sql, args)
            if r is not None: return r
        return [], [], -1

    def cursor(self): return Cursor(self)
    def commit(self): self.commits += 1; self.log.append(('COMMIT', None))
    def rollback(self): self.rollbacks += 1; self.log.append(('ROLLBACK', None))
    def close(self): pass


class Pool(object):
    def __init__(self): self.con = Connection()
    def connect(self): return self.con, False
    def release(self, con): pass
    def drop(self, con): pass
    def disconnect(self): pass


def setup():
    global db, E, G, POOL
    if db is not None: return
    from engine import env
    from pony.orm import core, PrimaryKey, Required, Optional, Set
    core.time = lambda: 0.0
    db = env.mock_database('sqlite')
    POOL = Pool()
    db.provider.pool = POOL

    class G(db.Entity):
        id = PrimaryKey(int)
        items = Set('E')

    class E(db.Entity):
        id = PrimaryKey(int)
        a = Required(int)                       # plain
        f = Required(float)                     # float: excluded from optimistic checks by its converter
        x = Required(int, optimistic=False)     # excluded by declaration
        v = Optional(int, volatile=True)        # volatile: never read-tracked
        n = Optional(int)                       # nullable
        g = Optional(G)                         # to-one reference
    globals()['E'] = E
    globals()['G'] = G
    db.generate_mapping(check_tables=False)


def _reset():
    from pony.orm import core
    core.local.db2cache.clear()
    core.local.db_session = None
    core.local.db_context_counter = 0
    db._dblocal.stats = {None: core.QueryStat(None)}
    db._dblocal.last_sql = None
    lock = db.provider.transaction_lock
    if lock.locked():
        try: lock.release()
        except Exception: pass


def probe(rbits: int, wbits: int, va: int, vx: int, vg: int, na: int, cur_a: int) -> bool:
    """
    pre: 0 <= rbits < 64 and 0 < wbits < 64
    post: _
    """
    from pony.orm import db_session, core
    _reset()
    con = POOL.con
    state = {}

    def responder(sql, args):
        if sql.startswith('SELECT'):
            return [(1, va, 1.5, vx, 3, None, vg)], [], -1
        if sql.startswith('UPDATE'):
            state['update'] = (sql, args)
            return [], [], 1
        return None
    con.reset(responder)
    try:
        with db_session:
            obj = E._find_in_db_({E.id: 1})
            obj._rbits_ = rbits
            obj._wbits_ = wbits
            obj._vals_[E.a] = na
            obj._status_ = 'modified'
            cache = obj._session_cache_
            obj._save_pos_ = len(cache.objects_to_save)
            cache.objects_to_save.append(obj)
            cache.modified = True
    except Exception as e:
        state['exc'] = e
    return ok('update' in state)
