"""CrossHair harnesses for C20 - optimistic concurrency control prevents lost updates.

Environment argument (part of the claim): whatever other sessions do, they influence session A only through the
*current row* at the moment A's UPDATE executes.  "All interleavings" is therefore replaced by "an arbitrary
current row" (symbolic values, symbolic NULL flags, possibly deleted), decided at the one point where the database
would decide it: the WHERE clause of the UPDATE statement that the real pony code sent.

What runs (real code, imported from /repo): a whole `db_session` on a real `Database` (real SQLiteProvider /
PGProvider, real SQL builders) over a recording fake DB-API: `E.get` / `E.get_for_update` (-> `_find_in_db_`,
`_fetch_objects`, `_parse_row_`, `_db_set_`, `_set_rbits`), the attribute descriptors `Attribute.__get__` /
`Attribute.__set__` (read / write tracking), the commit at session exit (`SessionCache.flush` -> `Entity._save_` ->
`_save_updated_` -> `_construct_optimistic_criteria_`, `populate_criteria_list`, `Database._ast2sql`, the adapter,
`Database._exec_sql`), the row-count test, `OptimisticCheckError` / `find_updated_attributes`, rollback.

Entity under test (6 non-key attributes, one of each kind the mechanism distinguishes):
    a  Required(int)                    plain                            -> checked
    f  Required(float)                  excluded by its converter (RealConverter.optimistic = False)
    x  Required(int, optimistic=False)  excluded by declaration
    v  Optional(int, volatile=True)     volatile: never read-tracked
    n  Optional(int)                    nullable (loaded as NULL or as a value) -> checked, IS NULL form
    g  Optional(G)                      to-one reference (loaded as NULL or G[7]) -> checked

Symbolic per harness: which attributes are read (R) and then assigned (W) through the public descriptors (booleans =
the bits of `_rbits_` / `_wbits_`; the harness also asserts that the resulting masks are exactly R and W), the
loaded row values, the assigned values, the current row (`C`: exists?, value and NULL flag per column).
The masks are given as booleans rather than as one int because CrossHair forks per tested bit either way and
`int & int` / `int | int` on a symbolic int goes through z3's int2bv (3x slower per path, or no answer at all).

Reference statement (function `_core`; not a copy of pony's code):
  S0 the masks after the reads / assignments are exactly R (without the volatile attribute) and W; status 'modified' iff W;
  S1 the UPDATE sets exactly the assigned attributes' columns to the assigned values (argument alignment included);
  S2 its WHERE clause is a conjunction of `col = <param>` / `col IS NULL` terms, the first being the primary key;
  S3 (emission) in an optimistic session and for an object not locked for update: for every attribute in
     required = (R minus W) intersected with {a, n, g} there is a term on its column comparing with the value that was READ
     (`IS NULL` when NULL was read); no optimistic terms at all when the session is not optimistic or the object
     was fetched with get_for_update (the property's two exemptions, as the design states them);
  S4 (decision) the harness evaluates that WHERE text, with the arguments that were really sent, over the symbolic
     current row using SQL semantics (`col = NULL` is never true, a deleted row matches nothing) and reports
     rowcount 1 / 0 accordingly.  Asserted: row matched  =>  for every attribute in `required`: current value ==
     value read (NULL-aware); and, as a guard against a vacuous always-fail implementation: current row identical to
     the loaded row => matched;
  S5 (outcome, optimistic session) matched <=> no error and exactly one commit(); not matched <=> the session raises
     OptimisticCheckError (UnrepeatableReadError also accepted), commit() is never called and rollback() is.
`track_step` is the inductive kernel for read/write tracking (K3): from an arbitrary tracked state (the bits of one
attribute arbitrary, the bits of all others all clear or all set) one descriptor read, one assignment or one query-read
(`EntityMeta._set_rbits`, what `_fetch_objects` does for the attributes a query used) changes the masks exactly as the rule
says (read while not yet written -> read bit; volatile never; assignment -> write bit; nothing else changes, nothing is
ever cleared), so S3's `R` really is "every attribute the session read from the object before overwriting it", for any
operation order.

The save step is part of that kernel (kind 3: flush() -> `_save_updated_` from arbitrary masks: what was read stays read,
what was written counts as read from then on, nothing stays pending), and `upd_twice` runs it end to end: one session
updates the same object twice with a commit() in between (reads of a, n, g before the first commit, optional re-read of a
after it); the SECOND UPDATE must still carry a term with the value read for every attribute read before the first one and
never overwritten, and S4 / S5 hold for it over an arbitrary current row.

Bounds / restructuring w.r.t. DESIGN.md:
  * the full product R x W over the six attributes is 2^11 mask states (the volatile attribute has no read bit) x
    match/no-match; it is covered by sixteen harnesses `upd_w00..upd_w15` that differ only in the fixed bits (w_a, w_f,
    w_x, w_v) - a parallelisation device; every harness is symbolic in the other mask bits and in all values.  In the
    quick tier those sixteen run with the design's row shape (v not read, n loaded NULL, g loaded G[7], non-NULL
    assignments); C20_FULL=1 (thorough) frees "v is read", "n loaded NULL or not" and "g loaded NULL or not".  All NULL shapes of n and g
    (loaded and assigned) are symbolic in `upd_nulls` over the attributes n, g - whose paths also share a WARM
    `_update_sql_cache_` (NULL / non-NULL shapes of the same columns must not collide in the statement cache);
    `upd_volatile` (v, a), `upd_float` (f, a; symbolic finite floats) cover the remaining kinds.
  * K1 sets the masks through the descriptors (read R, then assign W) instead of writing `_rbits_`/`_wbits_` directly;
    other operation orders are covered by `track_step`.
  * reference primary keys are concrete (7 loaded, 8 assigned): a symbolic key would be realised by the identity
    map's dict lookup.  The current row's g column is a symbolic int.  Loaded / assigned ints: any 32-bit value.
  * K2 uses the SQL text + arguments that reached the cursor instead of evaluating the AST with engine/symsql
    (the WHERE clause is a conjunction of two term shapes; anything else fails the harness).
  * PostgreSQL: `upd_pg` runs the same scenario on the real PGProvider / PG builder (pyformat parameters) over
    the attributes a, n, g.  No server: the decision step is the harness' SQL-semantics evaluation in both cases.
  * `upd_for_update` (optimistic and non-optimistic session) and `upd_pessimistic`: a, n, g read; a, x, g assigned.
Stubs: pony.orm.core.time (clock); pony.orm.core.deduplicate (dict-based interning of database values, an identity-
preserving optimisation whose dict lookup would realise symbolic values) -> identity; Database._ast2sql runs outside the
CrossHair tracer (its input holds column names and converter objects only).
Outside: collections, composite keys, more than two UPDATEs of one object / an intermediate auto-flush before a query
(`upd_twice` uses commit()), deletes, the "commits none of its OTHER changes" part (rides on C17; here: commit() is not called).
"""
import math, os, re
from typing import Tuple
from engine.ch import ok

FULL = os.environ.get('C20_FULL') == '1'
ATTRS = ('a', 'f', 'x', 'v', 'n', 'g')
CHECKED = ('a', 'n', 'g')            # attributes for which optimistic checks are enabled (reference statement)
LOADED_G, NEW_G = 7, 8
LO, HI = -2 ** 31, 2 ** 31 - 1
ENVS = {}
LAST = {}
NPATH = [0]

B3 = Tuple[bool, bool, bool]
B6 = Tuple[bool, bool, bool, bool, bool, bool]
LT = Tuple[int, int, int, bool, int, bool]                   # loaded row: a, x, v, n is NULL, n, g is NULL
NT = Tuple[int, int, int, bool, int, bool]                   # assigned values: a, x, v, n := None, n, g := None
CT = Tuple[bool, int, int, int, bool, int, bool, int]        # row exists, a, x, v, n is NULL, n, g is NULL, g


# ---------------------------------------------------------------------------------------------- fake DB-API
class Cursor(object):
    arraysize = 1

    def __init__(self, con):
        self.con = con
        self._rows = []
        self.description = []
        self.rowcount = -1
        self.lastrowid = None

    def execute(self, sql, args=None):
        con = self.con
        con.log.append((sql, args))
        rows, descr, rowcount = con.respond(sql, args)
        self._rows = list(rows)
        self.description = descr
        self.rowcount = rowcount
        return self

    def executemany(self, sql, args=None):
        self.con.log.append((sql, args))
        self.rowcount = -1

    def fetchone(self): return self._rows.pop(0) if self._rows else None

    def fetchmany(self, size=None):
        size = size or self.arraysize
        out, self._rows = self._rows[:size], self._rows[size:]
        return out

    def fetchall(self):
        out, self._rows = self._rows, []
        return out

    def close(self): pass


class Connection(object):
    autocommit = True

    def __init__(self):
        self.reset()

    def reset(self, responder=None):
        self.log = []
        self.commits = 0
        self.rollbacks = 0
        self.responder = responder
        self.autocommit = True

    def respond(self, sql, args):
        if self.responder is not None:
            r = self.responder(sql, args)
            if r is not None: return r
        return [], [], -1

    def cursor(self): return Cursor(self)
    def commit(self): self.commits += 1; self.log.append(('COMMIT', None))
    def rollback(self): self.rollbacks += 1; self.log.append(('ROLLBACK', None))
    def close(self): pass
    def set_client_encoding(self, enc): pass


class Pool(object):
    def __init__(self): self.con = Connection()
    def connect(self): return self.con, False
    def release(self, con): pass
    def drop(self, con): pass
    def disconnect(self): pass


class Env(object):
    pass


def declare(db):
    from pony.orm import PrimaryKey, Required, Optional, Set

    class G(db.Entity):
        id = PrimaryKey(int)
        items = Set('E')

    class E(db.Entity):
        id = PrimaryKey(int)
        a = Required(int)
        f = Required(float)
        x = Required(int, optimistic=False)
        v = Optional(int, volatile=True)
        n = Optional(int)
        g = Optional(G)
    return E, G


def _make(provider):
    from engine import env
    e = Env()
    e.db = env.mock_database(provider)
    e.pool = Pool()
    e.db.provider.pool = e.pool
    e.con = e.pool.con
    e.E, e.G = declare(e.db)
    e.db.generate_mapping(check_tables=False)
    real_ast2sql = e.db._ast2sql

    def ast2sql(sql_ast):
        # the SQL AST holds column names and converter objects only (values travel through the adapter afterwards):
        # the real builder runs outside CrossHair's opcode tracer, which changes cost, not behaviour
        from crosshair.tracers import NoTracing, is_tracing
        if is_tracing():
            with NoTracing(): return real_ast2sql(sql_ast)
        return real_ast2sql(sql_ast)
    e.db._ast2sql = ast2sql
    E = e.E
    e.attr = {n: getattr(E, n) for n in ATTRS}
    e.col = {n: e.attr[n].columns[0] for n in ATTRS}
    e.bit = {n: E._bits_[e.attr[n]] for n in ATTRS}
    e.nvbit = {n: (0 if n == 'v' else e.bit[n]) for n in ATTRS}      # reference: the volatile attribute is never read-tracked
    return e


def setup():
    if ENVS: return
    from pony.orm import core
    if os.environ.get('C20_MUTANT'):              # development only (canaries); checks/c20.py and c21.py remove the variable
        from checks import h_c20_canary
        h_c20_canary.apply(os.environ['C20_MUTANT'])
    core.time = lambda: 0.0
    # pony interns database values through a dict (pony.utils.deduplicate, with a bare `except:`): a pure identity
    # optimisation, but the dict lookup would realise every symbolic value -> replaced by the identity function
    core.deduplicate = lambda value, deduplication_cache: value
    ENVS['sqlite'] = _make('sqlite')
    ENVS['postgres'] = _make('postgres')
    ENVS['composite'] = _make_composite()


def _reset(e, keep_sql_cache=False):
    NPATH[0] += 1
    from pony.orm import core
    core.local.db2cache.clear()
    core.local.db_session = None
    core.local.db_context_counter = 0
    db = e.db
    db._dblocal.stats = {None: core.QueryStat(None)}
    db._dblocal.last_sql = None
    lock = getattr(db.provider, 'transaction_lock', None)
    if lock is not None and lock.locked():
        try: lock.release()
        except Exception: pass
    # statement cache keyed by (columns, optimistic columns, operations): every explored path rebuilds its SQL from the AST,
    # except in upd_nulls, whose paths share the warm cache (NULL / non-NULL shapes of the same columns must not collide)
    if not keep_sql_cache: e.E._update_sql_cache_.clear()


# ---------------------------------------------------------------------------------------------- SQL text
class Unparsed(Exception):
    pass


_PH = r'(\?|%\(p\d+\)s)'
_UPD = re.compile(r'UPDATE "(\w+)"\s+SET\s+(.*?)\s+WHERE\s+(.*)\Z', re.S)
_SET = re.compile(r'"(\w+)" = ' + _PH + r'\Z')
_EQ = re.compile(r'"(\w+)" = ' + _PH + r'\Z')
_NULL = re.compile(r'"(\w+)" IS NULL\Z')
_SEL = re.compile(r'SELECT\s+(.*?)\s+FROM\s+"(\w+)"', re.S)
_PARSED = {}


def parse_update(sql):
    """(table, [(column, placeholder)], [('EQ', column, placeholder) | ('IS_NULL', column)]) of the statement text."""
    r = _PARSED.get(sql)
    if r is not None: return r
    m = _UPD.match(sql)
    if not m: raise Unparsed(sql)
    sets = []
    for item in m.group(2).split(','):
        mm = _SET.match(item.strip())
        if not mm: raise Unparsed('SET item %r' % item)
        sets.append((mm.group(1), mm.group(2)))
    terms = []
    for t in re.split(r'\s+AND\s+', m.group(3).strip()):
        mm = _EQ.match(t)
        if mm: terms.append(('EQ', mm.group(1), mm.group(2))); continue
        mm = _NULL.match(t)
        if mm: terms.append(('IS_NULL', mm.group(1))); continue
        raise Unparsed('WHERE term %r' % t)
    r = _PARSED[sql] = (m.group(1), sets, terms)
    return r


def bind(sql, args):
    """Pairs every placeholder of the text with the argument the driver would bind to it."""
    table, sets, terms = parse_update(sql)
    phs = [ph for _, ph in sets] + [t[2] for t in terms if t[0] == 'EQ']
    if isinstance(args, dict):
        look = lambda ph: args[ph[2:-2]]
        if len(set(phs)) != len(phs) or len(args) != len(phs): raise Unparsed('placeholder/argument mismatch')
        vals = [look(ph) for ph in phs]
    else:
        if len(args) != len(phs) or any(ph != '?' for ph in phs): raise Unparsed('placeholder/argument mismatch')
        vals = list(args)
    it = iter(vals)
    sets = [(c, next(it)) for c, _ in sets]
    terms = [('EQ', t[1], next(it)) if t[0] == 'EQ' else t for t in terms]
    return table, sets, terms


def select_columns(sql):
    m = _SEL.match(sql)
    if not m: return None, None
    return m.group(2), [c.strip().strip('"') for c in m.group(1).split(',')]


def _exc(e):
    """Printable form of an exception without rendering its arguments (they may hold entities or symbolic values; CrossHair's
    `%` copies what it formats and entities refuse to be copied)."""
    if e is None: return 'None'
    a = e.args[0] if e.args and type(e.args[0]) is str else ''
    return type(e).__name__ + ('(' + a[:80] + ')' if a else '')


def _same(x, y):
    return x is y or x == y


# ---------------------------------------------------------------------------------------------- scenario
def _core(R, W, L, N, C, optimistic=True, for_update=False, provider='sqlite', lf=1.5, nf=2.5, keep_sql_cache=False, gvia=0, gpre=0):
    from pony.orm import db_session
    from pony.orm.core import OptimisticCheckError, UnrepeatableReadError
    e = ENVS[provider]
    _reset(e, keep_sql_cache)
    E, G, con, col = e.E, e.G, e.con, e.col
    la, lx, lv, ln_null, ln, lg_null = L
    na, nx, nv, nn_null, nn, ng_null = N
    exists, ca, cx, cv, cn_null, cn, cg_null, cg = C
    loaded = {'id': 1, 'a': la, 'f': lf, 'x': lx, 'v': lv, 'n': None if ln_null else ln, 'g': None if lg_null else LOADED_G}
    # current row as (is NULL, value) per column that may legitimately appear in an equality term
    cur = {'id': (False, 1), 'a': (False, ca), 'x': (False, cx), 'v': (False, cv), 'n': (cn_null, cn), 'g': (cg_null, cg)}
    st = {'updates': [], 'loads': 0, 'matched': None}
    why = []

    def responder(sql, args):
        table, cols = select_columns(sql)
        if table == E._table_:
            st['loads'] += 1
            if st['loads'] == 1 or (gvia and ('WHERE "%s" = ' % col['g']) in sql):
                # (gvia: the collection G[..].items is loaded - the same row again, now found through its "g" column)
                return [tuple(loaded[c] for c in cols)], [(c,) for c in cols], -1
            # find_updated_attributes() after a failed check; its result only feeds the error message ("was deleted")
            return [], [(c,) for c in cols], -1
        if table == G._table_:
            pk = args[0] if not isinstance(args, dict) else list(args.values())[0]
            return [(pk,)], [('id',)], -1
        if sql.startswith('UPDATE'):
            try: tab, sets, terms = bind(sql, args)
            except Unparsed as ex:
                why.append('unparsed UPDATE: %s' % ex)
                st['updates'].append(None)
                return [], [], 0
            m = exists
            for t in terms:
                c = t[1]
                if c not in cur:
                    why.append('term on unexpected column %s' % c); m = False
                    continue
                cnull, cval = cur[c]
                if t[0] == 'IS_NULL': m = m & cnull
                elif t[2] is None: m = False                      # col = NULL is never true
                else: m = m & ((cnull == False) & (cval == t[2]))
            matched = True if m else False                        # the database's decision: the path forks here
            st['matched'] = matched
            st['updates'].append((tab, sets, terms))
            return [], [], (1 if matched else 0)
        return None
    con.reset(responder)

    newval = {}
    masks = None
    exc = None
    try:
        with db_session(optimistic=optimistic):
            g_new = G[NEW_G] if W[5] and not ng_null else None       # fetched first: a query auto-flushes pending changes
            obj = E.get_for_update(id=1) if for_update else E.get(id=1)
            # explicit attribute syntax: CrossHair runs the getattr()/setattr() builtins outside its tracer
            if R[0]: obj.a
            if R[1]: obj.f
            if R[2]: obj.x
            if R[3]: obj.v
            if R[4]: obj.n
            if R[5] and not gvia: obj.g
            if gvia:
                # obj.g becomes known through the other side of the relationship: obj is found among G[LOADED_G].items.
                # gpre: how the collection got loaded before that (0 not at all; 1 len(); 2 load(); 3 a bool test) - loading alone does not
                # show the program which objects are inside, looking at the items does
                grp = G[LOADED_G]
                if gpre == 1: len(grp.items)
                elif gpre == 2: grp.items.load()
                elif gpre == 3: bool(grp.items)
                if R[5]:
                    if gvia == 1:
                        for it in grp.items: pass
                    elif gvia == 2: grp.items.copy()
                    elif gvia == 3: obj in grp.items
                    elif gvia == 4: list(grp.items)
                    else: grp.items == {obj}
            if W[0]: newval['a'] = na; obj.a = na
            if W[1]: newval['f'] = nf; obj.f = nf
            if W[2]: newval['x'] = nx; obj.x = nx
            if W[3]: newval['v'] = nv; obj.v = nv
            if W[4]:
                newval['n'] = val = None if nn_null else nn
                obj.n = val
            if W[5]: newval['g'] = g_new; obj.g = g_new
            masks = (obj._rbits_, obj._wbits_, obj._status_)
    except Exception as ex:
        exc = ex
    LAST.update(exc=exc, log=list(con.log), st=st)

    Rset = [n for i, n in enumerate(ATTRS) if R[i]]
    Wset = [n for i, n in enumerate(ATTRS) if W[i]]
    if masks is None:
        why.append('session body failed: %s' % _exc(exc))
        LAST['why'] = why
        return ok(False)
    if masks[0] != sum(e.nvbit[n] for n in Rset): why.append('rbits %r for reads %r' % (masks[0], Rset))
    if masks[1] != sum(e.bit[n] for n in Wset): why.append('wbits %r for writes %r' % (masks[1], Wset))
    if masks[2] != ('modified' if Wset else 'loaded'): why.append('status %r' % (masks[2],))

    if not Wset:
        if st['updates']: why.append('UPDATE without a modified attribute')
        if exc is not None: why.append('unexpected %s' % _exc(exc))
        LAST['why'] = why
        return ok(not why)

    if len(st['updates']) != 1 or st['updates'][0] is None:
        why.append('expected exactly one well-formed UPDATE, got %r' % (st['updates'],))
        LAST['why'] = why
        return ok(False)
    tab, sets, terms = st['updates'][0]
    matched = st['matched']
    # S1
    if tab != E._table_: why.append('table %r' % tab)
    if sorted(c for c, _ in sets) != sorted(col[n] for n in Wset): why.append('SET columns %r for writes %r' % (sets, Wset))
    else:
        got = dict(sets)
        for n in Wset:
            want = newval[n]
            if n == 'g' and want is not None: want = NEW_G
            have = got[col[n]]
            if (want is None) != (have is None) or (want is not None and not _same(have, want)):
                why.append('SET %s = %r, assigned %r' % (n, have, want))
    # S2
    if not terms or terms[0][0] != 'EQ' or terms[0][1] != 'id' or terms[0][2] != 1: why.append('first WHERE term is not the primary key: %r' % (terms[:1],))
    crit = terms[1:]
    # S3
    checking = optimistic and not for_update
    required = [n for n in Rset if n not in Wset and n in CHECKED] if checking else []
    if not checking and crit: why.append('optimistic terms %r in a non-optimistic session / on a locked object' % (crit,))
    for n in required:
        ts = [t for t in crit if t[1] == col[n]]
        if not ts: why.append('no optimistic term for %s (read, not written)' % n); continue
        for t in ts:
            if loaded[n] is None:
                if t[0] != 'IS_NULL': why.append('%s was read as NULL but is compared with =' % n)
            elif t[0] != 'EQ' or t[2] is None or not _same(t[2], loaded[n]):
                why.append('%s is compared with %r, value read: %r' % (n, t[1:], loaded[n]))
    # S4
    if matched:
        good = True
        for n in required:
            cnull, cval = cur[n]
            if loaded[n] is None: good = good & cnull
            else: good = good & ((cnull == False) & (cval == loaded[n]))
        if not good: why.append('row matched although a read attribute among %r changed (lost update)' % (required,))
    else:
        same = exists
        for n in ('a', 'x', 'v', 'n', 'g'):
            cnull, cval = cur[n]
            if loaded[n] is None: same = same & cnull
            else: same = same & ((cnull == False) & (cval == loaded[n]))
        if same: why.append('unchanged row did not match')
    # S5
    if optimistic:
        if matched:
            if exc is not None: why.append('update applied but the session raised %s' % _exc(exc))
            if con.commits != 1: why.append('commit() called %d times' % con.commits)
        else:
            if not isinstance(exc, (OptimisticCheckError, UnrepeatableReadError)): why.append('no row updated but the session raised %s' % _exc(exc))
            if con.commits != 0: why.append('commit() called after a failed optimistic check')
            if con.rollbacks < 1: why.append('no rollback() after a failed optimistic check')
    elif exc is not None and not isinstance(exc, OptimisticCheckError):
        why.append('unexpected %s' % _exc(exc))
    LAST['why'] = why
    return ok(not why)


def _pre(R, W, L, N, C, full=False):
    """Loaded / assigned ints inside the 32-bit range of their columns (IntConverter.validate); the current row's ints are
    unbounded.  Main harnesses, quick tier: the design's row shape (v not read, n loaded NULL, g loaded non-NULL, non-NULL
    assignments); C20_FULL=1 (thorough) frees `v is read`, `n loaded NULL or not` and `g loaded NULL or not`."""
    for v in (L[0], L[1], L[2], L[4], N[0], N[1], N[2], N[4]):
        if not (LO <= v <= HI): return False
    if full: return True
    if FULL: return (not N[3]) and (not N[5])
    return (not R[3]) and L[3] and (not L[5]) and (not N[3]) and (not N[5])


B2 = Tuple[bool, bool]


def upd_w00(R: B6, W: B2, L: LT, N: NT, C: CT) -> bool:
    """
    pre: _pre(R, W, L, N, C)
    post: _
    """
    return _core(R, (False, False, False, False) + tuple(W), L, N, C)


def upd_w01(R: B6, W: B2, L: LT, N: NT, C: CT) -> bool:
    """
    pre: _pre(R, W, L, N, C)
    post: _
    """
    return _core(R, (True, False, False, False) + tuple(W), L, N, C)


def upd_w02(R: B6, W: B2, L: LT, N: NT, C: CT) -> bool:
    """
    pre: _pre(R, W, L, N, C)
    post: _
    """
    return _core(R, (False, True, False, False) + tuple(W), L, N, C)


def upd_w03(R: B6, W: B2, L: LT, N: NT, C: CT) -> bool:
    """
    pre: _pre(R, W, L, N, C)
    post: _
    """
    return _core(R, (True, True, False, False) + tuple(W), L, N, C)


def upd_w04(R: B6, W: B2, L: LT, N: NT, C: CT) -> bool:
    """
    pre: _pre(R, W, L, N, C)
    post: _
    """
    return _core(R, (False, False, True, False) + tuple(W), L, N, C)


def upd_w05(R: B6, W: B2, L: LT, N: NT, C: CT) -> bool:
    """
    pre: _pre(R, W, L, N, C)
    post: _
    """
    return _core(R, (True, False, True, False) + tuple(W), L, N, C)


def upd_w06(R: B6, W: B2, L: LT, N: NT, C: CT) -> bool:
    """
    pre: _pre(R, W, L, N, C)
    post: _
    """
    return _core(R, (False, True, True, False) + tuple(W), L, N, C)


def upd_w07(R: B6, W: B2, L: LT, N: NT, C: CT) -> bool:
    """
    pre: _pre(R, W, L, N, C)
    post: _
    """
    return _core(R, (True, True, True, False) + tuple(W), L, N, C)


def upd_w08(R: B6, W: B2, L: LT, N: NT, C: CT) -> bool:
    """
    pre: _pre(R, W, L, N, C)
    post: _
    """
    return _core(R, (False, False, False, True) + tuple(W), L, N, C)


def upd_w09(R: B6, W: B2, L: LT, N: NT, C: CT) -> bool:
    """
    pre: _pre(R, W, L, N, C)
    post: _
    """
    return _core(R, (True, False, False, True) + tuple(W), L, N, C)


def upd_w10(R: B6, W: B2, L: LT, N: NT, C: CT) -> bool:
    """
    pre: _pre(R, W, L, N, C)
    post: _
    """
    return _core(R, (False, True, False, True) + tuple(W), L, N, C)


def upd_w11(R: B6, W: B2, L: LT, N: NT, C: CT) -> bool:
    """
    pre: _pre(R, W, L, N, C)
    post: _
    """
    return _core(R, (True, True, False, True) + tuple(W), L, N, C)


def upd_w12(R: B6, W: B2, L: LT, N: NT, C: CT) -> bool:
    """
    pre: _pre(R, W, L, N, C)
    post: _
    """
    return _core(R, (False, False, True, True) + tuple(W), L, N, C)


def upd_w13(R: B6, W: B2, L: LT, N: NT, C: CT) -> bool:
    """
    pre: _pre(R, W, L, N, C)
    post: _
    """
    return _core(R, (True, False, True, True) + tuple(W), L, N, C)


def upd_w14(R: B6, W: B2, L: LT, N: NT, C: CT) -> bool:
    """
    pre: _pre(R, W, L, N, C)
    post: _
    """
    return _core(R, (False, True, True, True) + tuple(W), L, N, C)


def upd_w15(R: B6, W: B2, L: LT, N: NT, C: CT) -> bool:
    """
    pre: _pre(R, W, L, N, C)
    post: _
    """
    return _core(R, (True, True, True, True) + tuple(W), L, N, C)


def _only(mask, names):
    """True when no attribute outside `names` is selected."""
    return not any(mask[i] for i, n in enumerate(ATTRS) if n not in names)


def upd_nulls(R: B6, W: B6, L: LT, N: NT, C: CT) -> bool:
    """
    pre: _pre(R, W, L, N, C, True) and _only(R, 'ng') and _only(W, 'ng')
    post: _
    """
    return _core(R, W, L, N, C, keep_sql_cache=True)


def upd_volatile(R: B6, W: B6, L: LT, N: NT, C: CT) -> bool:
    """
    pre: _pre(R, W, L, N, C, True) and _only(R, 'va') and _only(W, 'va') and L[3] and not L[5]
    post: _
    """
    return _core(R, W, L, N, C)


def upd_float(R: B6, W: B6, L: LT, N: NT, C: CT, lf: float, nf: float) -> bool:
    """
    pre: _pre(R, W, L, N, C, True) and _only(R, 'fa') and _only(W, 'fa') and L[3] and not L[5]
    pre: math.isfinite(lf) and math.isfinite(nf)
    post: _
    """
    return _core(R, W, L, N, C, lf=lf, nf=nf)


def upd_for_update(R: B6, W: B6, L: LT, N: NT, C: CT, optimistic: bool) -> bool:
    """
    pre: _pre(R, W, L, N, C, True) and _only(R, 'ang') and _only(W, 'axg') and L[3] and not L[5] and not N[5]
    post: _
    """
    return _core(R, W, L, N, C, optimistic=optimistic, for_update=True)


def upd_pessimistic(R: B6, W: B6, L: LT, N: NT, C: CT) -> bool:
    """
    pre: _pre(R, W, L, N, C, True) and _only(R, 'ang') and _only(W, 'axg') and L[3] and not L[5] and not N[5]
    post: _
    """
    return _core(R, W, L, N, C, optimistic=False)


def upd_collection(r_g: bool, W: B2, gvia: int, gpre: int, L: LT, N: NT, C: CT) -> bool:
    """
    pre: 1 <= gvia <= 5 and 0 <= gpre <= 3
    pre: _pre((False, False, False, False, False, r_g), W, L, N, C, True) and L[3] and not L[5] and not N[3] and not N[5]
    post: _
    """
    # the session reads obj.g by finding obj in the collection of the other side; W: (a, n) are assigned
    return _core((False, False, False, False, False, r_g), (W[0], False, False, False, W[1], False), L, N, C, gvia=gvia, gpre=gpre)


def upd_pg(R: B6, W: B6, L: LT, N: NT, C: CT) -> bool:
    """
    pre: _pre(R, W, L, N, C, True) and _only(R, 'ang') and _only(W, 'ang') and not N[3] and not N[5] and not L[5]
    post: _
    """
    return _core(R, W, L, N, C, provider='postgres')


# ---------------------------------------------------------------------------------------------- two commits
def upd_twice(R: B3, W1: B2, W2: B2, r2_a: bool, L: LT, N: NT, C: CT) -> bool:
    """
    pre: _pre((False,) * 6, None, L, N, C, True) and L[3] and not L[5] and not N[3] and not N[5]
    pre: (W1[0] or W1[1]) and (W2[0] or W2[1])
    post: _
    """
    return _twice(R, W1, W2, r2_a, False, L, N, C)


def upd_twice_locked(R: B3, W1: B2, W2: B2, r2_a: bool, L: LT, N: NT, C: CT) -> bool:
    """
    pre: _pre((False,) * 6, None, L, N, C, True) and L[3] and not L[5] and not N[3] and not N[5]
    pre: (W1[0] or W1[1]) and (W2[0] or W2[1])
    post: _
    """
    return _twice(R, W1, W2, r2_a, True, L, N, C)


def _twice(R, W1, W2, r2_a, lock, L, N, C):
    # One session, the same object updated twice with a commit() in between (the first UPDATE finds its row unchanged), then
    # an arbitrary current row at the second UPDATE.  R: a, n, g read before the first commit; W1: a, x assigned before it;
    # W2: x, g assigned after it; r2_a: a is read again between the commits; lock: the object is fetched with get_for_update(),
    # so the FIRST transaction holds a row lock (no optimistic terms in the first UPDATE) - commit() ends that lock, and the
    # second UPDATE is an ordinary optimistic one again.
    # Asserted on the SECOND UPDATE: a term with the value read for every attribute in R that the session never overwrote
    # (reads are not forgotten by a save), S4 (matched => those unchanged; row as the session left it => matched), S5.
    from pony.orm import db_session, commit
    from pony.orm.core import OptimisticCheckError, UnrepeatableReadError
    e = ENVS['sqlite']
    _reset(e)
    E, G, con, col = e.E, e.G, e.con, e.col
    la, lx, lv, ln_null, ln, lg_null = L
    na, nx, nv, nn_null, nn, ng_null = N
    exists, ca, cx, cv, cn_null, cn, cg_null, cg = C
    loaded = {'id': 1, 'a': la, 'f': 1.5, 'x': lx, 'v': lv, 'n': None, 'g': LOADED_G}
    cur = {'id': (False, 1), 'a': (False, ca), 'x': (False, cx), 'v': (False, cv), 'n': (cn_null, cn), 'g': (cg_null, cg)}
    st = {'updates': [], 'matched': None}
    why = []

    def responder(sql, args):
        table, cols = select_columns(sql)
        if table == E._table_:
            if st['updates']: return [], [(c,) for c in cols], -1          # find_updated_attributes (message only)
            return [tuple(loaded[c] for c in cols)], [(c,) for c in cols], -1
        if table == G._table_: return [(args[0],)], [('id',)], -1
        if sql.startswith('UPDATE'):
            try: tab, sets, terms = bind(sql, args)
            except Unparsed as ex:
                why.append('unparsed UPDATE: %s' % ex)
                st['updates'].append(None)
                return [], [], 0
            st['updates'].append((tab, sets, terms))
            if len(st['updates']) == 1: return [], [], 1                    # first UPDATE: nobody interfered yet
            m = exists
            for t in terms:
                cnull, cval = cur[t[1]]
                if t[0] == 'IS_NULL': m = m & cnull
                elif t[2] is None: m = False
                else: m = m & ((cnull == False) & (cval == t[2]))
            matched = True if m else False
            st['matched'] = matched
            return [], [], (1 if matched else 0)
        return None
    con.reset(responder)
    exc = None
    done = False
    try:
        with db_session:
            g_new = G[NEW_G]
            obj = E.get_for_update(id=1) if lock else E.get(id=1)
            if R[0]: obj.a
            if R[1]: obj.n
            if R[2]: obj.g
            if W1[0]: obj.a = na
            if W1[1]: obj.x = nx
            commit()
            if r2_a: obj.a
            if W2[0]: obj.x = nv
            if W2[1]: obj.g = g_new
            done = True
    except Exception as ex:
        exc = ex
    LAST.update(exc=exc, log=list(con.log), st=st)
    if not done or len(st['updates']) != 2 or None in st['updates']:
        why.append('expected two well-formed UPDATEs, got %d; %s' % (len(st['updates']), _exc(exc)))
        LAST['why'] = why
        return ok(False)
    tab, sets, terms = st['updates'][1]
    matched = st['matched']
    # what the session knows about the row when it sends the second UPDATE
    known = dict(loaded)
    if W1[0]: known['a'] = na
    if W1[1]: known['x'] = nx
    want_set = {}
    if W2[0]: want_set[col['x']] = nv
    if W2[1]: want_set[col['g']] = NEW_G
    if sorted(c for c, _ in sets) != sorted(want_set): why.append('SET columns of the second UPDATE')
    else:
        for c, v in sets:
            if not _same(v, want_set[c]): why.append('SET value of %s in the second UPDATE' % c)
    if not terms or terms[0] != ('EQ', 'id', 1): why.append('first WHERE term is not the primary key')
    crit = terms[1:]
    if lock and len(st['updates'][0][2]) != 1: why.append('first UPDATE of a locked object carries optimistic terms')
    required = []
    if R[0] and not W1[0]: required.append('a')
    if R[1]: required.append('n')
    if R[2] and not W2[1]: required.append('g')
    if r2_a and 'a' not in required: required.append('a')                   # re-read after the first commit: the value it wrote / loaded
    for n in required:
        ts = [t for t in crit if t[1] == col[n]]
        if not ts: why.append('second UPDATE: no optimistic term for %s (read before the first commit, never overwritten)' % n)
        for t in ts:
            if known[n] is None:
                if t[0] != 'IS_NULL': why.append('%s was read as NULL but is compared with =' % n)
            elif t[0] != 'EQ' or t[2] is None or not _same(t[2], known[n]): why.append('%s is not compared with the value read' % n)
    if matched:
        good = True
        for n in required:
            cnull, cval = cur[n]
            if known[n] is None: good = good & cnull
            else: good = good & ((cnull == False) & (cval == known[n]))
        if not good: why.append('second UPDATE matched although a read attribute among %r changed (lost update)' % (required,))
        if exc is not None: why.append('update applied but the session raised %s' % _exc(exc))
        if con.commits != 2: why.append('commit() called %d times' % con.commits)
    else:
        same = exists
        for n in ('a', 'x', 'v', 'n', 'g'):
            cnull, cval = cur[n]
            if known[n] is None: same = same & cnull
            else: same = same & ((cnull == False) & (cval == known[n]))
        if same: why.append('row as the session left it did not match')
        if not isinstance(exc, (OptimisticCheckError, UnrepeatableReadError)): why.append('no row updated but the session raised %s' % _exc(exc))
        if con.commits != 1: why.append('commit() called %d times after a failed second check' % con.commits)
    LAST['why'] = why
    return ok(not why)


# ---------------------------------------------------------------------------------------------- composite columns
def _make_composite():
    """an attribute that spans several columns (reference to a composite primary key, one part of it a float): every column of a read
    attribute is part of what the session read"""
    from engine import env
    from pony.orm import PrimaryKey, Required, Optional, Set
    e = Env()
    e.db = env.mock_database('sqlite')
    e.pool = Pool()
    e.db.provider.pool = e.pool
    e.con = e.pool.con
    db = e.db

    class H(db.Entity):
        p = Required(int)
        q = Required(int)
        r = Required(str)
        PrimaryKey(p, q, r)
        items = Set('M')

    class M(db.Entity):
        id = PrimaryKey(int)
        val = Required(int)
        h = Optional(H)
    e.H, e.M = H, M
    db.generate_mapping(check_tables=False)
    return e


def upd_composite(r_h: bool, w_val: bool, w_h: bool, lh_null: bool, nv: int, C: Tuple[bool, bool, int, int, bool]) -> bool:
    """
    pre: LO <= nv <= HI
    post: _
    """
    from pony.orm import db_session
    from pony.orm.core import OptimisticCheckError, UnrepeatableReadError
    e = ENVS['composite']
    NPATH[0] += 1
    from pony.orm import core
    core.local.db2cache.clear(); core.local.db_session = None; core.local.db_context_counter = 0
    e.db._dblocal.stats = {None: core.QueryStat(None)}
    lock = getattr(e.db.provider, 'transaction_lock', None)
    if lock is not None and lock.locked():
        try: lock.release()
        except Exception: pass
    e.M._update_sql_cache_.clear()
    H, M, con = e.H, e.M, e.con
    hcols = list(M.h.columns)
    exists, ch_null, cp, cq, cr_same = C
    lh = None if lh_null else (3, 4, 'k')
    loaded = {'id': 1, 'val': 5}
    for c, v in zip(hcols, lh or (None, None, None)): loaded[c] = v
    # current row, per column: (is NULL, value); the str part is 'k' or another text
    cur = {'id': (False, 1), hcols[0]: (ch_null, cp), hcols[1]: (ch_null, cq), hcols[2]: (ch_null, 'k' if cr_same else 'j')}
    st = {'updates': [], 'loads': 0, 'matched': None}
    why = []

    def responder(sql, args):
        table, cols = select_columns(sql)
        if table == M._table_:
            st['loads'] += 1
            if st['loads'] == 1: return [tuple(loaded[c] for c in cols)], [(c,) for c in cols], -1
            return [], [(c,) for c in cols], -1
        if table == H._table_:
            return [tuple(args)[:3]], [('p',), ('q',), ('r',)], -1
        if sql.startswith('UPDATE'):
            try: tab, sets, terms = bind(sql, args)
            except Unparsed as ex:
                why.append('unparsed UPDATE: %s' % ex); st['updates'].append(None)
                return [], [], 0
            m = exists
            for t in terms:
                c = t[1]
                if c not in cur:
                    why.append('term on unexpected column %s' % c); m = False
                    continue
                cnull, cval = cur[c]
                if t[0] == 'IS_NULL': m = m & cnull
                elif t[2] is None: m = False
                else: m = m & ((cnull == False) & (cval == t[2]))
            matched = True if m else False
            st['matched'] = matched
            st['updates'].append((tab, sets, terms))
            return [], [], (1 if matched else 0)
        return None
    con.reset(responder)
    exc = None
    done = False
    try:
        with db_session:
            h_new = H[7, 8, 'n'] if w_h else None
            obj = M.get(id=1)
            if r_h: obj.h
            if w_val: obj.val = nv
            if w_h: obj.h = h_new
            done = True
    except Exception as ex:
        exc = ex
    LAST.update(exc=exc, log=list(con.log), st=st)
    if not done and not st['updates']:
        LAST['why'] = ['session body failed: %s' % _exc(exc)]
        return ok(False)
    if not (w_val or w_h):
        if st['updates']: why.append('UPDATE without a modified attribute')
        if exc is not None: why.append('unexpected %s' % _exc(exc))
        LAST['why'] = why
        return ok(not why)
    if len(st['updates']) != 1 or st['updates'][0] is None:
        LAST['why'] = why + ['expected exactly one well-formed UPDATE, got %r' % (st['updates'],)]
        return ok(False)
    tab, sets, terms = st['updates'][0]
    matched = st['matched']
    want_set = (['val'] if w_val else []) + (hcols if w_h else [])
    if sorted(c for c, _ in sets) != sorted(want_set): why.append('SET columns %r' % (sets,))
    if not terms or terms[0] != ('EQ', 'id', 1): why.append('first WHERE term is not the primary key')
    crit = terms[1:]
    required = hcols if (r_h and not w_h) else []
    for c in required:
        ts = [t for t in crit if t[1] == c]
        if not ts: why.append('no optimistic term for column %s of the attribute that was read' % c); continue
        for t in ts:
            if loaded[c] is None:
                if t[0] != 'IS_NULL': why.append('%s was read as NULL but is compared with =' % c)
            elif t[0] != 'EQ' or t[2] is None or not _same(t[2], loaded[c]): why.append('%s is not compared with the value read' % c)
    if matched:
        good = True
        for c in required:
            cnull, cval = cur[c]
            if loaded[c] is None: good = good & cnull
            else: good = good & ((cnull == False) & (cval == loaded[c]))
        if not good: why.append('row matched although a column of the read attribute changed (lost update)')
        if exc is not None: why.append('update applied but the session raised %s' % _exc(exc))
        if con.commits != 1: why.append('commit() called %d times' % con.commits)
    else:
        same = exists
        for c in hcols:
            cnull, cval = cur[c]
            if loaded[c] is None: same = same & cnull
            else: same = same & ((cnull == False) & (cval == loaded[c]))
        if same: why.append('unchanged row did not match')
        if not isinstance(exc, (OptimisticCheckError, UnrepeatableReadError)): why.append('no row updated but the session raised %s' % _exc(exc))
        if con.commits != 0: why.append('commit() called after a failed optimistic check')
    LAST['why'] = why
    return ok(not why)


# ---------------------------------------------------------------------------------------------- K3: tracking step
def track_step(i: int, kind: int, r_i: bool, w_i: bool, rest_r: bool, rest_w: bool, val: int) -> bool:
    """
    pre: 0 <= i < 6 and 0 <= kind < 4
    pre: kind < 3 or i == 0
    pre: -2 ** 31 <= val < 2 ** 31
    post: _
    """
    # kind 3 = the object is saved (flush() -> Entity._save_updated_); it does not depend on the attribute index
    # masks before the step: the bits of attribute i are (r_i, w_i); the bits of all other attributes are all clear or all
    # set (rest_r / rest_w), so a step that set or cleared a foreign bit would show.  (One symbolic int per mask is not
    # usable: `int | int` on a symbolic int goes through z3 int2bv and does not terminate.)
    _e = ENVS['sqlite']
    _n = ATTRS[i]
    rbits0 = (_e.nvbit[_n] if r_i else 0) | (sum(_e.nvbit[m] for m in ATTRS if m != _n) if rest_r else 0)
    wbits0 = (_e.bit[_n] if w_i else 0) | (sum(_e.bit[m] for m in ATTRS if m != _n) if rest_w else 0)
    from pony.orm import db_session, rollback, flush
    e = ENVS['sqlite']
    _reset(e)
    E, G, con = e.E, e.G, e.con
    row = {'id': 1, 'a': 5, 'f': 1.5, 'x': 6, 'v': 3, 'n': None, 'g': LOADED_G}

    def responder(sql, args):
        table, cols = select_columns(sql)
        if table == E._table_: return [tuple(row[c] for c in cols)], [(c,) for c in cols], -1
        if table == G._table_: return [(args[0],)], [('id',)], -1
        return None
    con.reset(responder)
    name = ATTRS[i]
    attr, bit, nvbit = e.attr[name], e.bit[name], e.nvbit[name]
    why = []
    with db_session:
        try:
            g_new = G[NEW_G]
            obj = E.get(id=1)
            cache = obj._session_cache_
            # an arbitrary tracked state of a loaded object
            obj._rbits_, obj._wbits_ = rbits0, wbits0
            if wbits0 != 0:
                obj._status_ = 'modified'
                obj._save_pos_ = len(cache.objects_to_save)
                cache.objects_to_save.append(obj)
                cache.modified = True
            written = (wbits0 & nvbit) != 0 if nvbit else False
            if kind == 0:
                attr.__get__(obj)                     # (the getattr() builtin would run outside CrossHair's tracer)
                exp_r = rbits0 if written else rbits0 | nvbit
                exp_w = wbits0
            elif kind == 1:
                attr.__set__(obj, g_new if name == 'g' else float(val) if name == 'f' else val)
                exp_r, exp_w = rbits0, wbits0 | bit
            elif kind == 2:
                E._set_rbits([obj], [attr])          # what _fetch_objects does for the attributes a query used
                exp_r = rbits0 if written else rbits0 | nvbit
                exp_w = wbits0
            else:
                # the save step: what was read stays read, what was written (and is not volatile) counts as read from now on
                # (the database now holds the session's value), nothing is pending any more
                flush()
                exp_r = rbits0 | (wbits0 & ~e.bit['v'])
                exp_w = 0
                if obj._status_ != ('updated' if wbits0 else 'loaded'): why.append('status after save')
            if obj._rbits_ != exp_r: why.append('rbits')
            if obj._wbits_ != exp_w: why.append('wbits')
            if obj._rbits_ & e.bit['v']: why.append('volatile attribute marked as read')
            if (obj._status_ == 'modified') != (exp_w != 0): why.append('status')
            if cache.objects_to_save.count(obj) != (1 if exp_w != 0 else 0): why.append('objects_to_save')
        finally:
            rollback()
    LAST['why'] = why
    return ok(not why)


MAIN = ['upd_w%02d' % k for k in range(16)]
HARNESSES = MAIN + ['upd_nulls', 'upd_volatile', 'upd_float', 'upd_for_update', 'upd_pessimistic', 'upd_pg', 'upd_collection', 'upd_composite', 'upd_twice', 'upd_twice_locked', 'track_step']


def explain(fn, **kw):
    setup()
    r = globals()[fn](**kw)
    return r, list(LAST.get('why', ())), LAST.get('log')


