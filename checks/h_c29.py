"""CrossHair harnesses for C29 (JSON and array operations in queries) - the parts that are Python code in this process.

Real functions: sqlbuilding.SQLBuilder.eval_json_path, postgres.PGSQLBuilder.eval_json_path, sqlite._parse_path (regex
json_path_re), sqlite._traverse / _extract / py_json_extract / py_json_contains / py_json_nonzero / py_json_array_length /
py_json_unwrap, SQLiteBuilder.JSON_NONZERO / PGSQLBuilder.JSON_NONZERO (the textual NOT IN list is read out of the text
the real builder emits), sqlite.py_array_index / contains / subset / length / slice (with and without wrap_array_func).

Symbolic: path keys (strings len <= 3 over the characters the path syntax distinguishes; list indexes as unbounded ints
where no text rendering is involved), the shape of the stored document (container kinds, sizes, nesting <= 2, which leaf
kind sits where), leaf values (ints, strings len <= 1, booleans) where the function under test does not serialise them.
`'[%d]' % n`, json.dumps/loads and the regex realise symbolic values, so wherever a function goes through JSON text the
document is made concrete by explicit branching over a small pool of shapes/leaves (solver-chosen; every combination has
to be exhausted for "Confirmed over all paths") and the real code then runs under NoTracing.

Reference statements (this file):
  * path round trip: the keys SQLite's fallback parses out of the path string are the keys of the query;
    PostgreSQL: the path literal, read by the documented array-literal syntax (manual 8.15.2/8.15.6: elements separated
    by commas; an unquoted element is taken literally with surrounding blanks dropped and the word NULL meaning null; in
    a quoted element a backslash takes the next character literally), yields the keys as text;
  * value at a path = successive Python subscripting of the decoded document; a missing key / index out of range /
    subscript on a scalar / key of the wrong kind gives no value (SQL NULL) - never an error;
  * `key in doc[path]`, `bool(doc[path])`, `len(doc[path])` as in Python on the decoded value (no value: false / 0);
  * arrays: a[i], a[i:j], len(a), x in a, all(x in a for x in items) as in Python; a NULL array gives NULL.

Section 4 runs whole queries on a real in-memory SQLite database (translator monads + builder + json1 / fallbacks) for
solver-chosen (document, operation, keys, json1 switch); where Python raises for the row (subscript of a scalar, len of a
number, comparison operand missing in a filter) nothing is demanded; subscripts of string leaves and `in` on string leaves
are left out (Python indexes / searches the characters; JSON has no value there).
"""
import json, os, re
from typing import List, Optional
from engine.ch import ok
from engine import env as E0
from crosshair import NoTracing

E0.install_driver_stubs()
from pony.orm import sqlbuilding
from pony.orm.dbproviders import sqlite as sq
from pony.orm.dbproviders import postgres as pg

THOROUGH = os.environ.get('C29_THOROUGH') == '1'
NK = 4 if THOROUGH else 3                      # key length bound
JSON_KW = sq.SQLiteJsonConverter.json_kwargs
MISSING = object()
NONEXISTENT = '$.__non_existent_json_attr_name__'     # what SQLiteBuilder.JSON_QUERY puts in front of the path


def conc(x, n):
    for v in range(n - 1):
        if x == v: return v
    return n - 1


def cbool(b): return True if b else False


def classify(fn, cex):
    """stable keys for counterexamples (used by checks/c29.py)"""
    if fn == 'path_roundtrip_sqlite_quote': return 'sqlite-json-path-key-with-double-quote-not-found'
    if fn == 'path_roundtrip_postgres_backslash': return 'postgres-json-path-key-backslash-not-escaped'
    if fn == 'path_postgres_null_word': return 'postgres-json-path-key-null-word-unquoted'
    if fn in ('traverse_str_key_on_list', 'json_query_top_level_array'): return 'sqlite-json-fallback-string-key-on-array-raises'
    if fn == 'json_truthiness_sqlite_float': return 'sqlite-json-float-zero-is-truthy'
    if fn == 'json_length_non_array': return 'json-len-of-object-or-string-is-zero'
    if fn == 'json_e2e_scalar_compare': return 'sqlite-json-scalar-comparison-casts-stored-value'
    if fn == 'json_e2e_negative_index': return 'sqlite-json-negative-index-' + ('json1-path-error' if cex.get('json1') else 'fallback')
    return None


# ---------------------------------------------------------------------------------------------------------------
# 1. path strings
# ---------------------------------------------------------------------------------------------------------------

def _roundtrip_sqlite(keys):
    sq.path_cache.clear()
    path = sqlbuilding.SQLBuilder.eval_json_path(keys)
    got = sq._parse_path(path)
    return got == tuple(keys)


def path_roundtrip_sqlite_1(k: str) -> bool:
    """
    pre: len(k) <= NK
    pre: all(c in 'a.[\\\\ 0' for c in k)
    post: _
    """
    # one string key over: identifier char, '.', '[', backslash, blank, digit (everything but the double quote)
    return ok(_roundtrip_sqlite([k]))


def path_roundtrip_sqlite_quote(k: str) -> bool:
    """
    pre: len(k) <= 2
    pre: all(c in 'a"\\\\' for c in k)
    post: _
    """
    # keys containing the double quote (eval_json_path escapes it with a backslash)
    return ok(_roundtrip_sqlite([k]))


KEYS2 = ('a', 'a.b', '', '0', ' ', 'a[0]', '[1]', '.', 'a b', '\u00e9t\u00e9', '_x1', 0, 1, -1, 10, -12, 'caf\u00e9', 'x_\u043a1')      # (the last two: identifiers by Python's rule, not by ASCII's)


def path_roundtrip_sqlite_2(k1: int, k2: int, k3: int, three: bool) -> bool:
    """
    pre: 0 <= k1 < 18 and 0 <= k2 < 18 and 0 <= k3 < 4
    post: _
    """
    # two- and three-element paths: every mix of string keys (plain, needing quotes, looking like path syntax) and
    # indexes (positive, negative, multi-digit), chosen by the solver from a pool
    k1, k2 = KEYS2[conc(k1, 18)], KEYS2[conc(k2, 18)]
    keys = [k1, k2, ('a', 'a b', 0, -12)[conc(k3, 4)]] if three else [k1, k2]
    with NoTracing():
        return ok(_roundtrip_sqlite(keys))


class PGArrayError(Exception): pass


def read_pg_text_array(lit):
    """reference reader of a one-dimensional PostgreSQL array literal -> list of str / None (manual 8.15.2, 8.15.6)"""
    if len(lit) < 2 or lit[0] != '{' or lit[-1] != '}': raise PGArrayError(lit)
    body = lit[1:-1]
    if body == '': return []
    out, i, n = [], 0, len(body)
    while True:
        while i < n and body[i] == ' ': i += 1
        if i < n and body[i] == '"':
            i += 1; buf = []
            while True:
                if i >= n: raise PGArrayError('unterminated quoted element')
                c = body[i]
                if c == '\\':
                    if i + 1 >= n: raise PGArrayError('dangling backslash')
                    buf.append(body[i + 1]); i += 2; continue
                if c == '"': i += 1; break
                buf.append(c); i += 1
            while i < n and body[i] == ' ': i += 1
            out.append(''.join(buf))
        else:
            buf = []
            while i < n and body[i] != ',':
                c = body[i]
                if c in '{}"': raise PGArrayError('unexpected %r' % c)
                if c == '\\':
                    if i + 1 >= n: raise PGArrayError('dangling backslash')
                    buf.append(body[i + 1]); i += 2; continue
                buf.append(c); i += 1
            el = ''.join(buf).rstrip(' ')
            if el == '': raise PGArrayError('empty element')
            out.append(None if el.upper() == 'NULL' else el)
        if i >= n: return out
        if body[i] != ',': raise PGArrayError('expected , at %d' % i)
        i += 1


def _roundtrip_pg(keys):
    lit = pg.PGSQLBuilder.eval_json_path(None, keys)
    try: got = read_pg_text_array(lit)
    except PGArrayError: return False
    return got == [k if isinstance(k, str) else str(k) for k in keys]


def path_roundtrip_postgres(k1: str) -> bool:
    """
    pre: len(k1) <= NK
    pre: all(c in 'a",{ 0' for c in k1)
    post: _
    """
    # one key over: identifier char, double quote, comma, brace, blank, digit (everything the literal syntax reacts to
    # except the backslash)
    return ok(_roundtrip_pg([k1]))


KEYS_PG = ('a', 'a,b', '', '0', ' a ', '{', '}', '"', 'a"b', 'nul', '_x1', 0, 1, -1, 10, -12)


def path_roundtrip_postgres_2(k1: int, k2: int, k3: int, three: bool) -> bool:
    """
    pre: 0 <= k1 < 16 and 0 <= k2 < 16 and 0 <= k3 < 4
    post: _
    """
    k1, k2 = KEYS_PG[conc(k1, 16)], KEYS_PG[conc(k2, 16)]
    keys = [k1, k2, ('a', 'a,b', 0, -12)[conc(k3, 4)]] if three else [k1, k2]
    with NoTracing():
        return ok(_roundtrip_pg(keys))


def path_roundtrip_postgres_backslash(k: str) -> bool:
    """
    pre: len(k) <= 2
    pre: all(c in 'a\\\\"' for c in k)
    post: _
    """
    return ok(_roundtrip_pg([k]))


WORDS = ('null', 'NULL', 'Null', 'nul', 'nulls', 'true', '_null')


def path_postgres_null_word(w: int) -> bool:
    """
    pre: 0 <= w < 7
    post: _
    """
    # identifier-like keys that spell the array literal's NULL keyword
    word = WORDS[conc(w, 7)]
    with NoTracing():
        return ok(_roundtrip_pg([word]) and _roundtrip_sqlite([word]))


# ---------------------------------------------------------------------------------------------------------------
# 2. documents
# ---------------------------------------------------------------------------------------------------------------

def ref_get(obj, key):
    """Python subscripting of a decoded JSON value; MISSING where Python has no value"""
    if type(obj) is list and type(key) is int:
        return obj[key] if -len(obj) <= key < len(obj) else MISSING
    if type(obj) is dict and type(key) is str:
        return obj[key] if key in obj else MISSING
    return MISSING


def ref_path(doc, keys):
    for k in keys:
        doc = ref_get(doc, k)
        if doc is MISSING: return MISSING
    return doc


def leaf(kind, i, s, b):
    return i if kind == 0 else (s if kind == 1 else (b if kind == 2 else None))


def container(kind, items):
    """kind 1: list, kind 2: dict with keys 'a', 'b'"""
    if kind == 1: return list(items)
    return dict(zip(('a', 'b'), items))


def build_doc(top_kind, top_size, e0_kind, n_size, lk, i1, i2, s1, b1):
    """top_kind 0: scalar leaf, 1: list, 2: dict; entry 0 is a leaf / list / dict (nested container of n_size leaves),
    entry 1 (if any) is a leaf; leaf kinds rotate from lk: int, str, bool, null"""
    if top_kind == 0: return leaf(lk, i1, s1, b1)
    items = []
    if top_size >= 1:
        if e0_kind == 0: items.append(leaf(lk, i1, s1, b1))
        else: items.append(container(e0_kind, [leaf((lk + 1 + p) % 4, i2, s1, b1) for p in range(n_size)]))
    if top_size >= 2: items.append(leaf((lk + 2) % 4, i2, s1, b1))
    return container(top_kind, items)


def traverse_1(top_kind: int, top_size: int, e0_kind: int, lk: int, i1: int, i2: int, s1: str, b1: bool,
               key_is_int: bool, ki: int, ks: str) -> bool:
    """
    pre: 0 <= top_kind <= 2 and 0 <= top_size <= 2 and 0 <= e0_kind <= 2 and 0 <= lk <= 3
    pre: len(s1) <= 1 and len(ks) <= 1 and all(c in 'ab' for c in ks)
    post: _
    """
    # one step: every container kind/size x symbolic key (unbounded int index / string key), symbolic leaves
    top_kind = conc(top_kind, 3)
    top_size = conc(top_size, 3) if top_kind else 0
    e0_kind = conc(e0_kind, 3) if top_size else 0
    doc = build_doc(top_kind, top_size, e0_kind, 1, conc(lk, 4), i1, i2, s1, b1)
    key = ki if key_is_int else ks
    if type(doc) is list and not key_is_int: return ok(True)          # string key on an array: traverse_str_key_on_list
    want = ref_get(doc, key)
    got = sq._traverse(doc, (key,))
    if want is MISSING or want is None: return ok(got is None)
    return ok(got is want or (type(want) not in (list, dict) and type(got) is type(want) and got == want))


def _traverse_2(top_kind, e0_kind, n_size, lk, i1, i2, s1, b1, k1_is_int, k1i, k1s, k2_is_int, k2i, k2s):
    e0_kind = conc(e0_kind, 3)
    n_size = conc(n_size, 3) if e0_kind else 0
    doc = build_doc(top_kind, 2, e0_kind, n_size, conc(lk, 2), i1, i2, s1, b1)
    k1 = k1i if k1_is_int else k1s
    k2 = k2i if k2_is_int else k2s
    if type(doc) is list and not k1_is_int: return ok(True)
    mid = ref_get(doc, k1)
    if type(mid) is list and not k2_is_int: return ok(True)
    want = ref_path(doc, (k1, k2))
    got = sq._traverse(doc, (k1, k2))
    if want is MISSING or want is None: return ok(got is None)
    return ok(got is want or (type(want) not in (list, dict) and type(got) is type(want) and got == want))


def traverse_2_list(e0_kind: int, n_size: int, lk: int, i1: int, i2: int, s1: str, b1: bool,
                    k1_is_int: bool, k1i: int, k1s: str, k2_is_int: bool, k2i: int, k2s: str) -> bool:
    """
    pre: 0 <= e0_kind <= 2 and 0 <= n_size <= 2 and 0 <= lk <= 1
    pre: len(s1) <= 1 and len(k1s) <= 1 and len(k2s) <= 1 and all(c in 'ab' for c in k1s + k2s)
    post: _
    """
    # two steps into a list with two entries (entry 0: leaf / nested list / nested dict of 0..2 leaves)
    return _traverse_2(1, e0_kind, n_size, lk, i1, i2, s1, b1, k1_is_int, k1i, k1s, k2_is_int, k2i, k2s)


def traverse_2_dict(e0_kind: int, n_size: int, lk: int, i1: int, i2: int, s1: str, b1: bool,
                    k1_is_int: bool, k1i: int, k1s: str, k2_is_int: bool, k2i: int, k2s: str) -> bool:
    """
    pre: 0 <= e0_kind <= 2 and 0 <= n_size <= 2 and 0 <= lk <= 1
    pre: len(s1) <= 1 and len(k1s) <= 1 and len(k2s) <= 1 and all(c in 'ab' for c in k1s + k2s)
    post: _
    """
    return _traverse_2(2, e0_kind, n_size, lk, i1, i2, s1, b1, k1_is_int, k1i, k1s, k2_is_int, k2i, k2s)


def traverse_str_key_on_list(size: int, ks: str, nested: bool) -> bool:
    """
    pre: 0 <= size <= 2 and len(ks) <= 1
    post: _
    """
    # doc['a'] where the stored value is an array: Python has no value (TypeError), json1's json_extract gives NULL
    size = conc(size, 3)
    doc = [[1, 2][:size]] if nested else [1, 2][:size]
    keys = (0, ks) if nested else (ks,)
    try: got = sq._traverse(doc, keys)
    except Exception: return ok(False)
    return ok(got is None)


def traverse_no_keys(kind: int, i1: int) -> bool:
    """
    pre: 0 <= kind <= 3
    post: _
    """
    # the empty path is the document itself; an unparsable path (keys None) gives no value
    kind = conc(kind, 4)
    doc = [i1, [i1], {'a': i1}, None][kind]
    return ok(sq._traverse(doc, ()) is doc and sq._traverse(doc, None) is None)


# concrete pools for everything that goes through JSON text ------------------------------------------------------

LEAVES = (0, 1, -3, True, False, None, '', 'a', 'b', 1.5)
NESTED = ([], [0], ['a', None], [False, 2], {}, {'a': 0}, {'a': 'b', 'b': [1]}, {'b': None})
KEYS = ('a', 'b', 'c', 0, 1, -1, 2, -3)


def pool_doc(top_kind, e0, e1):
    """top: 0 the entry e0 itself, 1 list [e0, e1], 2 dict {'a': e0, 'b': e1}, 3 list [e0], 4 dict {'b': e0}"""
    pool = LEAVES + NESTED
    x, y = pool[e0], LEAVES[e1]
    return [x, [x, y], {'a': x, 'b': y}, [x], {'b': x}][top_kind]


NE = len(LEAVES) + len(NESTED)      # 18
NL = len(LEAVES)


def _keys(nk, k1, k2):
    return [] if nk == 0 else ([KEYS[k1]] if nk == 1 else [KEYS[k1], KEYS[k2]])


def _json_extract(doc, keys):
    text = json.dumps(doc, **JSON_KW)
    want = ref_path(doc, keys)
    sq.path_cache.clear()
    path = sqlbuilding.SQLBuilder.eval_json_path(keys)
    if type(doc) is list and keys and type(keys[0]) is str: return True                  # see traverse_str_key_on_list
    if len(keys) == 2 and type(ref_get(doc, keys[0])) is list and type(keys[1]) is str: return True
    # JSON_VALUE form: one path -> scalar as a Python value, container as JSON text
    got = sq.py_json_extract(text, path)
    if want is MISSING or want is None:
        if got is not None: return False
    elif type(want) in (list, dict):
        if not (isinstance(got, str) and json.loads(got) == want): return False
    elif not (type(got) is type(want) and got == want): return False
    # JSON_QUERY form: two paths, the first never exists -> '[null,<json>]' -> py_json_unwrap -> '<json>'
    if type(doc) is list: return True                    # string key on an array again: json_query_top_level_array
    got2 = sq.py_json_unwrap(sq.py_json_extract(text, NONEXISTENT, path))
    if not isinstance(got2, str): return False
    back = json.loads(got2)
    exp = None if want is MISSING else want
    return back == exp and type(back) is type(exp) and got2 == json.dumps(exp, **JSON_KW)


def json_extract(top_kind: int, e0: int, nk: int, k1: int, k2: int) -> bool:
    """
    pre: 0 <= top_kind <= 2 and 0 <= e0 < NE and 0 <= nk <= 2 and 0 <= k1 < 6 and 0 <= k2 < 4
    post: _
    """
    top_kind, e0, nk = conc(top_kind, 3), conc(e0, NE), conc(nk, 3)
    k1 = conc(k1, 6) if nk >= 1 else 0
    k2 = (0, 3, 5, 2)[conc(k2, 4)] if nk >= 2 else 0
    with NoTracing():
        return ok(_json_extract(pool_doc(top_kind, e0, 2), _keys(nk, k1, k2)))


def json_query_top_level_array(size: int, k: int) -> bool:
    """
    pre: 0 <= size <= 2 and 0 <= k <= 2
    post: _
    """
    # what SQLiteBuilder.JSON_QUERY computes without json1 when the stored document is an array: doc[k]
    size, k = conc(size, 3), conc(k, 3)
    with NoTracing():
        doc = [5, 'x'][:size]
        sq.path_cache.clear()
        path = sqlbuilding.SQLBuilder.eval_json_path([k])
        try: got = sq.py_json_unwrap(sq.py_json_extract(json.dumps(doc, **JSON_KW), NONEXISTENT, path))
        except Exception: return ok(False)
        return ok(isinstance(got, str) and json.loads(got) == (doc[k] if k < size else None))


def _json_ops(doc, keys, key):
    text = json.dumps(doc, **JSON_KW)
    want = ref_path(doc, keys)
    sq.path_cache.clear()
    path = sqlbuilding.SQLBuilder.eval_json_path(keys)
    if type(doc) is list and keys and type(keys[0]) is str: return True
    # key / item membership: `key in doc[path]`
    got = sq.py_json_contains(text, path, key)
    if type(want) in (list, dict):
        if bool(got) != (key in want): return False
    elif type(want) is str: pass                      # substring test in Python; not a key/item membership
    elif bool(got): return False                      # scalar or nothing there: Python raises / nothing contains the key
    # truthiness through the fallback function
    if bool(sq.py_json_nonzero(text, path)) != (False if want is MISSING else bool(want)): return False
    # array length
    n = sq.py_json_array_length(text, path) if keys else sq.py_json_array_length(text)
    if type(want) is list:
        if n != len(want): return False
    elif type(want) not in (dict, str) and n != 0: return False        # len() of a number / null / nothing: 0
    return True


def json_contains_nonzero_length(top_kind: int, e0: int, nk: int, k1: int, key: int) -> bool:
    """
    pre: 0 <= top_kind <= 4 and 0 <= e0 < NE and 0 <= nk <= 1 and 0 <= k1 < 6 and 0 <= key < 3
    post: _
    """
    top_kind, e0, nk, key = conc(top_kind, 5), conc(e0, NE), conc(nk, 2), ('a', '', 'c')[conc(key, 3)]
    k1 = conc(k1, 6) if nk >= 1 else 0
    with NoTracing():
        return ok(_json_ops(pool_doc(top_kind, e0, 1), _keys(nk, k1, 0), key))


def json_length_non_array(kind: int) -> bool:
    """
    pre: 0 <= kind <= 3
    post: _
    """
    # len() of a stored object / string: Python counts keys / characters
    kind = conc(kind, 4)
    with NoTracing():
        v = [{'a': 1, 'b': 2}, {}, 'abc', {'a': {'b': 1}}][kind]
        doc = {'x': v}
        sq.path_cache.clear()
        n = sq.py_json_array_length(json.dumps(doc, **JSON_KW), sqlbuilding.SQLBuilder.eval_json_path(['x']))
        return ok(n == len(v))


UNWRAP = ('', 'null', '1', '[1,2]', '{"a":[null,1]}', '"]"', '[null,[null,0]]', ',')


def json_unwrap(t: int, pfx: int) -> bool:
    """
    pre: 0 <= t < 8 and 0 <= pfx <= 2
    post: _
    """
    # '[null,X]' -> 'X' for any text X; anything else (NULL from json1 on a NULL column) -> NULL
    x, pfx = UNWRAP[conc(t, 8)], conc(pfx, 3)
    with NoTracing():
        if pfx == 0: return ok(sq.py_json_unwrap('[null,' + x + ']') == x)
        if pfx == 1: return ok(sq.py_json_unwrap(None) is None)
        return ok(sq.py_json_unwrap(x) is None or x.startswith('[null,'))


# truthiness ---------------------------------------------------------------------------------------------------------

class _B(object):
    def __call__(self, ast): return 'X'


def nonzero_list(builder_cls):
    """the literal texts of the NOT IN list in the SQL the real builder emits for JSON_NONZERO"""
    out = builder_cls.JSON_NONZERO(_B(), ['COLUMN', 't', 'j'])
    text = ''.join(x if isinstance(x, str) else ''.join(x) for x in out)
    m = re.search(r'NOT IN \((.*)\)\s*$', text)
    items = re.findall(r"'((?:[^']|'')*)'", m.group(1))
    return text, [i.replace("''", "'") for i in items]


TRUTH = (None, False, True, 0, 1, -1, 2 ** 40, '', '0', 'null', 'false', '[]', '{}', ' ', [], [0], [[]], {}, {'a': None}, {'': 0}, MISSING)
TRUTH_FLOAT = (0.0, -0.0, 0.5, -2.5, 1e-07, 1e+22)


def _truth_sqlite(v):
    text, items = nonzero_list(sq.SQLiteBuilder)
    if not text.startswith('X NOT IN (') or len(items) < 1: return False
    doc = {'k': 1} if v is MISSING else {'x': v}
    sq.path_cache.clear()
    path = sqlbuilding.SQLBuilder.eval_json_path(['x'])
    # what SQLiteBuilder.JSON_QUERY computes without json1: py_json_unwrap(py_json_extract(col, <non-existent>, path))
    val = sq.py_json_unwrap(sq.py_json_extract(json.dumps(doc, **JSON_KW), NONEXISTENT, path))
    sql_true = val is not None and val not in items          # x NOT IN (...) ; NULL NOT IN (...) is NULL: not true
    return sql_true == (False if v is MISSING else bool(v))


def json_truthiness_sqlite(i: int) -> bool:
    """
    pre: 0 <= i < 21
    post: _
    """
    i = conc(i, 21)
    with NoTracing():
        return ok(_truth_sqlite(TRUTH[i]))


def json_truthiness_sqlite_float(i: int) -> bool:
    """
    pre: 0 <= i < 6
    post: _
    """
    i = conc(i, 6)
    with NoTracing():
        return ok(_truth_sqlite(TRUTH_FLOAT[i]))


def _jsonb_eq(a, b):
    """jsonb equality: by type; numbers numerically; containers element-wise"""
    num = lambda x: isinstance(x, (int, float)) and not isinstance(x, bool)
    if num(a) and num(b): return a == b
    if type(a) is not type(b): return False
    if type(a) is list: return len(a) == len(b) and all(_jsonb_eq(x, y) for x, y in zip(a, b))
    if type(a) is dict: return set(a) == set(b) and all(_jsonb_eq(a[k], b[k]) for k in a)
    return a == b


def json_truthiness_postgres(i: int, f: bool) -> bool:
    """
    pre: 0 <= i < 21
    post: _
    """
    # model-only: coalesce(x, 'null'::jsonb) NOT IN ('..'::jsonb, ...) under jsonb equality
    i, f = conc(i, 21), cbool(f)
    with NoTracing():
        v = TRUTH_FLOAT[i % 6] if f else TRUTH[i]
        out = pg.PGSQLBuilder.JSON_NONZERO(_B(), ['COLUMN', 't', 'j'])
        text = ''.join(x if isinstance(x, str) else ''.join(x) for x in out)
        if not text.startswith("coalesce(X, 'null'::jsonb) NOT IN ("): return ok(False)
        items = [json.loads(t) for t in re.findall(r"'((?:[^']|'')*)'::jsonb", text[text.index('NOT IN'):])]
        val = None if v is MISSING else v                 # `#>` on a missing path is NULL -> coalesce -> jsonb null
        sql_true = not any(_jsonb_eq(val, it) for it in items)
        return ok(sql_true == (False if v is MISSING else bool(v)))


# ---------------------------------------------------------------------------------------------------------------
# 3. arrays (SQLite fallbacks)
# ---------------------------------------------------------------------------------------------------------------

def array_index(array: List[int], index: int) -> bool:
    """
    pre: len(array) <= 3
    post: _
    """
    # the body of py_array_index (below wrap_array_func's json.loads) on a symbolic list and an unbounded index
    got = sq.py_array_index.__wrapped__(array, index)
    if -len(array) <= index < len(array): return ok(got == array[index])
    return ok(got is None)


def array_contains(array: List[int], item: int) -> bool:
    """
    pre: len(array) <= 3
    post: _
    """
    got = sq.py_array_contains.__wrapped__(array, item)
    return ok(bool(got) == any(x == item for x in array) and sq.py_array_length.__wrapped__(array) == len(array))


def array_contains_str(array: List[str], item: str) -> bool:
    """
    pre: len(array) <= 2 and len(item) <= 1 and all(len(x) <= 1 for x in array)
    post: _
    """
    got = sq.py_array_contains.__wrapped__(array, item)
    return ok(bool(got) == any(x == item for x in array))


ARRAYS = ([], [1], [1, 2], [2, 1, 1], [0, -1, 5, 5], ['a'], ['a', 'b', ''], [1.5, 2.0])
ITEMS = ([], [1], [1, 1], [2, 1], [1, 3], ['a'], ['', 'a'], ['c'], [2.0], [5, 0, -1])


def array_subset(a: int, b: int, null: int) -> bool:
    """
    pre: 0 <= a < 8 and 0 <= b < 10 and 0 <= null <= 2
    post: _
    """
    # through wrap_array_func with JSON text, as SQLite calls it: py_array_subset(array, items); NULL in -> NULL out
    a, b, null = conc(a, 8), conc(b, 10), conc(null, 3)
    with NoTracing():
        arr, items = ARRAYS[a], ITEMS[b]
        at = None if null == 1 else sq.dumps(arr)
        it = None if null == 2 else sq.dumps(items)
        got = sq.py_array_subset(at, it)
        if null: return ok(got is None)
        if bool(got) != all(x in arr for x in items): return ok(False)
        # the other wrapped entry points on the same text
        if sq.py_array_length(at) != len(arr): return ok(False)
        for x in items:
            if bool(sq.py_array_contains(at, x)) != (x in arr): return ok(False)
        return ok(sq.py_array_contains(None, 1) is None and sq.py_array_length(None) is None and sq.py_array_index(None, 0) is None)


def array_slice(n: int, start: Optional[int], stop: Optional[int], null: bool) -> bool:
    """
    pre: 0 <= n <= 4
    pre: start is None or -5 <= start <= 5
    pre: stop is None or -5 <= stop <= 5
    post: _
    """
    # py_array_slice / py_array_index through JSON text; bounds concrete per path (the result is serialised)
    n = conc(n, 5)
    s = None if start is None else conc(start + 5, 11) - 5
    e = None if stop is None else conc(stop + 5, 11) - 5
    null = cbool(null)
    with NoTracing():
        arr = list(range(10, 10 + n))
        if null: return ok(sq.py_array_slice(None, s, e) is None)
        got = sq.py_array_slice(sq.dumps(arr), s, e)
        if not (isinstance(got, str) and json.loads(got) == arr[s:e]): return ok(False)
        if s is not None:
            one = sq.py_array_index(sq.dumps(arr), s)
            if one != (arr[s] if -n <= s < n else None): return ok(False)
        return ok(True)


# ---------------------------------------------------------------------------------------------------------------
# 4. end to end on a real in-memory SQLite database: translator (JsonMixin / JsonItemMonad / ArrayMixin) + builder +
#    SQLite (json1 or pony's Python fallbacks).  The solver chooses document, operation, keys and the json1 switch from
#    pools; the query runs under NoTracing; the answer is compared with the same expression evaluated by Python on the
#    decoded document.  Regions of the findings reported by the kernels above are left out of the pools (each has its
#    own harness), so that anything else still surfaces here.
# ---------------------------------------------------------------------------------------------------------------

_e2e = {}


def e2e_db():
    if 'db' not in _e2e:
        from pony.orm import Database, Optional as Opt, Json, IntArray, StrArray
        db = Database()
        class T(db.Entity):
            j = Opt(Json)
            arr = Opt(IntArray)
            sarr = Opt(StrArray)
        db.bind('sqlite', ':memory:')
        db.generate_mapping(create_tables=True)
        _e2e['db'], _e2e['T'], _e2e['json1'] = db, T, db.provider.json1_available
    return _e2e['db'], _e2e['T']


E2E_DOCS = (
    {'a': 1, 'b': 'x', 'c': None, 'd': True, 'e': [1, 'a', None], 'f': {'a': 2, 'g': []}, 'h': 0, 'i': '', 'j': False, 'k k': 3, 'l': 1.5},
    {'a': 'a', 'e': [], 'f': {}, 'h': [0], 'b': {'b': 'x'}, 'k k': [1, 2, 3]},
    {},
    {'a': [[1, 2], {'a': 'a'}, 'a'], 'e': {'a': [1], 'e': None}, 'f': 2, 'h': 'a', 'b': 1},
    [1, {'a': 5}, [7, 'a'], 'a'],                      # top-level array: only with json1 (fallback: known finding)
)
E2E_KEYS = ('a', 'e', 'f', 'h', 'k k', 'zz', 0, 1)
# (kind, template): P projection, F filter; {0} {1} are keys, k is an external variable holding key {0}
E2E_OPS = (
    ('P', 't.j[{0}]'), ('P', 't.j[{0}][{1}]'), ('P', 't.j[k]'), ('P', 't.j[k][{1}]'), ('P', 'len(t.j[{0}])'),
    ('F', 't.j[{0}] == 1'), ('F', "t.j[{0}] == 'a'"), ('F', 't.j[{0}] == 2'), ('F', 't.j[{0}][{1}] == 1'), ('F', "t.j[{0}][{1}] == 'a'"),
    ('F', 't.j[{0}] != 1'), ('F', "'a' in t.j[{0}]"), ("F", "'a' in t.j"), ('F', "'a' not in t.j[{0}]"), ('F', 'len(t.j[{0}]) == 3'),
    ('F', 't.j[{0}]'), ('F', 't.j[{0}][{1}]'), ('F', 't.j[k] == 1'), ('F', 't.j[{0}] == True'), ('F', 't.j[{0}] is None'),
)


class _Row(object):
    def __init__(self, **kw): self.__dict__.update(kw)


def _e2e_run(doc, kind, tmpl, k1, k2, json1, column='j'):
    from pony.orm import db_session, rollback, core
    db, T = e2e_db()
    if json1 and not _e2e['json1']: return True            # no json1 in this SQLite build: nothing to run
    expr = tmpl.format(repr(k1), repr(k2))
    scope = {'k': k1}
    # Python's answer
    try:
        want = eval(expr, {'len': len}, dict(scope, t=_Row(**{column: doc})))
        raised = None
    except (KeyError, IndexError, TypeError) as e:
        want, raised = None, type(e).__name__
    # regions with their own harnesses / outside the property
    if 'len(' in expr and raised is None and type(eval('t.j[%r]' % (k1,), {}, {'t': _Row(j=doc)})) is not list: return True
    if kind == 'F' and raised is not None: return True     # Python has no answer for the row: nothing to compare with
    if 'len(' in expr and raised is not None: return True
    if raised == 'TypeError': return True                  # subscript / len of a scalar: Python has no answer
    if " in t.j" in expr and raised is None:
        target = doc if expr.endswith('in t.j') else eval('t.j[%r]' % (k1,), {}, {'t': _Row(j=doc)})
        if type(target) is str: return True                # substring test, not key / item membership
    if ' is None' in expr: pass
    db.provider.json1_available = json1
    core_caches_clear(db)
    try:
        with db_session:
            try:
                T(**{column: doc})
                core.flush()
                src = '(%s for t in T)' % expr if kind == 'P' else '(t.id for t in T if %s)' % expr
                got = core.select(src, {'T': T}, dict(scope))[:]
            finally:
                rollback()
    finally:
        db.provider.json1_available = _e2e['json1']
    if kind == 'F':
        return bool(got) == bool(want)
    got = got[0] if got else None
    if hasattr(got, 'get_untracked'): got = got.get_untracked()
    if isinstance(got, tuple): got = list(got)
    return got == want and (type(got) is type(want) or isinstance(want, (int, float)) and isinstance(got, (int, float)) and not isinstance(want, bool))


def core_caches_clear(db):
    """the SQL text depends on json1_available, which is flipped per path"""
    from pony.orm import core
    db._translator_cache.clear(); db._constructed_sql_cache.clear()


def _json_e2e(d, op, k1, k2, json1):
    d, op = conc(d, 5), conc(op, 20)
    kind, tmpl = E2E_OPS[op]
    k1 = conc(k1, 8) if ('{0}' in tmpl or 'k' in tmpl.replace('k k', '')) else 0
    k2 = conc(k2, 3) if '{1}' in tmpl else 0
    with NoTracing():
        doc = E2E_DOCS[d]
        key1, key2 = E2E_KEYS[k1], ('a', 0, 1)[k2]
        if type(doc) is list and not json1: return ok(True)
        # string key applied to an array value without json1: json_query_top_level_array / traverse_str_key_on_list
        if not json1 and _hits_str_key_on_list(doc, tmpl, key1, key2): return ok(True)
        if _hits_str_key_on_list(doc, tmpl, key1, key2, strings=True): return ok(True)
        return ok(_e2e_run(doc, kind, tmpl, key1, key2, json1))


def json_e2e_json1(d: int, op: int, k1: int, k2: int) -> bool:
    """
    pre: 0 <= d < 5 and 0 <= op < 20 and 0 <= k1 < 8 and 0 <= k2 < 3
    post: _
    """
    return _json_e2e(d, op, k1, k2, True)


def json_e2e_fallback(d: int, op: int, k1: int, k2: int) -> bool:
    """
    pre: 0 <= d < 5 and 0 <= op < 20 and 0 <= k1 < 8 and 0 <= k2 < 3
    post: _
    """
    return _json_e2e(d, op, k1, k2, False)


def _hits_str_key_on_list(doc, tmpl, k1, k2, strings=False):
    """strings=False: a string key meets an array; strings=True: a subscript meets a string leaf (Python indexes the
    characters, JSON has no value there: outside 'path access by key and index')"""
    keys = []
    if '{0}' in tmpl or '[k]' in tmpl: keys.append(k1)
    if '{1}' in tmpl: keys.append(k2)
    cur = doc
    for k in keys:
        if strings and type(cur) is str: return True
        if not strings and type(cur) is list and type(k) is str: return True
        cur = ref_get(cur, k)
        if cur is MISSING: return False
    return False


def json_e2e_negative_index(json1: bool, two: bool) -> bool:
    """ post: _ """
    # negative list indexes in paths: doc['e'][-1]
    json1, two = cbool(json1), cbool(two)
    with NoTracing():
        doc = {'e': [1, [2, 3], 4]}
        return ok(_e2e_run(doc, 'P', 't.j[{0}][-1]' if not two else 't.j[{0}][-2][{1}]', 'e', -1, json1))


E2E_ARRAYS = ([], [1], [1, 2, 3], [3, 3, 0, -1])
E2E_ARRAY_OPS = (('P', 'len(t.arr)'), ('F', 't.arr'), ('F', '1 in t.arr'), ('F', '3 not in t.arr'), ('F', 'x in t.arr'), ('F', '[1, 2] in t.arr'),
                 ('F', '[x, 3] in t.arr'), ('F', '[] in t.arr'), ('F', 'xs in t.arr'), ('P', 't.arr[0]'), ('P', 't.arr[1:]'), ('P', 't.arr[x]'),
                 ('P', 't.arr[:x]'), ('F', 'len(t.arr) > x'), ('F', '[4] not in t.arr'), ('F', '[] not in t.arr'), ('F', 'xs not in t.arr'),
                 ('F', '[1, 1, 2] in t.arr'), ('F', 'not ([] in t.arr)'), ('F', '[] not in t.arr or len(t.arr) > x'))


def array_e2e(a: int, op: int, x: int, xs: int) -> bool:
    """
    pre: 0 <= a < 4 and 0 <= op < 20 and 0 <= x <= 3 and 0 <= xs <= 2
    post: _
    """
    a, op = conc(a, 4), conc(op, 20)
    kind, expr = E2E_ARRAY_OPS[op]
    x = conc(x, 4) if 'x' in expr.replace('xs', '') else 0
    xs = conc(xs, 3) if 'xs' in expr else 0
    with NoTracing():
        from pony.orm import db_session, rollback, core
        db, T = e2e_db()
        arr = E2E_ARRAYS[a]
        scope = {'x': x, 'xs': ([], [3], [1, 5])[xs]}
        def member(items, arr):                           # `[..] in array` asks whether every item is in the array
            return all(i in arr for i in items)
        try:
            if expr == 'not ([] in t.arr)': want = not member([], arr)
            elif expr == '[] not in t.arr or len(t.arr) > x': want = (not member([], arr)) or len(arr) > x
            elif ' not in t.arr' in expr and (expr.startswith('[') or expr.startswith('xs')): want = not member(eval(expr.split(' not in ')[0], {}, scope), arr)
            elif ' in t.arr' in expr and (expr.startswith('[') or expr.startswith('xs')): want = member(eval(expr.split(' in ')[0], {}, scope), arr)
            else: want = eval(expr, {'len': len}, dict(scope, t=_Row(arr=arr)))
        except IndexError:
            want = None
        with db_session:
            try:
                T(arr=arr)
                core.flush()
                src = '(%s for t in T)' % expr if kind == 'P' else '(t.id for t in T if %s)' % expr
                got = core.select(src, {'T': T}, dict(scope))[:]
            finally:
                rollback()
        if kind == 'F': return ok(bool(got) == bool(want))
        got = got[0] if got else None
        if got is not None and not isinstance(got, int): got = list(got)
        return ok(got == want)


CMP_LEAVES = (1, '1', 1.5, True, 'abc', [1], 0, False, '', 2, {'a': 1}, '1abc', 'a')
CMP_CONSTS = (1, 0, 'a', '1', 1.5, True, 2)


def json_e2e_scalar_compare(v: int, c: int, ne: bool, json1: bool) -> bool:
    """
    pre: 0 <= v < 13 and 0 <= c < 7
    post: _
    """
    # t.j['x'] == c / != c for a stored leaf of ANY JSON type (the comparison is translated to CAST(json_extract(..) AS
    # <type of c>) = c): the row is selected exactly when Python's doc['x'] == c / != c
    v, c, ne, json1 = conc(v, 13), conc(c, 7), cbool(ne), cbool(json1)
    with NoTracing():
        return ok(_e2e_run({'x': CMP_LEAVES[v]}, 'F', 't.j[{0}] %s %r' % ('!=' if ne else '==', CMP_CONSTS[c]), 'x', 0, json1))


# two JSON paths in ONE query that share a Python variable and differ in their literal keys (the builder registers one
# composite parameter per path: each path must address its own sub-item)
E2E2_DOCS = (
    {'a': {'x': 1, 'y': 2}, 'b': {'x': 10, 'y': 20}, 'lst': [[1, 2], [3, 4]], 'x': {'a': 5, 'b': 6}},
    {'a': {'x': 2, 'y': 2}, 'b': {'x': 'u', 'y': None}, 'lst': [[7], [8, 9]], 'x': {'a': 0}},
    {'a': [{'x': 1}, {'y': 2}], 'b': {'y': 2}, 'lst': []},
)
E2E2_OPS = (
    ('P', "(t.j[k]['x'], t.j[k]['y'])"), ('P', "(t.j['a'][k], t.j['b'][k])"), ('P', "(t.j['lst'][i][0], t.j['lst'][i][1])"),
    ('P', "(t.j[k]['y'], t.j[k]['x'], t.j[k])"), ('P', "(t.j['lst'][i][1], t.j['lst'][0][i])"), ('P', "(t.j[k][k2], t.j[k2][k])"),
    ('F', "t.j[k]['x'] == 1 and t.j[k]['y'] == 2"), ('F', "t.j['a'][k] == 2 and t.j['b'][k] == 20"), ('F', "t.j[k]['x'] == 2 or t.j[k]['y'] == 20"),
    ('F', "t.j[k]['y'] and not t.j[k]['zz']"), ('F', "t.j['lst'][i][0] == 3 and t.j['lst'][i][1] == 4"), ('F', "'x' in t.j[k] and 'zz' not in t.j[k]"),
)
E2E2_K = ('a', 'b', 'x', 'y')


def _e2e_two(doc, kind, expr, k, k2, i, json1):
    from pony.orm import db_session, rollback, core
    db, T = e2e_db()
    if json1 and not _e2e['json1']: return True
    scope = {'k': k, 'k2': k2, 'i': i}
    def py(e):
        try: return eval(e, {}, dict(scope, t=_Row(j=doc)))
        except (KeyError, IndexError, TypeError): return MISSING
    if kind == 'P':
        parts = _split_tuple(expr)
        want = tuple(py(p) for p in parts)
        # a subscript of a string leaf / a string key on an array is outside (see section 4 above)
        if any(_bad_step(doc, p, scope, json1) for p in parts): return True
        want = tuple(None if w is MISSING else w for w in want)
    else:
        want = py(expr)
        if want is MISSING: return True                    # Python has no answer for the row
        if any(_bad_step(doc, p, scope, json1) for p in _paths_in(expr)): return True
    db.provider.json1_available = json1
    core_caches_clear(db)
    try:
        with db_session:
            try:
                T(j=doc)
                core.flush()
                src = '(%s for t in T)' % expr if kind == 'P' else '(t.id for t in T if %s)' % expr
                got = core.select(src, {'T': T}, dict(scope))[:]
            finally:
                rollback()
    finally:
        db.provider.json1_available = _e2e['json1']
    if kind == 'F': return bool(got) == bool(want)
    if len(got) != 1: return False
    got = tuple(g.get_untracked() if hasattr(g, 'get_untracked') else g for g in got[0])
    return got == want and all(type(g) is type(w) or (isinstance(w, (int, float)) and not isinstance(w, bool) and isinstance(g, (int, float)))
                               for g, w in zip(got, want))


def _split_tuple(expr):
    inner = expr.strip()[1:-1]
    parts, depth, cur = [], 0, []
    for c in inner:
        if c in '[(': depth += 1
        elif c in '])': depth -= 1
        if c == ',' and depth == 0: parts.append(''.join(cur).strip()); cur = []
        else: cur.append(c)
    parts.append(''.join(cur).strip())
    return parts


def _paths_in(expr):
    return re.findall(r"t\.j(?:\[[^\]]+\])+", expr)


def _bad_step(doc, path_expr, scope, json1):
    keys = [eval(x, {}, scope) for x in re.findall(r"\[([^\]]+)\]", path_expr)]
    cur = doc
    for k in keys:
        if type(cur) is str: return True
        cur = ref_get(cur, k)
        if cur is MISSING: return False
    return False


def _json_e2e_two(d, op, k, k2, i, json1):
    d, op = conc(d, 3), conc(op, 12)
    kind, expr = E2E2_OPS[op]
    k = conc(k, 4) if re.search(r"\bk\b", expr) else 0
    k2 = conc(k2, 4) if 'k2' in expr else 0
    i = conc(i, 2) if re.search(r"\bi\b", expr) else 0
    with NoTracing():
        return ok(_e2e_two(E2E2_DOCS[d], kind, expr, E2E2_K[k], E2E2_K[k2], i, json1))


def json_e2e_two_paths_json1(d: int, op: int, k: int, k2: int, i: int) -> bool:
    """
    pre: 0 <= d < 3 and 0 <= op < 12 and 0 <= k < 4 and 0 <= k2 < 4 and 0 <= i <= 1
    post: _
    """
    return _json_e2e_two(d, op, k, k2, i, True)


def json_e2e_two_paths_fallback(d: int, op: int, k: int, k2: int, i: int) -> bool:
    """
    pre: 0 <= d < 3 and 0 <= op < 12 and 0 <= k < 4 and 0 <= k2 < 4 and 0 <= i <= 1
    post: _
    """
    return _json_e2e_two(d, op, k, k2, i, False)
