"""C08 - validation enforces declared attribute constraints (CrossHair over the real converters)."""
from engine.core import Report
from engine import ch


def classify(spec, cex):
    fn = spec['fn']
    if fn in ('int_validate', 'int_validate_from_str'):
        if cex.get('min_val') == 0 or cex.get('max_val') == 0:
            return 'int-bound-equal-zero-ignored'
    if fn == 'real_validate':
        if cex.get('min_val') == 0 or cex.get('max_val') == 0:
            return 'float-bound-equal-zero-ignored'
    return None


def run(tier, seed, only=None):
    from pony.orm import dbapiprovider as dp, core
    rep = Report('C08', 'other',
                 'CrossHair symbolic execution of the real converter/attribute validate() code: declaration options and the '
                 'candidate value are symbolic; asserted: accepted <=> declared predicate holds, accepted value is the documented '
                 'normalisation. Only "Confirmed over all paths" counts as holding.')
    rep.fn(dp.IntConverter.init, dp.IntConverter.validate, dp.RealConverter.init, dp.RealConverter.validate,
           dp.StrConverter.init, dp.StrConverter.validate, core.Attribute.validate, core.Required.validate)
    T = 60 if tier == 'quick' else 240
    specs = [dict(module='checks.h_c08', fn=f, cond_timeout=T, path_timeout=T / 2) for f in
             ('int_validate', 'int_validate_from_str', 'int_validate_str', 'real_validate', 'str_validate', 'str_validate_type')]
    from checks import h_c08_attr
    specs += [dict(module='checks.h_c08_attr', fn=f, cond_timeout=T, path_timeout=T / 2, setup='setup') for f in h_c08_attr.HARNESSES]
    if only:
        specs = [s for s in specs if only in s['fn']]
    rep.bounds = {'ints': 'unbounded (z3 Int)', 'size': [None, 8, 16, 24, 32, 64], 'floats': 'all finite floats (CrossHair real-number model of float)',
                  'strings': 'len <= 4 over alphabet %r' % ' a\\t', 'max_len': '[-1, 5] or None'}
    rep.assumptions = ['duck-typed attr/provider objects stand in for the mapped attribute in the converter kernels',
                       'attribute-level harnesses use real mapped entities on an in-memory SQLite database (fixed declaration list)']
    rep.trusted = ['crosshair-tool 0.0.110', 'z3', 'reference predicates in checks/h_c08*.py']
    ch.run_harnesses(rep, specs, classify)
    if not only:
        tie_entry_points(rep)
    return rep


def tie_entry_points(rep):
    """Concrete tie: the four public entry points accept a value iff Attribute.validate (decided symbolically above) does.
    Candidates are the boundary witnesses of each declared predicate."""
    from engine.core import Ob, HOLDS, CEX
    from pony.orm import db_session, rollback
    from checks import h_c08_attr as h
    h.setup()
    E = h.E
    cands = {
        'r_int': [-4, -3, 0, 7, 8, None, '5', '9', 'x'], 'r_zero': [-1, 0, 1], 'o_int': [None, 10, 11, -2 ** 31, -2 ** 31 - 1],
        'u8': [-1, 0, 255, 256], 'even': [1, 2, -3, 0], 'r_str': [None, '', ' ', 'abc', 'abcd', ' abc ', 5],
        'o_str': [None, '', 'abc', 'abcd'], 'o_str_n': [None, '', 'abcd'], 'r_flt': [-0.25, 0, 0.0, 1.5, 1.75, None, 'x'],
    }
    def outcome(f):
        try:
            f()
            return 'ok'
        except (ValueError, TypeError) as e:
            return 'rejected'
    n = 0
    for name, vals in cands.items():
        attr = getattr(E, name)
        for v in vals:
            base = outcome(lambda: attr.validate(v, None, E))
            res = {}
            with db_session:
                res['create'] = outcome(lambda: E(id=1000 + n, **{'r_int': 1, name: v}))
                rollback()
            with db_session:
                o = E(id=1, r_int=1)
                res['assign'] = outcome(lambda: setattr(o, name, v))
                res['set'] = outcome(lambda: o.set(**{name: v}))
                if v is not None:
                    res['get'] = outcome(lambda: E.get(**{name: v}))
                rollback()
            n += 1
            bad = {k: r for k, r in res.items() if r != base}
            nm = 'tie:%s=%r' % (name, v)
            if bad:
                rep.add(Ob(nm, 'concrete-tie', CEX, detail='Attribute.validate: %s, entry points: %r' % (base, res),
                           cex={'attr': name, 'value': repr(v), 'validate': base, 'entry_points': res}, reproduced=True,
                           replay='# entity declarations: see /verif/checks/h_c08_attr.py\n# %s=%r: validate() -> %s but %r\n' % (name, v, base, res)))
            else:
                rep.add(Ob(nm, 'concrete-tie', HOLDS, detail=base))
