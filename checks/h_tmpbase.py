from engine.ch import ok
NPATH=[0]
def base(a: int, b: int) -> bool:
    """
    pre: 0 <= a < 64 and 0 <= b < 64
    post: _
    """
    NPATH[0] += 1
    n = 0
    for i in (1,2,4,8,16,32):
        if a & i: n += 1
        if b & i: n += 1
    return ok(n >= 0)
def base2(a0: bool, a1: bool, a2: bool, a3: bool, a4: bool, a5: bool, b0: bool, b1: bool, b2: bool, b3: bool, b4: bool, b5: bool) -> bool:
    """
    post: _
    """
    NPATH[0] += 1
    n = 0
    for f in (a0,a1,a2,a3,a4,a5,b0,b1,b2,b3,b4,b5):
        if f: n += 1
    return ok(n >= 0)
