"""CrossHair harnesses for C17 - a session's writes are atomic under crashes and database errors.

What runs: whole real sessions - `db_session.__enter__/__exit__/_commit_or_rollback`, module-level `commit()`,
`rollback()`, `flush()`, `Database.execute/insert/get_connection/_exec_raw_sql/_exec_sql`, `Query.delete(bulk=True)`,
`SessionCache.connect, reconnect, prepare_connection_for_query_execution, flush, flush_and_commit, commit, rollback,
release, close`, `Entity._save_` (insert / optimistic and pessimistic update / delete), `Set.add_m2m/remove_m2m`,
`SQLiteProvider.set_transaction_mode, commit, rollback, drop, release, acquire_lock, release_lock`,
`DBAPIProvider.commit/rollback/release/drop/execute`, `wrap_dbapi_exceptions`, the REAL `SQLitePool`
(`Pool.connect/release/drop`, `SQLitePool._connect/drop/disconnect`) - against the REAL `sqlite3` engine on a REAL
database file (in a temporary directory - under /dev/shm when that exists, else the default temp dir or $C17_TMPDIR -
removed when the worker process ends).

Instrumentation: the pool object is a real `SQLitePool(False, <file>, True)` handed to the real `SQLiteProvider` through
pony's `pony_pool_mockup` keyword; the `sqlite` module global of pony.orm.dbproviders.sqlite (the name
`SQLitePool._connect` calls `.connect` on) points at `WModule`, whose `connect()` opens a real `sqlite3` connection and
returns a forwarding wrapper (`WCon` / `WCur`).  The wrapper numbers every *statement* that would reach SQLite
(`Connection.execute` - the two PRAGMAs of `SQLitePool._connect` -, `Cursor.execute`, `Cursor.executemany`,
`Connection.commit`, `Connection.rollback`; numbering starts at the first statement of the faulted session) and at the
statement whose number equals a fault position
  (i)  raises `sqlite3.OperationalError` once, INSTEAD of forwarding the statement (a failed commit()/rollback() leaves
       the transaction open, exactly like SQLITE_BUSY / SQLITE_IOERR on COMMIT), or
  (ii) "dies": this call and every later call on every wrapper object (cursor(), execute, fetch*, commit, rollback,
       close ...) raises, nothing more reaches SQLite, and the harness finally closes the raw connection without commit.
       This is the in-process stand-in for process death at that statement (SQLite's journal discards the uncommitted
       transaction of a connection that goes away; that is trusted), or
  (iii) (added to the design) forwards the statement and THEN raises `sqlite3.OperationalError` once: the statement took
       effect but the caller is told it failed (a COMMIT that became durable although an error was reported).
Afterwards a FRESH `sqlite3` connection reads every table of the file.

Symbolic (decided by CrossHair/z3): the fault position k1 (0 = none; 1..KMAX), the failure kind `kind1` (0 = (i) error
before effect, 1 = (ii) dies, 2 = (iii) error after effect), a second fault position k2 > k1 with its own kind (a fault
sequence: e.g. the INSERT fails and then the ROLLBACK fails, or the connection dies during cleanup), in the thorough
tier a third one, the session mode (0 optimistic, 1 `immediate=True`, 2 `serializable=True`; thorough tier also
3 `optimistic=False`) and, in the thorough tier, `warm` (the faulted session finds a pooled connection left by an earlier
session; otherwise - and always in the quick tier - it has to open a new one, so that the PRAGMAs of `_connect` are fault
positions too).  One harness function per write program, so the programs run in parallel worker processes.
The programs (function `p_*` + its reference in `PROGRAMS`) are a fixed family: insert; update (transfer); delete (with m2m cascade); m2m add/remove; raw `db.execute` before / after ORM writes;
`db.insert`; a raw cursor from `db.get_connection()`; bulk `Query.delete`; two explicit flushes; `commit()` in the middle
(ORM and raw); `rollback()` in the middle; a nested db_session (whose exit must not commit); `get_for_update` /
`for_update()` reads before the writes; a `@db_session(retry=1, retry_exceptions=[OperationalError])` function (a survivable
error is absorbed by a second attempt).  EVERY unit of every program issues at least two write statements - a unit
with one statement would be atomic even in autocommit mode and could not expose a missing BEGIN.

How it is executed: as in C19, the only symbolic data are those numbers and flags and pony never sees them.  The flags are
decided at the top of `_scenario` under CrossHair's tracer; the rest runs inside `fakedb.untraced` (opcode tracer off -
that is what lets the real sqlite3 C library and real file I/O run), and the one comparison "is this statement the
faulted one" is made with the tracer switched back on (`fakedb.traced_eq`), so CrossHair forks the path there and the
verdict is "Confirmed over all paths" of that decision tree.  Every path starts from a byte copy of the template
database file (schema + seed rows), a fresh pool, fresh provider locks and clean session state.

Reference statement of the property (function `_judge`; the expected snapshots are computed from the hand-written
change lists in `PROGRAMS`, not from pony):
  A1 the file contents read by a fresh connection equal one of the program's commit-point states
     E[0] (seed), E[1] (seed + all changes of unit 1), ... - never a strict subset of a unit, never anything else;
  A2 durability of what was acknowledged: when the body's i-th explicit `commit()` returned, the state is E[i] or later;
     when the whole session returned without an exception, the state is the last one;
  A3 (error-once faults only - the process lives on) after the failed session no connection that is still open carries
     an open transaction (the failed unit was rolled back, not left pending for whoever uses the pooled connection
     next), and a following unfaulted session that inserts one marker row commits and leaves exactly
     E[i] + that row, i as in A1/A2;
  A4 without a fault the session raises nothing and leaves the last state.
An exception from the faulted session itself is always acceptable.

Concrete tie (`tie_main`, run by checks/c17.py beside the harnesses, reported as 'concrete-tie', NOT solver-quantified):
the same sessions in forked child processes that really end with os._exit at statement k, for every k; another
process (the parent) then opens the file, so SQLite's hot-journal recovery runs for real and A1/A2 are judged on it.
It ties the "dies" stand-in to actual process death at statement boundaries.

Deviations from DESIGN.md C17: none in substance.  Added beyond it: failure kind (iii), the second / third fault
position, `warm`, the pessimistic mode, the A3 follow-up session, the nested / for_update / retry programs, the
process-death tie.  Bounds: KMAX statements per faulted session (a path that issues more fails the harness).
Quick tier: new connection only, three session modes, one fault of any kind, or two faults (i)+(i) / (i)+(ii).
Thorough tier: pooled or new connection, four modes, two faults of every kind combination, or three faults
(i)+(i)+(i) / (i)+(i)+(ii).  Programs are enumerated (not solver-quantified).
Outside: PostgreSQL autocommit switching (no server); OS-level crashes in the middle of a single SQLite call (SQLite's
journal is trusted); sessions spanning two databases (pony documents PartialCommitException for them); threads; a
body that catches the database error and goes on writing in the same session.
"""
import os, shutil, sqlite3, sys
from engine.ch import ok
from engine import fakedb as F

KMAX = int(os.environ.get('C17_KMAX', '48'))     # fault positions range over 0..KMAX; every faulted session stays below it (checked)
K2MAX = int(os.environ.get('C17_K2MAX', '0'))    # second fault position (0 = off); set by checks/c17.py
K3MAX = int(os.environ.get('C17_K3MAX', '0'))    # third fault position (thorough tier)
FULL = os.environ.get('C17_FULL') == '1'         # thorough tier: every kind combination for two faults
WARM = os.environ.get('C17_WARM') == '1'         # thorough tier: the faulted session may also find a pooled connection
KINDS = 3
EXIT_DIED = 9
MODES = int(os.environ.get('C17_MODES', '4'))

MODE_KW = ({}, dict(immediate=True), dict(serializable=True), dict(optimistic=False))
MODE_NAMES = ('optimistic', 'immediate', 'serializable', 'optimistic=False')

plan = None
db = None
E = None            # namespace: db, Acct, Tag, Log
TMP = None
DBFILE = TEMPLATE = None
LAST = {}
COUNT = [0]


# ------------------------------------------------------------------------------------ wrapper DB-API over real sqlite3
class Plan(object):
    """Fault plan + journal shared by every wrapper object."""
    def __init__(self):
        self.compare = None        # set by fakedb.untraced: comparison of a symbolic position with the concrete counter
        self.raws = []
        self.reset()

    def reset(self):
        self.n = 0
        self.faults = ()
        self.kinds = ()
        self.armed = False
        self.dead = False
        self.hit = 0
        self.log = []
        self.real_commits = 0      # commit() calls that reached SQLite while a transaction was open

    def arm(self, faults, kinds):
        self.faults, self.kinds, self.armed, self.n = tuple(faults), tuple(kinds), True, 0

    def gate(self, op):
        """uncounted call (cursor(), fetch*, close, create_function ...): only a dead connection refuses it"""
        if self.dead:
            self.log.append((None, op, 'refused: dead'))
            raise sqlite3.OperationalError('connection is dead (injected at an earlier statement)')

    def tick(self, op, sql=None):
        """counted statement.  Raises instead of letting it reach SQLite when it is the faulted one (kinds 0, 1);
        returns a function the caller runs AFTER forwarding the statement (kind 2 raises there)."""
        self.gate(op)
        if not self.armed:
            return _nothing
        self.n += 1
        n = self.n
        for i, k in enumerate(self.faults):
            if (self.compare(k, n) if self.compare is not None else k == n):
                self.hit += 1
                kind = self.kinds[i]
                self.log.append((n, op, sql, ('ERROR', 'DIES', 'ERROR-AFTER-EFFECT', 'EXIT')[kind]))
                if kind == 2:
                    def after():
                        raise sqlite3.OperationalError('injected error after statement %d (%s) took effect' % (n, op))
                    return after
                if kind == 3:
                    os._exit(EXIT_DIED)        # concrete tie only (tie_main): the process really ends here
                if kind == 1:
                    self.dead = True
                raise sqlite3.OperationalError('injected %s at statement %d (%s)' % ('death' if kind else 'error', n, op))
        self.log.append((n, op, sql))
        return _nothing

    def dump(self):
        return ' | '.join('#%s %s' % (e[0], ' '.join(str(x) for x in e[1:] if x is not None)) for e in self.log)


def _nothing():
    pass


class WCur(object):
    def __init__(self, wcon, raw):
        self._w, self._raw, self._p = wcon, raw, wcon._p

    def execute(self, sql, *args):
        after = self._p.tick('execute', sql)
        self._raw.execute(sql, *args)
        self._after(after)
        return self

    def executemany(self, sql, *args):
        after = self._p.tick('executemany', sql)
        self._raw.executemany(sql, *args)
        self._after(after)
        return self

    def _after(self, after):
        if after is not _nothing:
            self._raw.close()          # the driver resets a statement whose execution it reports as failed (no half-read SELECT stays behind)
            after()

    def fetchone(self):
        self._p.gate('fetchone'); return self._raw.fetchone()

    def fetchmany(self, *a):
        self._p.gate('fetchmany'); return self._raw.fetchmany(*a)

    def fetchall(self):
        self._p.gate('fetchall'); return self._raw.fetchall()

    def close(self):
        self._p.gate('cursor.close'); return self._raw.close()

    def __iter__(self):
        self._p.gate('iter'); return iter(self._raw)

    description = property(lambda self: self._raw.description)
    rowcount = property(lambda self: self._raw.rowcount)
    lastrowid = property(lambda self: self._raw.lastrowid)
    arraysize = property(lambda self: self._raw.arraysize)


class WCon(object):
    """Forwards to a real sqlite3.Connection; what pony holds as "the DB-API connection"."""
    def __init__(self, p, raw):
        self.__dict__['_p'] = p
        self.__dict__['_raw'] = raw
        self.__dict__['_closed'] = False
        p.raws.append(raw)

    def cursor(self):
        self._p.gate('cursor')
        return WCur(self, self._raw.cursor())

    def execute(self, sql, *args):             # sqlite3.Connection.execute shortcut (PRAGMAs in SQLitePool._connect)
        after = self._p.tick('execute', sql)
        cur = WCur(self, self._raw.execute(sql, *args))
        cur._after(after)
        return cur

    def commit(self):
        after = self._p.tick('commit')
        had = self._raw.in_transaction
        self._raw.commit()
        if had: self._p.real_commits += 1
        after()

    def rollback(self):
        after = self._p.tick('rollback')
        self._raw.rollback()
        after()

    def close(self):
        self._p.gate('close')
        self.__dict__['_closed'] = True
        self._raw.close()

    def create_function(self, *a, **kw):
        self._p.gate('create_function')
        return self._raw.create_function(*a, **kw)

    def __setattr__(self, name, value):        # text_factory
        setattr(self._raw, name, value)

    def __getattr__(self, name):
        if name.startswith('__'): raise AttributeError(name)
        return getattr(self._raw, name)


class WModule(object):
    """Stand-in for the `sqlite` global of pony.orm.dbproviders.sqlite: connect() wraps, everything else is sqlite3's."""
    __name__ = 'sqlite3'

    def __init__(self, p):
        self._p = p

    def connect(self, *args, **kwargs):
        self._p.gate('connect')
        return WCon(self._p, sqlite3.connect(*args, **kwargs))

    def __getattr__(self, name):
        if name.startswith('_'): raise AttributeError(name)
        return getattr(sqlite3, name)


# ------------------------------------------------------------------------------------ database, schema, seed
SEED = dict(Acct={1: 100, 2: 200, 3: 300}, Tag={1: 'a', 2: 'b'}, Link={(1, 1), (2, 1)}, Log={})
FOLLOW = (99, 'next')


def _cleanup():
    global TMP
    t, TMP = TMP, None
    if t is not None:
        for raw in (plan.raws if plan is not None else ()):
            try: raw.close()
            except Exception: pass
        shutil.rmtree(t, ignore_errors=True)


def setup():
    """Once per worker process: temp directory, real file database with schema + seed rows (kept as a template file),
    one unfaulted run of every program in every mode (sanity of the reference + warm translator caches)."""
    global plan, db, E, TMP, DBFILE, TEMPLATE
    if plan is not None:
        return
    import atexit, tempfile, types
    from multiprocessing import util as mpu
    from pony.orm import core, Database, PrimaryKey, Required, Set
    from pony.orm.dbproviders import sqlite as psqlite
    core.time = lambda: 0.0
    plan = Plan()
    shm = '/dev/shm'         # a RAM-backed file system when there is one: every path copies the file and SQLite fsyncs on each commit
    TMP = tempfile.mkdtemp(prefix='verif_c17_', dir=shm if os.path.isdir(shm) and os.access(shm, os.W_OK) and not os.environ.get('C17_TMPDIR') else os.environ.get('C17_TMPDIR'))
    atexit.register(_cleanup)
    try:                      # directories left behind by killed workers (older than an hour)
        import time as _time
        parent = os.path.dirname(TMP)
        for d in os.listdir(parent):
            full = os.path.join(parent, d)
            if d.startswith('verif_c17_') and full != TMP and _time.time() - os.path.getmtime(full) > 3600:
                shutil.rmtree(full, ignore_errors=True)
    except OSError:
        pass
    mpu.Finalize(None, _cleanup, exitpriority=10)          # multiprocessing workers leave through os._exit: atexit does not run there
    DBFILE = os.path.join(TMP, 'c17.sqlite')
    TEMPLATE = os.path.join(TMP, 'template.sqlite')
    psqlite.sqlite = WModule(plan)
    db = Database()
    db.provider_name = 'sqlite'
    pool = psqlite.SQLitePool(False, DBFILE, True)
    db._bind(psqlite.SQLiteProvider, DBFILE, pony_pool_mockup=pool)

    class Acct(db.Entity):
        id = PrimaryKey(int)
        bal = Required(int)
        tags = Set('Tag')

    class Tag(db.Entity):
        id = PrimaryKey(int)
        name = Required(str)
        accts = Set(Acct)

    class Log(db.Entity):
        id = PrimaryKey(int, auto=True)          # explicit ids in most programs; generated by the database in p_auto_*
        msg = Required(str)

    db.generate_mapping(create_tables=True)
    db.disconnect()
    con = sqlite3.connect(DBFILE)
    con.executemany('INSERT INTO Acct (id, bal) VALUES (?, ?)', sorted(SEED['Acct'].items()))
    con.executemany('INSERT INTO Tag (id, name) VALUES (?, ?)', sorted(SEED['Tag'].items()))
    con.executemany('INSERT INTO Acct_Tag (acct, tag) VALUES (?, ?)', sorted(SEED['Link']))
    con.commit()
    con.close()
    shutil.copyfile(DBFILE, TEMPLATE)
    E = types.SimpleNamespace(db=db, Acct=Acct, Tag=Tag, Log=Log)
    assert read_state() == snapshot(SEED), read_state()
    for name in PROGRAMS:
        for mode in range(4):
            for warm in (False, True):
                r = _scenario_body(name, (0, 0, 0), (0, 0, 0), mode, warm)
                assert r, (name, mode, warm, LAST.get('why'), plan.dump())


def snapshot(model):
    return (tuple(sorted(model['Acct'].items())), tuple(sorted(model['Tag'].items())),
            tuple(sorted(model['Link'])), tuple(sorted(model['Log'].items())))


def read_state():
    """What a new process sees: a fresh sqlite3 connection on the file."""
    con = sqlite3.connect(DBFILE)
    try:
        return (tuple(con.execute('SELECT id, bal FROM Acct ORDER BY id').fetchall()),
                tuple(con.execute('SELECT id, name FROM Tag ORDER BY id').fetchall()),
                tuple(con.execute('SELECT acct, tag FROM Acct_Tag ORDER BY acct, tag').fetchall()),
                tuple(con.execute('SELECT id, msg FROM Log ORDER BY id').fetchall()))
    finally:
        con.close()


def _close_raws():
    for raw in plan.raws:
        try: raw.close()           # no commit: an open transaction is discarded by SQLite
        except Exception: pass
    del plan.raws[:]


def _reset():
    """Per-path reset: connections closed, database file = byte copy of the template, no journal file, fresh pool state,
    fresh locks, clean session state."""
    _close_raws()
    plan.reset()
    pool = db.provider.pool
    pool.con = None
    pool.pid = os.getpid()
    for suffix in ('-journal', '-wal', '-shm'):
        try: os.remove(DBFILE + suffix)
        except OSError: pass
    shutil.copyfile(TEMPLATE, DBFILE)
    db.provider.transaction_lock = F.ProbeLock()
    db.provider.pre_transaction_lock = F.ProbeLock()
    F.reset_session_state(db)


# ------------------------------------------------------------------------------------ the write programs
# body(E, mark): runs inside the db_session; mark(i) is called right after the i-th explicit commit() returned.
# reference: list of units, each a list of primitive changes - the documented effect of the body, written by hand.

def _transfer(E, a, b, amount):
    x, y = E.Acct[a], E.Acct[b]
    x.bal -= amount
    y.bal += amount


def p_insert(E, mark):
    E.Acct(id=4, bal=400)
    E.Log(id=1, msg='open 4')


def p_update(E, mark):
    _transfer(E, 1, 2, 50)


def p_delete(E, mark):
    E.Acct[2].delete()          # member of Tag[1].accts: the link row goes too
    E.Tag[2].delete()


def p_m2m(E, mark):
    a1, a3, t1, t2 = E.Acct[1], E.Acct[3], E.Tag[1], E.Tag[2]
    a1.tags.remove(t1)
    a3.tags.add(t2)
    a3.tags.add(t1)


def p_raw_first(E, mark):
    E.db.execute('UPDATE Acct SET bal = bal - 50 WHERE id = 1')
    E.Acct[2].bal += 50
    E.Log(id=1, msg='raw first')


def p_orm_first(E, mark):
    E.Acct[1].bal -= 50
    E.db.execute('UPDATE Acct SET bal = bal + 50 WHERE id = 2')       # auto-flushes the pending ORM change first
    E.Log(id=1, msg='orm first')


def p_db_insert(E, mark):
    E.db.insert('Log', id=1, msg='db.insert')
    E.Acct[1].bal -= 50
    E.db.insert(E.Log, id=2, msg='again')


def p_db_insert_returning(E, mark):
    new_id = E.db.insert('Log', returning='id', id=1, msg='db.insert')      # the `returning` branch has its own _exec_sql call
    E.Acct[1].bal -= 50
    E.db.insert(E.Log, returning='id', id=2, msg='again')


def p_get_connection(E, mark):
    con = E.db.get_connection()                 # nothing pending yet: get_connection itself has to open the transaction
    cur = con.cursor()
    cur.execute('UPDATE Acct SET bal = bal - 50 WHERE id = 1')
    E.Acct[2].bal += 50
    E.Log(id=1, msg='raw cursor')


def p_bulk_delete(E, mark):
    E.Acct.select(lambda a: a.bal > 250).delete(bulk=True)
    E.Log(id=1, msg='purged')


def p_two_flushes(E, mark):
    from pony.orm import flush
    E.Acct(id=4, bal=400)
    flush()
    E.Acct[1].bal -= 50
    flush()
    E.Log(id=1, msg='two flushes')


def p_commit_mid(E, mark):
    from pony.orm import commit
    _transfer(E, 1, 2, 50)
    commit(); mark(1)
    _transfer(E, 2, 3, 70)
    E.Log(id=1, msg='second unit')


def p_commit_mid_raw(E, mark):
    from pony.orm import commit
    E.db.execute('UPDATE Acct SET bal = bal - 50 WHERE id = 1')
    E.db.execute('UPDATE Acct SET bal = bal + 50 WHERE id = 2')
    commit(); mark(1)
    E.Log(id=1, msg='after commit')
    E.db.execute('UPDATE Acct SET bal = bal - 70 WHERE id = 2')
    E.Acct[3].bal += 70
    E.db.commit(); mark(2)
    E.Tag(id=3, name='c')
    E.Acct[3].tags.add(E.Tag[3])


def p_rollback_mid(E, mark):
    from pony.orm import flush, rollback
    E.Acct(id=4, bal=400)
    E.Acct[1].bal -= 50
    flush()
    rollback()                     # the flushed changes are abandoned
    E.Acct[2].bal += 5
    E.Log(id=1, msg='after rollback')


def p_nested(E, mark):
    from pony.orm import db_session
    E.Acct[1].bal -= 50
    with db_session(immediate=True):            # an inner session is ignored: its exit must not commit anything
        E.Acct[2].bal += 50
        E.db.execute("INSERT INTO Log (id, msg) VALUES (1, 'inner')")
    E.Log(id=2, msg='outer')


def p_for_update(E, mark):
    a = E.Acct.get_for_update(id=1)
    b = E.Acct.select(lambda x: x.id == 2).for_update().first()
    a.bal -= 50
    b.bal += 50
    E.Log(id=1, msg='locked')


def p_retry(E, mark):
    _transfer(E, 1, 2, 50)
    E.db.execute("INSERT INTO Log (id, msg) VALUES (1, 'retry')")
    E.Acct[3].bal += 1


def p_obj_flush(E, mark):
    # entity-level flush() (Entity.flush -> _save_ directly, not SessionCache.flush) as the first write: delete, update, create
    a2 = E.Acct[3]
    a2.delete(); a2.flush()
    a1 = E.Acct[1]
    a1.bal -= 50; a1.flush()
    n = E.Acct(id=4, bal=400); n.flush()
    E.Log(id=1, msg='object flushes')


def p_obj_flush_update_first(E, mark):
    a1 = E.Acct[1]
    a1.bal -= 50; a1.flush()
    E.Acct[2].bal += 50
    n = E.Log(id=1, msg='u'); n.flush()
    t = E.Tag[2]
    t.delete(); t.flush()


def p_raw_subselect(E, mark):
    # raw statements whose text contains the word SELECT are writes all the same
    E.db.execute("INSERT INTO Log (id, msg) SELECT 1, 'copied' WHERE EXISTS (SELECT 1 FROM Acct)")
    E.Acct[1].bal -= 50
    E.db.execute('UPDATE Acct SET bal = bal + 50 WHERE id = (SELECT min(id) + 1 FROM Acct)')
    E.db.execute('DELETE FROM Tag WHERE id IN (SELECT id FROM Tag WHERE id = 2)')


def p_get_connection_after_read(E, mark):
    E.Acct[3]                                    # the session already has a connection, in autocommit mode
    con = E.db.get_connection()
    con.execute('UPDATE Acct SET bal = bal - 50 WHERE id = 1')
    cur = con.cursor()
    cur.execute('UPDATE Acct SET bal = bal + 50 WHERE id = 2')
    E.Log(id=1, msg='raw after read')


def p_select_then_raw(E, mark):
    from pony.orm import select
    n = select(a for a in E.Acct if a.bal > 0).count()
    E.db.execute('UPDATE Acct SET bal = bal - 50 WHERE id = 1')
    E.db.select('SELECT id FROM Acct')
    E.db.execute('UPDATE Acct SET bal = bal + 50 WHERE id = 2')
    E.Log(id=1, msg='mixed')


def p_auto_flush_first(E, mark):
    # "flush to learn the id": the INSERT of an object with a database-generated key is the first write of the session
    l = E.Log(msg='auto')
    l.flush()
    E.Acct[1].bal -= 50
    E.Acct[2].bal += 50


def p_auto_two(E, mark):
    from pony.orm import flush
    E.Acct[1].bal -= 50
    l1 = E.Log(msg='one'); l1.flush()
    l2 = E.Log(msg='two')
    flush()
    E.Acct[2].bal += 50


def p_caught_flush_error(E, mark):
    # the program swallows whatever flush() raises and goes on: the session still ends with everything or nothing
    from pony.orm import flush
    E.Acct[1].bal -= 50
    E.Acct(id=4, bal=400)
    try: flush()
    except Exception: pass
    E.Acct[2].bal += 50
    E.Log(id=1, msg='went on')


def _retry_kw():
    from pony.orm import OperationalError
    return dict(retry=1, retry_exceptions=[OperationalError])


SESSION_EXTRA = {'retry': _retry_kw}          # programs run as a decorated function with these extra db_session options

PROGRAMS = {
    'insert': (p_insert, [[('acct+', 4, 400), ('log+', 1, 'open 4')]]),
    'update': (p_update, [[('bal', 1, -50), ('bal', 2, 50)]]),
    'delete': (p_delete, [[('acct-', 2), ('link-', 2, 1), ('tag-', 2)]]),
    'm2m': (p_m2m, [[('link-', 1, 1), ('link+', 3, 2), ('link+', 3, 1)]]),
    'raw_first': (p_raw_first, [[('bal', 1, -50), ('bal', 2, 50), ('log+', 1, 'raw first')]]),
    'orm_first': (p_orm_first, [[('bal', 1, -50), ('bal', 2, 50), ('log+', 1, 'orm first')]]),
    'db_insert': (p_db_insert, [[('log+', 1, 'db.insert'), ('bal', 1, -50), ('log+', 2, 'again')]]),
    'db_insert_returning': (p_db_insert_returning, [[('log+', 1, 'db.insert'), ('bal', 1, -50), ('log+', 2, 'again')]]),
    'get_connection': (p_get_connection, [[('bal', 1, -50), ('bal', 2, 50), ('log+', 1, 'raw cursor')]]),
    'bulk_delete': (p_bulk_delete, [[('acct-', 3), ('log+', 1, 'purged')]]),
    'two_flushes': (p_two_flushes, [[('acct+', 4, 400), ('bal', 1, -50), ('log+', 1, 'two flushes')]]),
    'commit_mid': (p_commit_mid, [[('bal', 1, -50), ('bal', 2, 50)],
                                  [('bal', 2, -70), ('bal', 3, 70), ('log+', 1, 'second unit')]]),
    'commit_mid_raw': (p_commit_mid_raw, [[('bal', 1, -50), ('bal', 2, 50)],
                                          [('log+', 1, 'after commit'), ('bal', 2, -70), ('bal', 3, 70)],
                                          [('tag+', 3, 'c'), ('link+', 3, 3)]]),
    'rollback_mid': (p_rollback_mid, [[('bal', 2, 5), ('log+', 1, 'after rollback')]]),
    'nested': (p_nested, [[('bal', 1, -50), ('bal', 2, 50), ('log+', 1, 'inner'), ('log+', 2, 'outer')]]),
    'for_update': (p_for_update, [[('bal', 1, -50), ('bal', 2, 50), ('log+', 1, 'locked')]]),
    'retry': (p_retry, [[('bal', 1, -50), ('bal', 2, 50), ('log+', 1, 'retry'), ('bal', 3, 1)]]),
    'obj_flush': (p_obj_flush, [[('acct-', 3), ('bal', 1, -50), ('acct+', 4, 400), ('log+', 1, 'object flushes')]]),
    'obj_flush_update_first': (p_obj_flush_update_first, [[('bal', 1, -50), ('bal', 2, 50), ('log+', 1, 'u'), ('tag-', 2)]]),
    'raw_subselect': (p_raw_subselect, [[('log+', 1, 'copied'), ('bal', 1, -50), ('bal', 2, 50), ('tag-', 2)]]),
    'get_connection_after_read': (p_get_connection_after_read, [[('bal', 1, -50), ('bal', 2, 50), ('log+', 1, 'raw after read')]]),
    'select_then_raw': (p_select_then_raw, [[('bal', 1, -50), ('bal', 2, 50), ('log+', 1, 'mixed')]]),
    'auto_flush_first': (p_auto_flush_first, [[('log+', 1, 'auto'), ('bal', 1, -50), ('bal', 2, 50)]]),
    'auto_two': (p_auto_two, [[('bal', 1, -50), ('log+', 1, 'one'), ('log+', 2, 'two'), ('bal', 2, 50)]]),
    'caught_flush_error': (p_caught_flush_error, [[('bal', 1, -50), ('acct+', 4, 400), ('bal', 2, 50), ('log+', 1, 'went on')]]),
}


def _apply(model, change):
    op = change[0]
    if op == 'acct+': model['Acct'][change[1]] = change[2]
    elif op == 'acct-': del model['Acct'][change[1]]
    elif op == 'bal': model['Acct'][change[1]] += change[2]
    elif op == 'tag+': model['Tag'][change[1]] = change[2]
    elif op == 'tag-': del model['Tag'][change[1]]
    elif op == 'link+': model['Link'].add((change[1], change[2]))
    elif op == 'link-': model['Link'].remove((change[1], change[2]))
    elif op == 'log+': model['Log'][change[1]] = change[2]
    else: raise ValueError(op)


def expected_states(name, follow=False):
    """E[0], E[1], ...: the commit-point states of program `name` (with the follow-up session's marker row if asked)."""
    model = dict(Acct=dict(SEED['Acct']), Tag=dict(SEED['Tag']), Link=set(SEED['Link']), Log=dict(SEED['Log']))
    if follow: model['Log'][FOLLOW[0]] = FOLLOW[1]
    out = [snapshot(model)]
    for unit in PROGRAMS[name][1]:
        assert len(unit) >= 2
        for change in unit: _apply(model, change)
        out.append(snapshot(model))
    assert len(set(out)) == len(out)
    return out


# ------------------------------------------------------------------------------------ scenario + judgement
def _judge(name, final, reached, session_exc, follow, why):
    exp = expected_states(name, follow)
    if final not in exp:
        why.append('A1: the file holds none of the commit-point states: %r (expected one of %r)' % (final, exp))
        return False
    idx = exp.index(final)
    if idx < reached:
        why.append('A2: commit() number %d returned but the file holds state E[%d]' % (reached, idx))
        return False
    if session_exc is None and idx != len(exp) - 1:
        why.append('A2: the session returned without an exception but the file holds state E[%d] of %d' % (idx, len(exp) - 1))
        return False
    return True


def _scenario_body(name, faults, kinds, mode, warm):
    from pony.orm import db_session
    COUNT[0] += 1
    why = []
    LAST.clear(); LAST.update(why=why)
    _reset()
    body = PROGRAMS[name][0]
    if warm:                                   # an earlier, unfaulted session leaves its connection in the pool
        with db_session:
            E.Acct[1]
    reached = [0]
    def mark(i): reached[0] = i
    plan.arm(faults, kinds)
    session_exc = None
    try:
        if name in SESSION_EXTRA:
            kw = dict(MODE_KW[mode]); kw.update(SESSION_EXTRA[name]())
            db_session(**kw)(body)(E, mark)
        else:
            with db_session(**MODE_KW[mode]):
                body(E, mark)
    except Exception as e:
        session_exc = '%s: %s' % (type(e).__name__, e)       # text only: a kept traceback would keep pony's frames (and cursors) alive
    plan.armed = False
    LAST['exc'] = session_exc
    if plan.n > KMAX:
        why.append('harness bound: %d statements in the faulted session > KMAX' % plan.n)
        return False
    if not plan.hit and session_exc is not None:
        why.append('A4: no fault was injected but the session raised %s' % session_exc)
        return False
    if plan.dead:
        # the process is gone: nothing else runs, its connection disappears without a commit
        _close_raws()
        return _judge(name, read_state(), reached[0], True, False, why)
    # the process lives on (error-once faults, or no fault)
    for raw in plan.raws:
        try: pending = raw.in_transaction
        except sqlite3.ProgrammingError: continue           # closed
        if pending:
            why.append('A3: a connection that is still open carries an open transaction after the session ended')
            return False
    try:
        with db_session:
            E.Log(id=FOLLOW[0], msg=FOLLOW[1])
    except Exception as e:
        why.append('A3: the following session failed: %s: %s' % (type(e).__name__, e))
        return False
    try: db.disconnect()
    except Exception as e:
        why.append('disconnect failed: %r' % (e,))
        return False
    _close_raws()
    return _judge(name, read_state(), reached[0], session_exc, True, why)


def _say(result):
    if not result and 'violation_' in (sys.argv[0] if sys.argv else ''):
        print('reasons: %s' % '; '.join(LAST.get('why', ())))
        print('session raised: %r' % (LAST.get('exc'),))
        print('statement journal: %s' % plan.dump())


def _scenario(name, k1, k2, k3, kind1, kind2, kind3, mode, warm):
    # the small symbolic options are decided here, under tracing; the fault positions stay symbolic
    kind1 = 0 if kind1 == 0 else 1 if kind1 == 1 else 2
    kind2 = 0 if kind2 == 0 else 1 if kind2 == 1 else 2
    kind3 = 0 if kind3 == 0 else 1 if kind3 == 1 else 2
    warm = True if warm else False
    mode = 0 if mode == 0 else 1 if mode == 1 else 2 if mode == 2 else 3
    with F.untraced(plan):
        r = _scenario_body(name, (k1, k2, k3), (kind1, kind2, kind3), mode, warm)
    _say(r)
    return r


def explain(fn, **kw):
    """for replays / classify: run a harness untraced and return (result, reasons, statement journal)"""
    r = globals()[fn](**kw)
    return r, list(LAST.get('why', ())), plan.dump()


# ------------------------------------------------------------------------------------ concrete tie: real process death
def tie_main():
    """Concrete tie (NOT solver-quantified): the same sessions in a forked child process that really ends (os._exit) at
    statement k, for every k of every program x mode; the parent - another process - then opens the file.  SQLite's
    crash recovery (hot journal) is what runs here instead of the "connection closed without commit" stand-in of the
    harnesses.  Prints one JSON line per program."""
    import json
    from pony.orm import db_session
    setup()
    modes = range(MODES)
    only = [x for x in os.environ.get('C17_TIE_PROGRAMS', '').split(',') if x]
    for name in (only or PROGRAMS):
        body = PROGRAMS[name][0]
        bad, runs = [], 0
        for mode in modes:
            _scenario_body(name, (0, 0, 0), (0, 0, 0), mode, False)
            n = plan.n
            for k in range(1, n + 2):
                _reset()
                r, w = os.pipe()
                pid = os.fork()
                if pid == 0:
                    code = 1
                    try:
                        os.close(r)
                        plan.arm((k,), (3,))
                        def mark(i): os.write(w, bytes([i]))
                        try:
                            if name in SESSION_EXTRA:
                                kw = dict(MODE_KW[mode]); kw.update(SESSION_EXTRA[name]())
                                db_session(**kw)(body)(E, mark)
                            else:
                                with db_session(**MODE_KW[mode]):
                                    body(E, mark)
                            code = 0
                        except Exception:
                            code = 2
                    finally:
                        os._exit(code)
                os.close(w)
                _, status = os.waitpid(pid, 0)
                marks = b''
                while True:
                    chunk = os.read(r, 64)
                    if not chunk: break
                    marks += chunk
                os.close(r)
                code = os.waitstatus_to_exitcode(status)
                runs += 1
                why = []
                died = code == EXIT_DIED
                if not died and code != 0: why.append('child ended with exit code %d although no statement %d exists' % (code, k))
                if died != (k <= n): why.append('child %s at k=%d of %d statements' % ('died' if died else 'survived', k, n))
                _judge(name, read_state(), max(marks) if marks else 0, True if died else None, False, why)
                if why: bad.append({'mode': MODE_NAMES[mode], 'k': k, 'why': why})
        print(json.dumps({'program': name, 'runs': runs, 'bad': bad[:3]}), flush=True)
    _cleanup()


HARNESSES = []

# One explicit function per program (CrossHair reads the conditions from the source text).

def insert(k1: int, k2: int, k3: int, kind1: int, kind2: int, kind3: int, mode: int, warm: bool) -> bool:
    """
    pre: 0 <= k1 <= KMAX
    pre: (k2 == 0) or (0 < k1 < k2 <= K2MAX)
    pre: (k3 == 0) or (0 < k2 < k3 <= K3MAX)
    pre: 0 <= kind1 < KINDS and 0 <= kind2 < KINDS and 0 <= kind3 < KINDS
    pre: (kind1 == 0 or k1 != 0) and (kind2 == 0 or k2 != 0) and (kind3 == 0 or k3 != 0)
    pre: (kind1 != 1 or k2 == 0) and (kind2 != 1 or k3 == 0)
    pre: FULL or k2 == 0 or (kind1 == 0 and kind2 <= 1)
    pre: k3 == 0 or (kind1 == 0 and kind2 == 0 and kind3 <= 1)
    pre: 0 <= mode < MODES
    pre: WARM or not warm
    post: _
    """
    return ok(_scenario('insert', k1, k2, k3, kind1, kind2, kind3, mode, warm))
HARNESSES.append('insert')


def update(k1: int, k2: int, k3: int, kind1: int, kind2: int, kind3: int, mode: int, warm: bool) -> bool:
    """
    pre: 0 <= k1 <= KMAX
    pre: (k2 == 0) or (0 < k1 < k2 <= K2MAX)
    pre: (k3 == 0) or (0 < k2 < k3 <= K3MAX)
    pre: 0 <= kind1 < KINDS and 0 <= kind2 < KINDS and 0 <= kind3 < KINDS
    pre: (kind1 == 0 or k1 != 0) and (kind2 == 0 or k2 != 0) and (kind3 == 0 or k3 != 0)
    pre: (kind1 != 1 or k2 == 0) and (kind2 != 1 or k3 == 0)
    pre: FULL or k2 == 0 or (kind1 == 0 and kind2 <= 1)
    pre: k3 == 0 or (kind1 == 0 and kind2 == 0 and kind3 <= 1)
    pre: 0 <= mode < MODES
    pre: WARM or not warm
    post: _
    """
    return ok(_scenario('update', k1, k2, k3, kind1, kind2, kind3, mode, warm))
HARNESSES.append('update')


def delete(k1: int, k2: int, k3: int, kind1: int, kind2: int, kind3: int, mode: int, warm: bool) -> bool:
    """
    pre: 0 <= k1 <= KMAX
    pre: (k2 == 0) or (0 < k1 < k2 <= K2MAX)
    pre: (k3 == 0) or (0 < k2 < k3 <= K3MAX)
    pre: 0 <= kind1 < KINDS and 0 <= kind2 < KINDS and 0 <= kind3 < KINDS
    pre: (kind1 == 0 or k1 != 0) and (kind2 == 0 or k2 != 0) and (kind3 == 0 or k3 != 0)
    pre: (kind1 != 1 or k2 == 0) and (kind2 != 1 or k3 == 0)
    pre: FULL or k2 == 0 or (kind1 == 0 and kind2 <= 1)
    pre: k3 == 0 or (kind1 == 0 and kind2 == 0 and kind3 <= 1)
    pre: 0 <= mode < MODES
    pre: WARM or not warm
    post: _
    """
    return ok(_scenario('delete', k1, k2, k3, kind1, kind2, kind3, mode, warm))
HARNESSES.append('delete')


def m2m(k1: int, k2: int, k3: int, kind1: int, kind2: int, kind3: int, mode: int, warm: bool) -> bool:
    """
    pre: 0 <= k1 <= KMAX
    pre: (k2 == 0) or (0 < k1 < k2 <= K2MAX)
    pre: (k3 == 0) or (0 < k2 < k3 <= K3MAX)
    pre: 0 <= kind1 < KINDS and 0 <= kind2 < KINDS and 0 <= kind3 < KINDS
    pre: (kind1 == 0 or k1 != 0) and (kind2 == 0 or k2 != 0) and (kind3 == 0 or k3 != 0)
    pre: (kind1 != 1 or k2 == 0) and (kind2 != 1 or k3 == 0)
    pre: FULL or k2 == 0 or (kind1 == 0 and kind2 <= 1)
    pre: k3 == 0 or (kind1 == 0 and kind2 == 0 and kind3 <= 1)
    pre: 0 <= mode < MODES
    pre: WARM or not warm
    post: _
    """
    return ok(_scenario('m2m', k1, k2, k3, kind1, kind2, kind3, mode, warm))
HARNESSES.append('m2m')


def raw_first(k1: int, k2: int, k3: int, kind1: int, kind2: int, kind3: int, mode: int, warm: bool) -> bool:
    """
    pre: 0 <= k1 <= KMAX
    pre: (k2 == 0) or (0 < k1 < k2 <= K2MAX)
    pre: (k3 == 0) or (0 < k2 < k3 <= K3MAX)
    pre: 0 <= kind1 < KINDS and 0 <= kind2 < KINDS and 0 <= kind3 < KINDS
    pre: (kind1 == 0 or k1 != 0) and (kind2 == 0 or k2 != 0) and (kind3 == 0 or k3 != 0)
    pre: (kind1 != 1 or k2 == 0) and (kind2 != 1 or k3 == 0)
    pre: FULL or k2 == 0 or (kind1 == 0 and kind2 <= 1)
    pre: k3 == 0 or (kind1 == 0 and kind2 == 0 and kind3 <= 1)
    pre: 0 <= mode < MODES
    pre: WARM or not warm
    post: _
    """
    return ok(_scenario('raw_first', k1, k2, k3, kind1, kind2, kind3, mode, warm))
HARNESSES.append('raw_first')


def orm_first(k1: int, k2: int, k3: int, kind1: int, kind2: int, kind3: int, mode: int, warm: bool) -> bool:
    """
    pre: 0 <= k1 <= KMAX
    pre: (k2 == 0) or (0 < k1 < k2 <= K2MAX)
    pre: (k3 == 0) or (0 < k2 < k3 <= K3MAX)
    pre: 0 <= kind1 < KINDS and 0 <= kind2 < KINDS and 0 <= kind3 < KINDS
    pre: (kind1 == 0 or k1 != 0) and (kind2 == 0 or k2 != 0) and (kind3 == 0 or k3 != 0)
    pre: (kind1 != 1 or k2 == 0) and (kind2 != 1 or k3 == 0)
    pre: FULL or k2 == 0 or (kind1 == 0 and kind2 <= 1)
    pre: k3 == 0 or (kind1 == 0 and kind2 == 0 and kind3 <= 1)
    pre: 0 <= mode < MODES
    pre: WARM or not warm
    post: _
    """
    return ok(_scenario('orm_first', k1, k2, k3, kind1, kind2, kind3, mode, warm))
HARNESSES.append('orm_first')


def db_insert(k1: int, k2: int, k3: int, kind1: int, kind2: int, kind3: int, mode: int, warm: bool) -> bool:
    """
    pre: 0 <= k1 <= KMAX
    pre: (k2 == 0) or (0 < k1 < k2 <= K2MAX)
    pre: (k3 == 0) or (0 < k2 < k3 <= K3MAX)
    pre: 0 <= kind1 < KINDS and 0 <= kind2 < KINDS and 0 <= kind3 < KINDS
    pre: (kind1 == 0 or k1 != 0) and (kind2 == 0 or k2 != 0) and (kind3 == 0 or k3 != 0)
    pre: (kind1 != 1 or k2 == 0) and (kind2 != 1 or k3 == 0)
    pre: FULL or k2 == 0 or (kind1 == 0 and kind2 <= 1)
    pre: k3 == 0 or (kind1 == 0 and kind2 == 0 and kind3 <= 1)
    pre: 0 <= mode < MODES
    pre: WARM or not warm
    post: _
    """
    return ok(_scenario('db_insert', k1, k2, k3, kind1, kind2, kind3, mode, warm))
HARNESSES.append('db_insert')


def db_insert_returning(k1: int, k2: int, k3: int, kind1: int, kind2: int, kind3: int, mode: int, warm: bool) -> bool:
    """
    pre: 0 <= k1 <= KMAX
    pre: (k2 == 0) or (0 < k1 < k2 <= K2MAX)
    pre: (k3 == 0) or (0 < k2 < k3 <= K3MAX)
    pre: 0 <= kind1 < KINDS and 0 <= kind2 < KINDS and 0 <= kind3 < KINDS
    pre: (kind1 == 0 or k1 != 0) and (kind2 == 0 or k2 != 0) and (kind3 == 0 or k3 != 0)
    pre: (kind1 != 1 or k2 == 0) and (kind2 != 1 or k3 == 0)
    pre: FULL or k2 == 0 or (kind1 == 0 and kind2 <= 1)
    pre: k3 == 0 or (kind1 == 0 and kind2 == 0 and kind3 <= 1)
    pre: 0 <= mode < MODES
    pre: WARM or not warm
    post: _
    """
    return ok(_scenario('db_insert_returning', k1, k2, k3, kind1, kind2, kind3, mode, warm))
HARNESSES.append('db_insert_returning')


def get_connection(k1: int, k2: int, k3: int, kind1: int, kind2: int, kind3: int, mode: int, warm: bool) -> bool:
    """
    pre: 0 <= k1 <= KMAX
    pre: (k2 == 0) or (0 < k1 < k2 <= K2MAX)
    pre: (k3 == 0) or (0 < k2 < k3 <= K3MAX)
    pre: 0 <= kind1 < KINDS and 0 <= kind2 < KINDS and 0 <= kind3 < KINDS
    pre: (kind1 == 0 or k1 != 0) and (kind2 == 0 or k2 != 0) and (kind3 == 0 or k3 != 0)
    pre: (kind1 != 1 or k2 == 0) and (kind2 != 1 or k3 == 0)
    pre: FULL or k2 == 0 or (kind1 == 0 and kind2 <= 1)
    pre: k3 == 0 or (kind1 == 0 and kind2 == 0 and kind3 <= 1)
    pre: 0 <= mode < MODES
    pre: WARM or not warm
    post: _
    """
    return ok(_scenario('get_connection', k1, k2, k3, kind1, kind2, kind3, mode, warm))
HARNESSES.append('get_connection')


def bulk_delete(k1: int, k2: int, k3: int, kind1: int, kind2: int, kind3: int, mode: int, warm: bool) -> bool:
    """
    pre: 0 <= k1 <= KMAX
    pre: (k2 == 0) or (0 < k1 < k2 <= K2MAX)
    pre: (k3 == 0) or (0 < k2 < k3 <= K3MAX)
    pre: 0 <= kind1 < KINDS and 0 <= kind2 < KINDS and 0 <= kind3 < KINDS
    pre: (kind1 == 0 or k1 != 0) and (kind2 == 0 or k2 != 0) and (kind3 == 0 or k3 != 0)
    pre: (kind1 != 1 or k2 == 0) and (kind2 != 1 or k3 == 0)
    pre: FULL or k2 == 0 or (kind1 == 0 and kind2 <= 1)
    pre: k3 == 0 or (kind1 == 0 and kind2 == 0 and kind3 <= 1)
    pre: 0 <= mode < MODES
    pre: WARM or not warm
    post: _
    """
    return ok(_scenario('bulk_delete', k1, k2, k3, kind1, kind2, kind3, mode, warm))
HARNESSES.append('bulk_delete')


def two_flushes(k1: int, k2: int, k3: int, kind1: int, kind2: int, kind3: int, mode: int, warm: bool) -> bool:
    """
    pre: 0 <= k1 <= KMAX
    pre: (k2 == 0) or (0 < k1 < k2 <= K2MAX)
    pre: (k3 == 0) or (0 < k2 < k3 <= K3MAX)
    pre: 0 <= kind1 < KINDS and 0 <= kind2 < KINDS and 0 <= kind3 < KINDS
    pre: (kind1 == 0 or k1 != 0) and (kind2 == 0 or k2 != 0) and (kind3 == 0 or k3 != 0)
    pre: (kind1 != 1 or k2 == 0) and (kind2 != 1 or k3 == 0)
    pre: FULL or k2 == 0 or (kind1 == 0 and kind2 <= 1)
    pre: k3 == 0 or (kind1 == 0 and kind2 == 0 and kind3 <= 1)
    pre: 0 <= mode < MODES
    pre: WARM or not warm
    post: _
    """
    return ok(_scenario('two_flushes', k1, k2, k3, kind1, kind2, kind3, mode, warm))
HARNESSES.append('two_flushes')


def commit_mid(k1: int, k2: int, k3: int, kind1: int, kind2: int, kind3: int, mode: int, warm: bool) -> bool:
    """
    pre: 0 <= k1 <= KMAX
    pre: (k2 == 0) or (0 < k1 < k2 <= K2MAX)
    pre: (k3 == 0) or (0 < k2 < k3 <= K3MAX)
    pre: 0 <= kind1 < KINDS and 0 <= kind2 < KINDS and 0 <= kind3 < KINDS
    pre: (kind1 == 0 or k1 != 0) and (kind2 == 0 or k2 != 0) and (kind3 == 0 or k3 != 0)
    pre: (kind1 != 1 or k2 == 0) and (kind2 != 1 or k3 == 0)
    pre: FULL or k2 == 0 or (kind1 == 0 and kind2 <= 1)
    pre: k3 == 0 or (kind1 == 0 and kind2 == 0 and kind3 <= 1)
    pre: 0 <= mode < MODES
    pre: WARM or not warm
    post: _
    """
    return ok(_scenario('commit_mid', k1, k2, k3, kind1, kind2, kind3, mode, warm))
HARNESSES.append('commit_mid')


def commit_mid_raw(k1: int, k2: int, k3: int, kind1: int, kind2: int, kind3: int, mode: int, warm: bool) -> bool:
    """
    pre: 0 <= k1 <= KMAX
    pre: (k2 == 0) or (0 < k1 < k2 <= K2MAX)
    pre: (k3 == 0) or (0 < k2 < k3 <= K3MAX)
    pre: 0 <= kind1 < KINDS and 0 <= kind2 < KINDS and 0 <= kind3 < KINDS
    pre: (kind1 == 0 or k1 != 0) and (kind2 == 0 or k2 != 0) and (kind3 == 0 or k3 != 0)
    pre: (kind1 != 1 or k2 == 0) and (kind2 != 1 or k3 == 0)
    pre: FULL or k2 == 0 or (kind1 == 0 and kind2 <= 1)
    pre: k3 == 0 or (kind1 == 0 and kind2 == 0 and kind3 <= 1)
    pre: 0 <= mode < MODES
    pre: WARM or not warm
    post: _
    """
    return ok(_scenario('commit_mid_raw', k1, k2, k3, kind1, kind2, kind3, mode, warm))
HARNESSES.append('commit_mid_raw')


def rollback_mid(k1: int, k2: int, k3: int, kind1: int, kind2: int, kind3: int, mode: int, warm: bool) -> bool:
    """
    pre: 0 <= k1 <= KMAX
    pre: (k2 == 0) or (0 < k1 < k2 <= K2MAX)
    pre: (k3 == 0) or (0 < k2 < k3 <= K3MAX)
    pre: 0 <= kind1 < KINDS and 0 <= kind2 < KINDS and 0 <= kind3 < KINDS
    pre: (kind1 == 0 or k1 != 0) and (kind2 == 0 or k2 != 0) and (kind3 == 0 or k3 != 0)
    pre: (kind1 != 1 or k2 == 0) and (kind2 != 1 or k3 == 0)
    pre: FULL or k2 == 0 or (kind1 == 0 and kind2 <= 1)
    pre: k3 == 0 or (kind1 == 0 and kind2 == 0 and kind3 <= 1)
    pre: 0 <= mode < MODES
    pre: WARM or not warm
    post: _
    """
    return ok(_scenario('rollback_mid', k1, k2, k3, kind1, kind2, kind3, mode, warm))
HARNESSES.append('rollback_mid')


def nested(k1: int, k2: int, k3: int, kind1: int, kind2: int, kind3: int, mode: int, warm: bool) -> bool:
    """
    pre: 0 <= k1 <= KMAX
    pre: (k2 == 0) or (0 < k1 < k2 <= K2MAX)
    pre: (k3 == 0) or (0 < k2 < k3 <= K3MAX)
    pre: 0 <= kind1 < KINDS and 0 <= kind2 < KINDS and 0 <= kind3 < KINDS
    pre: (kind1 == 0 or k1 != 0) and (kind2 == 0 or k2 != 0) and (kind3 == 0 or k3 != 0)
    pre: (kind1 != 1 or k2 == 0) and (kind2 != 1 or k3 == 0)
    pre: FULL or k2 == 0 or (kind1 == 0 and kind2 <= 1)
    pre: k3 == 0 or (kind1 == 0 and kind2 == 0 and kind3 <= 1)
    pre: 0 <= mode < MODES
    pre: WARM or not warm
    post: _
    """
    return ok(_scenario('nested', k1, k2, k3, kind1, kind2, kind3, mode, warm))
HARNESSES.append('nested')


def for_update(k1: int, k2: int, k3: int, kind1: int, kind2: int, kind3: int, mode: int, warm: bool) -> bool:
    """
    pre: 0 <= k1 <= KMAX
    pre: (k2 == 0) or (0 < k1 < k2 <= K2MAX)
    pre: (k3 == 0) or (0 < k2 < k3 <= K3MAX)
    pre: 0 <= kind1 < KINDS and 0 <= kind2 < KINDS and 0 <= kind3 < KINDS
    pre: (kind1 == 0 or k1 != 0) and (kind2 == 0 or k2 != 0) and (kind3 == 0 or k3 != 0)
    pre: (kind1 != 1 or k2 == 0) and (kind2 != 1 or k3 == 0)
    pre: FULL or k2 == 0 or (kind1 == 0 and kind2 <= 1)
    pre: k3 == 0 or (kind1 == 0 and kind2 == 0 and kind3 <= 1)
    pre: 0 <= mode < MODES
    pre: WARM or not warm
    post: _
    """
    return ok(_scenario('for_update', k1, k2, k3, kind1, kind2, kind3, mode, warm))
HARNESSES.append('for_update')


def retry(k1: int, k2: int, k3: int, kind1: int, kind2: int, kind3: int, mode: int, warm: bool) -> bool:
    """
    pre: 0 <= k1 <= KMAX
    pre: (k2 == 0) or (0 < k1 < k2 <= K2MAX)
    pre: (k3 == 0) or (0 < k2 < k3 <= K3MAX)
    pre: 0 <= kind1 < KINDS and 0 <= kind2 < KINDS and 0 <= kind3 < KINDS
    pre: (kind1 == 0 or k1 != 0) and (kind2 == 0 or k2 != 0) and (kind3 == 0 or k3 != 0)
    pre: (kind1 != 1 or k2 == 0) and (kind2 != 1 or k3 == 0)
    pre: FULL or k2 == 0 or (kind1 == 0 and kind2 <= 1)
    pre: k3 == 0 or (kind1 == 0 and kind2 == 0 and kind3 <= 1)
    pre: 0 <= mode < MODES
    pre: WARM or not warm
    post: _
    """
    return ok(_scenario('retry', k1, k2, k3, kind1, kind2, kind3, mode, warm))
HARNESSES.append('retry')


def obj_flush(k1: int, k2: int, k3: int, kind1: int, kind2: int, kind3: int, mode: int, warm: bool) -> bool:
    """
    pre: 0 <= k1 <= KMAX
    pre: (k2 == 0) or (0 < k1 < k2 <= K2MAX)
    pre: (k3 == 0) or (0 < k2 < k3 <= K3MAX)
    pre: 0 <= kind1 < KINDS and 0 <= kind2 < KINDS and 0 <= kind3 < KINDS
    pre: (kind1 == 0 or k1 != 0) and (kind2 == 0 or k2 != 0) and (kind3 == 0 or k3 != 0)
    pre: (kind1 != 1 or k2 == 0) and (kind2 != 1 or k3 == 0)
    pre: FULL or k2 == 0 or (kind1 == 0 and kind2 <= 1)
    pre: k3 == 0 or (kind1 == 0 and kind2 == 0 and kind3 <= 1)
    pre: 0 <= mode < MODES
    pre: WARM or not warm
    post: _
    """
    return ok(_scenario('obj_flush', k1, k2, k3, kind1, kind2, kind3, mode, warm))
HARNESSES.append('obj_flush')


def obj_flush_update_first(k1: int, k2: int, k3: int, kind1: int, kind2: int, kind3: int, mode: int, warm: bool) -> bool:
    """
    pre: 0 <= k1 <= KMAX
    pre: (k2 == 0) or (0 < k1 < k2 <= K2MAX)
    pre: (k3 == 0) or (0 < k2 < k3 <= K3MAX)
    pre: 0 <= kind1 < KINDS and 0 <= kind2 < KINDS and 0 <= kind3 < KINDS
    pre: (kind1 == 0 or k1 != 0) and (kind2 == 0 or k2 != 0) and (kind3 == 0 or k3 != 0)
    pre: (kind1 != 1 or k2 == 0) and (kind2 != 1 or k3 == 0)
    pre: FULL or k2 == 0 or (kind1 == 0 and kind2 <= 1)
    pre: k3 == 0 or (kind1 == 0 and kind2 == 0 and kind3 <= 1)
    pre: 0 <= mode < MODES
    pre: WARM or not warm
    post: _
    """
    return ok(_scenario('obj_flush_update_first', k1, k2, k3, kind1, kind2, kind3, mode, warm))
HARNESSES.append('obj_flush_update_first')


def raw_subselect(k1: int, k2: int, k3: int, kind1: int, kind2: int, kind3: int, mode: int, warm: bool) -> bool:
    """
    pre: 0 <= k1 <= KMAX
    pre: (k2 == 0) or (0 < k1 < k2 <= K2MAX)
    pre: (k3 == 0) or (0 < k2 < k3 <= K3MAX)
    pre: 0 <= kind1 < KINDS and 0 <= kind2 < KINDS and 0 <= kind3 < KINDS
    pre: (kind1 == 0 or k1 != 0) and (kind2 == 0 or k2 != 0) and (kind3 == 0 or k3 != 0)
    pre: (kind1 != 1 or k2 == 0) and (kind2 != 1 or k3 == 0)
    pre: FULL or k2 == 0 or (kind1 == 0 and kind2 <= 1)
    pre: k3 == 0 or (kind1 == 0 and kind2 == 0 and kind3 <= 1)
    pre: 0 <= mode < MODES
    pre: WARM or not warm
    post: _
    """
    return ok(_scenario('raw_subselect', k1, k2, k3, kind1, kind2, kind3, mode, warm))
HARNESSES.append('raw_subselect')


def get_connection_after_read(k1: int, k2: int, k3: int, kind1: int, kind2: int, kind3: int, mode: int, warm: bool) -> bool:
    """
    pre: 0 <= k1 <= KMAX
    pre: (k2 == 0) or (0 < k1 < k2 <= K2MAX)
    pre: (k3 == 0) or (0 < k2 < k3 <= K3MAX)
    pre: 0 <= kind1 < KINDS and 0 <= kind2 < KINDS and 0 <= kind3 < KINDS
    pre: (kind1 == 0 or k1 != 0) and (kind2 == 0 or k2 != 0) and (kind3 == 0 or k3 != 0)
    pre: (kind1 != 1 or k2 == 0) and (kind2 != 1 or k3 == 0)
    pre: FULL or k2 == 0 or (kind1 == 0 and kind2 <= 1)
    pre: k3 == 0 or (kind1 == 0 and kind2 == 0 and kind3 <= 1)
    pre: 0 <= mode < MODES
    pre: WARM or not warm
    post: _
    """
    return ok(_scenario('get_connection_after_read', k1, k2, k3, kind1, kind2, kind3, mode, warm))
HARNESSES.append('get_connection_after_read')


def select_then_raw(k1: int, k2: int, k3: int, kind1: int, kind2: int, kind3: int, mode: int, warm: bool) -> bool:
    """
    pre: 0 <= k1 <= KMAX
    pre: (k2 == 0) or (0 < k1 < k2 <= K2MAX)
    pre: (k3 == 0) or (0 < k2 < k3 <= K3MAX)
    pre: 0 <= kind1 < KINDS and 0 <= kind2 < KINDS and 0 <= kind3 < KINDS
    pre: (kind1 == 0 or k1 != 0) and (kind2 == 0 or k2 != 0) and (kind3 == 0 or k3 != 0)
    pre: (kind1 != 1 or k2 == 0) and (kind2 != 1 or k3 == 0)
    pre: FULL or k2 == 0 or (kind1 == 0 and kind2 <= 1)
    pre: k3 == 0 or (kind1 == 0 and kind2 == 0 and kind3 <= 1)
    pre: 0 <= mode < MODES
    pre: WARM or not warm
    post: _
    """
    return ok(_scenario('select_then_raw', k1, k2, k3, kind1, kind2, kind3, mode, warm))
HARNESSES.append('select_then_raw')


def auto_flush_first(k1: int, k2: int, k3: int, kind1: int, kind2: int, kind3: int, mode: int, warm: bool) -> bool:
    """
    pre: 0 <= k1 <= KMAX
    pre: (k2 == 0) or (0 < k1 < k2 <= K2MAX)
    pre: (k3 == 0) or (0 < k2 < k3 <= K3MAX)
    pre: 0 <= kind1 < KINDS and 0 <= kind2 < KINDS and 0 <= kind3 < KINDS
    pre: (kind1 == 0 or k1 != 0) and (kind2 == 0 or k2 != 0) and (kind3 == 0 or k3 != 0)
    pre: (kind1 != 1 or k2 == 0) and (kind2 != 1 or k3 == 0)
    pre: FULL or k2 == 0 or (kind1 == 0 and kind2 <= 1)
    pre: k3 == 0 or (kind1 == 0 and kind2 == 0 and kind3 <= 1)
    pre: 0 <= mode < MODES
    pre: WARM or not warm
    post: _
    """
    return ok(_scenario('auto_flush_first', k1, k2, k3, kind1, kind2, kind3, mode, warm))
HARNESSES.append('auto_flush_first')


def auto_two(k1: int, k2: int, k3: int, kind1: int, kind2: int, kind3: int, mode: int, warm: bool) -> bool:
    """
    pre: 0 <= k1 <= KMAX
    pre: (k2 == 0) or (0 < k1 < k2 <= K2MAX)
    pre: (k3 == 0) or (0 < k2 < k3 <= K3MAX)
    pre: 0 <= kind1 < KINDS and 0 <= kind2 < KINDS and 0 <= kind3 < KINDS
    pre: (kind1 == 0 or k1 != 0) and (kind2 == 0 or k2 != 0) and (kind3 == 0 or k3 != 0)
    pre: (kind1 != 1 or k2 == 0) and (kind2 != 1 or k3 == 0)
    pre: FULL or k2 == 0 or (kind1 == 0 and kind2 <= 1)
    pre: k3 == 0 or (kind1 == 0 and kind2 == 0 and kind3 <= 1)
    pre: 0 <= mode < MODES
    pre: WARM or not warm
    post: _
    """
    return ok(_scenario('auto_two', k1, k2, k3, kind1, kind2, kind3, mode, warm))
HARNESSES.append('auto_two')


def caught_flush_error(k1: int, k2: int, k3: int, kind1: int, kind2: int, kind3: int, mode: int, warm: bool) -> bool:
    """
    pre: 0 <= k1 <= KMAX
    pre: (k2 == 0) or (0 < k1 < k2 <= K2MAX)
    pre: (k3 == 0) or (0 < k2 < k3 <= K3MAX)
    pre: 0 <= kind1 < KINDS and 0 <= kind2 < KINDS and 0 <= kind3 < KINDS
    pre: (kind1 == 0 or k1 != 0) and (kind2 == 0 or k2 != 0) and (kind3 == 0 or k3 != 0)
    pre: (kind1 != 1 or k2 == 0) and (kind2 != 1 or k3 == 0)
    pre: FULL or k2 == 0 or (kind1 == 0 and kind2 <= 1)
    pre: k3 == 0 or (kind1 == 0 and kind2 == 0 and kind3 <= 1)
    pre: 0 <= mode < MODES
    pre: WARM or not warm
    post: _
    """
    return ok(_scenario('caught_flush_error', k1, k2, k3, kind1, kind2, kind3, mode, warm))
HARNESSES.append('caught_flush_error')


if __name__ == '__main__':
    tie_main()
