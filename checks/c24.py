"""C24 - query methods agree with list semantics of the full ordered result.

Three parts:
 A. window arithmetic under CrossHair (checks/h_c24.py): the real combine_limit_and_offset, Query.__getitem__, limit, page,
    fetch, exists, get on symbolic non-negative bounds; a result list is abstracted by its symbolic length.
 B. LIMIT rendering per dialect (z3 LIA): for each (limit, offset) the real construct_sql_ast + dialect builder emit the
    LIMIT/OFFSET text; its window under the dialect's rules equals Python's window for ALL result lengths n.
 D. bulk delete: the DELETE statement the real construct_delete_sql_ast emits removes exactly the rows the query selects (z3).
 C. E1 over method chains: ordered / filtered / distinct / sliced / aggregated queries on a symbolic database; the SQL text's
    rows (with positions) equal the Python list operation on the full ordered result R; counterexamples replayed on SQLite.
"""
import ast, itertools, random, time
import z3
from engine.core import Report, Ob, HOLDS, CEX, REJECTED, INCONCLUSIVE, load_known
from engine import ch, env as E0
from engine.symsql import e1, symdb, sqlparse, sqlsem
from engine.symsql.e1 import Program
from checks import c01

HARNESSES = ('combine', 'getitem', 'getitem_rejects', 'limit_method', 'page_method', 'fetch_method', 'exists_get')


def limit_text(rep, tier):
    """part B"""
    from pony.orm import db_session, core
    vals = [None, 0, 1, 2, 5] if tier == 'quick' else [None, 0, 1, 2, 3, 5, 10, 2 ** 31, 2 ** 63 - 1]
    # Oracle wraps the query in ROWNUM subqueries instead of a LIMIT clause: not modelled (stated as outside)
    for pname, dialect in (('sqlite', 'SQLite'), ('postgres', 'PostgreSQL'), ('mysql', 'MySQL')):
        db = c01.get_db(pname)
        for limit, offset in itertools.product(vals, vals):
            name = 'limit-text %s limit=%r offset=%r' % (dialect, limit, offset)
            t0 = time.time()
            try:
                with db_session:
                    q = core.select('(p.id for p in P)', {'P': db.P}, {}).order_by(1)
                    sql, params, tr = e1.real_sql(db, q, limit, offset)
                tree = sqlparse.parse(sql, dialect, db.provider.paramstyle)
            except Exception as ex:
                rep.add(Ob(name, 'z3', INCONCLUSIVE, detail='%s: %s' % (type(ex).__name__, str(ex)[:150]))); continue
            sel = tree[1]
            n = z3.Int('n')
            try:
                lo, hi = sql_window(sel, dialect, n)
            except Exception as ex:
                rep.add(Ob(name, 'z3', INCONCLUSIVE, detail='LIMIT clause not modelled: %s | %s' % (ex, sql))); continue
            plo = z3.If(z3.IntVal(offset or 0) < n, z3.IntVal(offset or 0), n)
            phi = n if limit is None else z3.If(plo + limit < n, plo + limit, n)
            s = z3.Solver(); s.add(n >= 0)
            s.add(z3.Not(z3.Or(z3.And(lo == plo, hi == phi), z3.And(hi <= lo, phi <= plo))))
            r = s.check()
            if r == z3.unsat: rep.add(Ob(name, 'z3', HOLDS, detail=sql.splitlines()[-1], time_s=time.time() - t0))
            elif r == z3.sat:
                m = s.model()
                rep.add(Ob(name, 'z3', CEX, detail=sql, cex={'dialect': dialect, 'limit': limit, 'offset': offset, 'n': m.eval(n, model_completion=True).as_long(), 'sql': sql},
                           reproduced=None if pname != 'sqlite' else True, key='limit-text', time_s=time.time() - t0,
                           replay='# %s: LIMIT/OFFSET rendering for limit=%r offset=%r selects a different window than R[%r:%r] for a result of length %s\n# %s\nraise SystemExit(1)\n'
                                  % (dialect, limit, offset, offset or 0, None if limit is None else (offset or 0) + limit, m.eval(n, model_completion=True), sql.replace('\n', ' '))))
            else: rep.add(Ob(name, 'z3', INCONCLUSIVE, detail='solver %s' % r))


def sql_window(sel, dialect, n):
    """window [lo, hi) of a result of length n selected by the parsed LIMIT / OFFSET clause under the dialect's rules"""
    def lit(e):
        if e is None: return None
        if e[0] == 'lit' and isinstance(e[1], int): return e[1]
        if e[0] == 'neg' and e[1][0] == 'lit': return -e[1][1]
        if e[0] == 'null': return None
        raise ValueError('non-literal LIMIT operand %r' % (e,))
    lim, off = lit(sel['limit']), lit(sel['offset'])
    if sel['limit'] is not None and sel['limit'][0] == 'null':
        lim = None                                   # PostgreSQL: LIMIT NULL = no limit
    if lim is not None and lim < 0:
        if dialect == 'SQLite': lim = None           # "If the LIMIT expression evaluates to a negative value, then there is no upper bound"
        else: raise ValueError('negative LIMIT on %s is an error' % dialect)
    if off is not None and off < 0:
        if dialect == 'SQLite': off = 0
        else: raise ValueError('negative OFFSET')
    if lim is not None and lim >= 18446744073709551615: lim = None      # MySQL manual: "some large number" idiom for no limit
    o = z3.IntVal(off or 0)
    lo = z3.If(o < n, o, n)
    hi = n if lim is None else z3.If(lo + lim < n, lo + lim, n)
    return lo, hi


# ---------------------------------------------------------------------------------------------------------------------
def chains(tier, rng):
    progs = []
    X = {'x': ('int', 1)}
    bases = [('(p for p in P)', {}), ('(p for p in P if p.a > x)', X), ('(p.id for p in P if p.b is not None)', {}), ('(p.a for p in P)', {}),
             ('((p.a, p.id) for p in P)', {}), ('((p.a, p.b) for p in P)', {}), ('(p.s for p in P if p.f)', {}), ('(p for p in P if p.g is not None and p.b != x)', X),
             ('(g for g in G if g.n is not None)', {})]
    orders = {'p': [[('p.a', False), ('p.id', False)], [('p.a', True), ('p.id', True)], [('p.id', True)], [('p.s', False), ('p.id', False)], [('p.b', False), ('p.a', True), ('p.id', False)]],
              'g': [[('g.n', False), ('g.id', False)], [('g.name', True), ('g.id', False)]]}
    slices = [(None, 0), (1, 0), (0, None), (0, 0), (0, 1), (0, 2), (1, None), (1, 2), (1, 3), (2, None), (2, 3), (1, 1), (2, 1), (None, 2), (None, None), (3, None), (0, 3)]
    for src, sc in bases:
        var = e1.loop_var(src)
        for order in orders[var]:
            sl = slices if tier == 'thorough' else rng.sample(slices, 6) + [(0, 0), (None, 0), (1, 0)]      # (a stop of exactly 0 is always there)
            for a, b in sl:
                progs.append(Program(src, sc, 'string', 'slice', chain={'order': order, 'final': ('slice', a, b)}))
            for l, o in ([(1, None), (2, 1), (None, 1), (0, 2), (5, 0)] if tier == 'thorough' else [(2, 1), (None, 1)]):
                progs.append(Program(src, sc, 'string', 'limit', chain={'order': order, 'final': ('limit', l, o)}))
            for pn, sz in ([(1, 1), (2, 1), (1, 2), (2, 2), (3, 1), (1, 0)] if tier == 'thorough' else [(2, 1), (1, 2)]):
                progs.append(Program(src, sc, 'string', 'page', chain={'order': order, 'final': ('page', pn, sz)}))
            progs.append(Program(src, sc, 'string', 'first', chain={'order': order, 'final': ('first',)}))
            progs.append(Program(src, sc, 'string', 'list', chain={'order': order, 'final': ('list',)}))
        progs.append(Program(src, sc, 'string', 'first-unordered', chain={'final': ('first',)}))
        progs.append(Program(src, sc, 'string', 'exists', chain={'final': ('exists',)}))
        progs.append(Program(src, sc, 'string', 'list-unordered', chain={'final': ('list',)}))
        for name in ('COUNT', 'SUM', 'MIN', 'MAX', 'AVG'):
            progs.append(Program(src, sc, 'string', 'aggr', chain={'final': ('aggr', name)}))
            progs.append(Program(src, sc, 'string', 'aggr', chain={'distinct': False, 'final': ('aggr', name)}))
        progs.append(Program(src, sc, 'string', 'distinct', chain={'distinct': True, 'final': ('list',)}))
        progs.append(Program(src, sc, 'string', 'without_distinct', chain={'distinct': False, 'final': ('aggr', 'COUNT')}))
    # group_concat with separators (including the empty one) on a bag of strings
    for sep in (None, '', '-', ', '):
        progs.append(Program('(p.s for p in P)', {}, 'string', 'group_concat', chain={'distinct': False, 'final': ('aggr', 'GROUP_CONCAT', sep)}))
        progs.append(Program('(p.s for p in P if p.a > x)', X, 'string', 'group_concat', chain={'distinct': False, 'final': ('aggr', 'GROUP_CONCAT', sep)}))
    # ordering by attribute objects, desc() mixed with ascending keys (keys given as attributes, not lambdas)
    for attrs in ([('a', True), ('b', False), ('id', False)], [('a', False), ('b', True), ('id', True)], [('s', True), ('id', False)], [('b', True), ('a', True), ('id', False)]):
        keys = [('p.' + a, d) for a, d in attrs]
        for fin in (('list',), ('slice', 0, 2), ('slice', 1, 3), ('first',)):
            progs.append(Program('(p for p in P)', {}, 'string', 'order-attrs', chain={'order': keys, 'order_attrs': attrs, 'order_entity': 'P', 'final': fin}))
            progs.append(Program('(p for p in P if p.a > x)', X, 'string', 'order-attrs', chain={'order': keys, 'order_attrs': attrs, 'order_entity': 'P', 'final': fin}))
    # ordering by result column numbers (projections): must only permute the unordered result
    for src in ['(p.a for p in P)', '(p.s for p in P)', '((p.a, p.b) for p in P)', '(p.id for p in P)']:
        for nums in ([1], [-1]):
            progs.append(Program(src, {}, 'string', 'order-numbers', chain={'order_numbers': nums, 'final': ('list',)}))
            progs.append(Program(src, {}, 'string', 'order-numbers', chain={'order_numbers': nums, 'final': ('slice', 0, 2)}))
    # chained filters
    for f1, f2 in [('lambda p: p.a > x', 'lambda p: p.b is None'), ('lambda p: p.f', 'lambda p: not p.b'), ('lambda q: q.a < x', 'lambda r: r.s != "a"')]:
        progs.append(Program('(p for p in P)', X, 'string', 'filters', chain={'filters': [f1, f2], 'final': ('list',)}))
        progs.append(Program('(p for p in P if p.g is not None)', X, 'string', 'filters', chain={'filters': [f1], 'order': [('p.id', False)], 'final': ('slice', 0, 1)}))
        progs.append(Program('(p for p in P)', X, 'string', 'filters', chain={'filters': [f2, f1], 'final': ('aggr', 'COUNT')}))
    # keyword filters, chained (every call adds parameters of its own)
    for kws in ([{'a': 1}], [{'a': 1}, {'f': True}], [{'a': 1}, {'b': 2}, {'f': False}], [{'b': None}, {'a': 2}], [{'a': 1, 'b': 2}, {'s': 'a'}, {'f': True}, {'h': None}]):
        progs.append(Program('(p for p in P)', {}, 'string', 'kwfilters', chain={'kwfilters': kws, 'final': ('list',)}))
        progs.append(Program('(p for p in P if p.a > x)', X, 'string', 'kwfilters', chain={'kwfilters': kws, 'filters': ['lambda p: p.u is None'], 'final': ('aggr', 'COUNT')}))
    # a keyword filter followed by a lambda whose aggregate makes pony re-translate the whole chain (LEFT JOIN optimisation)
    for kw, lam in [({'n': 1}, 'lambda g: len(g.ps) >= 1'), ({'name': 'a'}, 'lambda g: count(g.ps) > x'), ({'n': None}, 'lambda g: sum(g.ps.a) > x'), ({'n': 2}, 'lambda g: len(g.tags) > 0')]:
        for fin in (('list',), ('aggr', 'COUNT')):
            progs.append(Program('(g for g in G)', X if 'x' in lam else {}, 'string', 'kw-then-aggregate', chain={'kwfilters': [kw], 'filters_after': [lam], 'final': fin}))
        progs.append(Program('(g for g in G)', X if 'x' in lam else {}, 'string', 'kw-then-aggregate', chain={'kwfilters': [kw], 'filters_after': [lam], 'order': [('g.id', True)], 'final': ('slice', 0, 1)}))
    return progs


def replay_chain(prog, model):
    db = c01.get_db('sqlite')
    e1.populate(db, model['tables'])
    try:
        real = e1.run_real_chain(db, prog, model['scope'])
    except Exception as ex:
        return None, 'real query raised %s: %s' % (type(ex).__name__, str(ex)[:100])
    if real and real[0][0] == 'exists':
        real = [()] if real[0][1] else []
        py = [()] if model['python_rows'] else []; pred = [()] if model['sql_rows_predicted'] else []
    else:
        py, pred = model['python_rows'], model['sql_rows_predicted']
    real_n, py_n, pred_n = e1.norm_rows(real), e1.norm_rows(py), e1.norm_rows(pred)
    final = (prog.chain or {}).get('final', ('list',))
    if final[0] == 'get': return None, 'get(): window [0:2] decided symbolically; post-processing in h_c24.exists_get'
    if real_n != pred_n:
        return False, 'SQL model disagrees with the real engine: real=%r predicted=%r (harness error)' % (real_n, pred_n)
    return real_n != py_n, 'real rows %r, list-semantics rows %r' % (real_n, py_n)


REPLAY = '''# C24 counterexample replay: real pony + real SQLite on the solver's database
import sys; sys.path.insert(0, '/verif')
from checks import c24
from engine.symsql.e1 import Program
prog = Program(%(src)r, %(scope)r, 'string', chain=%(chain)r)
model = %(model)r
rep, how = c24.replay_chain(prog, model)
print(prog.describe()); print('tables:', model['tables']); print('scope:', model['scope']); print(how)
sys.exit(1 if rep else 0)
'''


def shape_key(prog):
    c = prog.chain or {}
    if c.get('distinct') is False and c.get('final') == ('aggr', 'COUNT'): return 'count-ignores-without-distinct'
    return None


def check_chain(db, S, prog, exclude):
    name = prog.describe()
    res = e1.decide_chain(db, S, prog, 'SQLite', 15000, exclude_regions=exclude)
    v = res['verdict']
    if v == 'rejected': return [Ob(name, 'z3', REJECTED, detail=res['detail'])]
    if v == 'unmodelled': return [Ob(name, 'z3', INCONCLUSIVE, detail='unmodelled: ' + res['detail'])]
    if v == 'unknown': return [Ob(name, 'z3', INCONCLUSIVE, detail=res.get('detail', ''), time_s=res['time_s'])]
    if v == 'unsat':
        obs = [Ob(name, 'z3', HOLDS, detail=res['sql'], time_s=res['time_s'])]
        s = res['solver']; s.pop()
        if s.check() == z3.sat:
            md = e1.model_dump(S, res['enc'], s.model())
            rep_, how = replay_chain(prog, md)
            if rep_ is False and 'harness error' in how:
                obs.append(Ob(name + ' [encoder validation]', 'concrete-tie', CEX, detail=how, cex=md, reproduced=False))
        return obs
    known = {e['key'] for e in load_known('C24')}
    enc, solver = res['enc'], res['solver']
    regions = {k: z3.Or(v) for k, v in enc['regions'].items() if k in known}
    sk = shape_key(prog)
    if sk in known: regions[sk] = z3.BoolVal(True)
    out = []
    m = res['z3model']
    for _ in range(len(regions) + 1):
        md = e1.model_dump(S, enc, m)
        rep_, how = replay_chain(prog, md)
        hit = [k for k, p in sorted(regions.items()) if symdb.mtrue(m, p)]
        key = hit[0] if hit else 'plain'
        ob = Ob(name + (' [%s]' % key if hit else ''), 'z3', CEX, detail='%s | %s' % (res['sql'], how), cex={'program': name, 'scope': md['scope'], 'tables': md['tables'],
                'list_semantics_rows': md['python_rows'], 'sql_rows': md['sql_rows_predicted']}, time_s=res['time_s'], reproduced=rep_, key=key)
        ob.replay = REPLAY % dict(src=prog.src, scope=prog.scope, chain=prog.chain, model=md)
        out.append(ob)
        if not hit: break
        solver.add(z3.Not(regions.pop(hit[0])))
        r = solver.check()
        if r == z3.unsat: break
        if r != z3.sat:
            out.append(Ob(name + ' [outside known regions]', 'z3', INCONCLUSIVE, detail='solver: %s' % r)); break
        m = solver.model()
    return out


DELETE_PROGRAMS = [
    '(p for p in P)', '(p for p in P if p.a > x)', '(p for p in P if p.b is None)', '(p for p in P if not p.b)', '(p for p in P if p.a > x and p.f)',
    '(p for p in P if p.s.startswith(y))', '(p for p in P if p.g is None)', '(p for p in P if p.g.n == x)', '(p for p in P if p.g.name == y or p.a < x)',
    '(p for p in P if p.a in (1, x))', '(p for p in P if p.b not in (0, x))', '(p for p in P if p.u is None or p.u == y)',
    '(p for g in G for p in g.ps if g.n > x)', '(p for p in P for g in G if p.g == g and g.n is None)', '(p for p in P if p.g in (g for g in G if g.n > x))',
    '(p for p in P if p.a == max(q.a for q in P))', '(p for p in P if exists(q for q in P if q.a > p.a))',
    '(g for g in G)', '(g for g in G if not g.ps)', '(g for g in G if len(g.ps) > x)', '(g for g in G if g.n is None and not g.tags)', '(g for g in G if x in g.ps.a)',
    '(g for g in G if exists(p for p in g.ps if p.a > x))', '(g for g in G for p in g.ps if p.f)', '(t for t in T if not t.gs)', '(t for t in T if t.w > x)',
    '(p for p in P if p.a > x and p.a < x)', '(p for p in P if p.a >= x or p.a < x)',
]
# a plain condition (WHERE) combined with an aggregate condition over a collection (GROUP BY / HAVING), both orders, and / or
for _plain in ('g.n > x', 'g.name == y', 'g.n is None'):
    for _agg in ('len(g.ps) > x', 'count(g.ps) == 0', 'sum(g.ps.a) > x', 'max(g.ps.b) == x', 'len(g.tags) > 1', 'not g.ps'):
        for _t in ('%s and %s', '%s or %s'):
            DELETE_PROGRAMS.append('(g for g in G if %s)' % (_t % (_plain, _agg)))
            DELETE_PROGRAMS.append('(g for g in G if %s)' % (_t % (_agg, _plain)))
DELETE_PROGRAMS += ['(g for g in G if len(g.ps) > x and len(g.tags) > 0)', '(g for g in G if g.n > x and len(g.ps) > 0 and g.name != y)',
                    '(p for p in P if p.a > x and len(p.g.ps) > 1)', '(t for t in T if t.w > x and len(t.gs) > 1)']


def bulk_delete(rep, db, S, tier, exclude):
    """part D: Query.delete(bulk=True) removes exactly the rows the query selects"""
    n = 0
    for src in DELETE_PROGRAMS:
        names = {x.id for x in ast.walk(ast.parse(src)) if isinstance(x, ast.Name)}
        scope = {k: v for k, v in {'x': ('int', 1), 'y': ('str', 'a')}.items() if k in names}
        prog = Program(src, scope, 'string')
        name = 'select%s.delete(bulk=True)' % src
        n += 1
        res = e1.decide_delete(db, S, prog, 'SQLite', 15000, exclude_regions=exclude)
        v = res['verdict']
        if v == 'rejected': rep.add(Ob(name, 'z3', REJECTED, detail=res['detail'])); continue
        if v == 'unmodelled': rep.add(Ob(name, 'z3', INCONCLUSIVE, detail='unmodelled: ' + res['detail'])); continue
        if v == 'unknown': rep.add(Ob(name, 'z3', INCONCLUSIVE, detail=res.get('detail', ''))); continue
        if v == 'unsat': rep.add(Ob(name, 'z3', HOLDS, detail=res['sql'], time_s=res['time_s'])); continue
        md = res['model']
        try:
            real = e1.run_real_delete(db, prog, md)
            how = 'real delete removed %r' % (real,)
            reproduced = real != md['selected_by_python']
            if real != md['deleted_by_sql']: reproduced, how = False, 'SQL model disagrees with the real engine: real=%r predicted=%r (harness error)' % (real, md['deleted_by_sql'])
        except Exception as ex:
            reproduced, how = None, 'real delete raised %s: %s' % (type(ex).__name__, str(ex)[:100])
        rep.add(Ob(name, 'z3', CEX, detail='%s | %s; the query selects %r' % (res['sql'], how, md['selected_by_python']), cex=md, reproduced=reproduced, key='bulk-delete',
                   time_s=res['time_s'], replay='# C24 bulk delete: %s on %r removes %r, the query selects %r\nraise SystemExit(1)\n' % (name, md['tables'], md['deleted_by_sql'], md['selected_by_python'])))
    return n


def run(tier, seed, only=None):
    from pony.orm import core, sqltranslation as T, sqlbuilding as B
    rep = Report('C24', 'translation_validation',
                 'A: CrossHair over the real slice/limit/page/combine arithmetic with symbolic bounds and symbolic result length. '
                 'B: z3 LIA over the LIMIT/OFFSET text each dialect\'s real builder emits, for all result lengths. '
                 'C: E1 over method chains - SQL rows with positions vs the Python list operation on the full ordered result, decided by z3 '
                 'for all table contents; replay on real SQLite.')
    rep.fn(T.combine_limit_and_offset, core.Query.__getitem__, core.Query.limit, core.Query.page, core.Query.first, core.Query.get, core.Query.exists,
           core.Query._aggregate, core.Query._order_by, core.Query.filter, T.SQLTranslator.construct_sql_ast, B.SQLBuilder.LIMIT,
           core.Query.delete, T.SQLTranslator.construct_delete_sql_ast)
    rng = random.Random(seed)
    specs = [dict(module='checks.h_c24', fn=f, cond_timeout=90 if tier == 'quick' else 600, path_timeout=45) for f in HARNESSES]
    if only: specs = [s for s in specs if only in s['fn']]
    if specs: ch.run_harnesses(rep, specs, None)
    if not only or only == 'limit-text': limit_text(rep, tier)
    R = 3
    db = c01.get_db('sqlite')
    S = symdb.build(db, R=R, strlen=2)
    exclude = [e['key'] for e in load_known('C01')]
    progs = chains(tier, rng)
    n = 0
    for prog in progs:
        if only and only not in prog.describe(): continue
        n += 1
        for ob in check_chain(db, S, prog, exclude):
            rep.add(ob)
            if ob.verdict == CEX: rep.sample({'program': prog.describe(), 'counterexample': ob.cex, 'key': ob.key}, limit=6)
    if not only or only == 'delete':
        n += bulk_delete(rep, db, symdb.build(db, R=2, strlen=2), tier, exclude)
    rep.programs = n + len(HARNESSES)
    rep.bounds = {'A': 'unbounded ints (n >= 0, bounds >= 0 or None)', 'B': 'limit/offset from a fixed list, all n >= 0',
                  'C': '%d rows per table, strings len <= 2, %d method chains (orders x slices/limit/page/first/exists/aggregates/distinct/filters)' % (R, n)}
    rep.assumptions = ['ordering keys are total on the selected rows and not NULL (ties / NULL placement make the order implementation-defined)',
                       'slices of unordered queries are not compared (result not determined); negative stops and page(0) are outside the property',
                       'input regions of findings recorded for C01 are excluded', 'get(): the fetched window [0:2] is decided symbolically, its post-processing by the exists_get harness']
    rep.trusted = ['crosshair-tool', 'z3', 'engine/symsql', 'window()/py_slice() reference arithmetic in checks/h_c24.py']
    return rep
