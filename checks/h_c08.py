"""CrossHair harnesses for C08 (validation enforces declared constraints).

The real converter classes are instantiated with duck-typed `attr` / `provider`
objects (the converters only read .kwargs/.args/.py_type and a few provider flags).
"""
import math
from typing import Optional
from engine.ch import ok
from pony.orm import dbapiprovider as dp
from pony.orm.ormtypes import LongStr
from engine.rewrite import defang

DEFANGED = defang(dp.Converter, dp.IntConverter, dp.RealConverter, dp.StrConverter, dp.DecimalConverter)

SIZES = (None, 8, 16, 24, 32, 64)
ALPHA = ' a\t'


class FakeProvider(object):
    uint64_support = False
    dialect = 'SQLite'
    varchar_default_max_len = None
    max_time_precision = default_time_precision = 6


class FakeAttr(object):
    def __init__(self, py_type, kwargs, args=()):
        self.py_type = py_type
        self.kwargs = kwargs
        self.args = args
        self.sql_type = None
        self.name = 'x'
    def __str__(self):
        return 'E.x'
    __repr__ = __str__


def int_validate(min_val: Optional[int], max_val: Optional[int], size_ix: int, unsigned: bool,
                 uint64: bool, val: int) -> bool:
    """
    pre: 0 <= size_ix < 6
    post: _
    """
    size = SIZES[size_ix]
    kwargs = {}
    if min_val is not None: kwargs['min'] = min_val
    if max_val is not None: kwargs['max'] = max_val
    if size is not None: kwargs['size'] = size
    if unsigned: kwargs['unsigned'] = unsigned
    provider = FakeProvider()
    provider.uint64_support = uint64
    try:
        conv = dp.IntConverter(provider, int, FakeAttr(int, kwargs))
    except (TypeError, ValueError):
        # declaration rejected when the mapping is generated: allowed only if it is inconsistent
        eff = size if size is not None else 32
        uns = bool(unsigned)
        hi = 2 ** eff - 1 if uns else 2 ** (eff - 1) - 1
        lo = 0 if uns else -(2 ** (eff - 1))
        inconsistent = (max_val is not None and max_val > hi) or (min_val is not None and min_val < lo) \
            or (size == 64 and uns and not uint64)
        return ok(inconsistent)
    eff = size if size is not None else 32     # documented default: 32-bit INTEGER
    uns = bool(unsigned)
    hi = 2 ** eff - 1 if uns else 2 ** (eff - 1) - 1
    lo = 0 if uns else -(2 ** (eff - 1))
    expected = lo <= val <= hi and (min_val is None or val >= min_val) and (max_val is None or val <= max_val)
    try:
        got = conv.validate(val)
        accepted = True
    except ValueError:
        accepted = False
        got = None
    if accepted != expected:
        return ok(False)
    return ok((not accepted) or (got == val and type(got) is int))


def int_validate_from_str(min_val: Optional[int], max_val: Optional[int], val: int) -> bool:
    """
    post: _
    """
    # documented normalisation: a decimal string is accepted as the integer it denotes
    kwargs = {}
    if min_val is not None: kwargs['min'] = min_val
    if max_val is not None: kwargs['max'] = max_val
    try:
        conv = dp.IntConverter(FakeProvider(), int, FakeAttr(int, kwargs))
    except (TypeError, ValueError):
        return ok(True)
    def run(v):
        try: return ('ok', conv.validate(v))
        except ValueError: return ('ValueError', None)
    return ok(run(val) == run(_IntLike(val)))


def int_validate_str(min_val: Optional[int], max_val: Optional[int], s: str) -> bool:
    """
    pre: len(s) <= 3
    pre: all(c in "-09 x" for c in s)
    post: _
    """
    # a string candidate: accepted iff it denotes (int(s)) an integer inside the declared range; normalised to that int
    kwargs = {}
    if min_val is not None: kwargs['min'] = min_val
    if max_val is not None: kwargs['max'] = max_val
    try:
        conv = dp.IntConverter(FakeProvider(), int, FakeAttr(int, kwargs))
    except (TypeError, ValueError):
        return ok(True)
    try:
        n = int(s)
    except ValueError:
        n = None
    try:
        got = conv.validate(s)
        accepted = True
    except ValueError:
        accepted, got = False, None
    expected = n is not None and (min_val is None or n >= min_val) and (max_val is None or n <= max_val)
    if accepted != expected:
        return ok(False)
    return ok((not accepted) or (got == n and type(got) is int))


class _IntLike(object):
    def __init__(self, v): self.v = v
    def __index__(self): return self.v


def real_validate(min_val: Optional[float], max_val: Optional[float], val: float) -> bool:
    """
    pre: min_val is None or math.isfinite(min_val)
    pre: max_val is None or math.isfinite(max_val)
    pre: math.isfinite(val)
    post: _
    """
    kwargs = {}
    if min_val is not None: kwargs['min'] = min_val
    if max_val is not None: kwargs['max'] = max_val
    conv = dp.RealConverter(FakeProvider(), float, FakeAttr(float, kwargs))
    expected = (min_val is None or val >= min_val) and (max_val is None or val <= max_val)
    try:
        got = conv.validate(val)
        accepted = True
    except ValueError:
        accepted, got = False, None
    if accepted != expected:
        return ok(False)
    return ok((not accepted) or got == val)


def str_validate(max_len: Optional[int], autostrip: Optional[bool], positional: bool, val: str) -> bool:
    """
    pre: len(val) <= 4
    pre: all(c in ALPHA for c in val)
    pre: max_len is None or -1 <= max_len <= 5
    post: _
    """
    kwargs = {}
    args = ()
    if max_len is not None:
        if positional: args = (max_len,)
        else: kwargs['max_len'] = max_len
    if autostrip is not None: kwargs['autostrip'] = autostrip
    attr = FakeAttr(str, kwargs, args)
    try:
        conv = dp.StrConverter(FakeProvider(), str, attr)
    except (TypeError, ValueError):
        return ok(max_len is not None and max_len <= 0)
    strip = True if autostrip is None else autostrip
    norm = val.strip() if strip else val
    # max_len None (or 0 = "no limit" in the declaration API) -> unbounded
    expected = not max_len or len(norm) <= max_len
    try:
        got = conv.validate(val)
        accepted = True
    except ValueError:
        accepted, got = False, None
    if accepted != expected:
        return ok(False)
    return ok((not accepted) or got == norm)


def str_validate_type(val: int) -> bool:
    """
    post: _
    """
    conv = dp.StrConverter(FakeProvider(), str, FakeAttr(str, {}))
    try:
        conv.validate(val)
    except TypeError:
        return ok(True)
    return ok(False)
