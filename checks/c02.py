"""C02 - the same query over the same data gives the same answer on every dialect.

The C01 obligation is discharged with the real translator and builder of each dialect (PostgreSQL, MySQL, Oracle run over
mock pools with stand-in driver modules; SQLite for real): every dialect's SQL text is parsed with that dialect's lexical
rules and evaluated under its documented semantics delta (engine/symsql/sqlsem.py) against the SAME Python-semantics oracle,
so agreement with the oracle on every dialect implies agreement between dialects.  No PostgreSQL/MySQL/Oracle server exists
in the sandbox: counterexamples on those dialects are `model-only` (emitted SQL + documented semantics), SQLite ones replay.
"""
import random
from engine.core import Report, CEX
from engine.symsql import symdb
from checks import c01

DIALECTS = [('sqlite', 'SQLite'), ('postgres', 'PostgreSQL'), ('mysql', 'MySQL'), ('oracle', 'Oracle')]


def run(tier, seed, only=None):
    from pony.orm import sqltranslation as T, sqlbuilding as B
    from engine import env as E0
    E0.install_driver_stubs()
    from pony.orm.dbproviders import postgres as PG, mysql as MY, oracle as ORA, sqlite as SQ
    rep = Report('C02', 'translation_validation',
                 'C01\'s obligation per dialect: SQL text from the real translator/builder of SQLite, PostgreSQL, MySQL and Oracle is evaluated '
                 'under that dialect\'s documented semantics over a symbolic database and compared by z3 with one common Python-semantics oracle.')
    rep.fn(PG.PGTranslator, PG.PGSQLBuilder, MY.MySQLTranslator, MY.MySQLBuilder, ORA.OraTranslator, ORA.OraBuilder, SQ.SQLiteBuilder,
           T.SQLTranslator.construct_sql_ast, B.SQLBuilder.SELECT)
    c01.PID = 'C02'
    rng = random.Random(seed)
    R = 2
    progs = c01.programs(tier, rng)
    if tier == 'quick':
        core = [p for p in progs if p.note in ('atom', 'g-atom', 't-atom', 'join', 'projection')]
        rest = [p for p in progs if p.note not in ('atom', 'g-atom', 't-atom', 'join', 'projection')]
        progs = core + rng.sample(rest, min(len(rest), 150))
    if only: progs = [p for p in progs if only in p.src]
    n = 0
    dialects = DIALECTS[1:] if tier == 'quick' else DIALECTS
    for pname, dialect in dialects:
        n += len(progs)
        for prog, obs in c01.sharded(progs, (pname, dialect, R, 10000 if tier == 'quick' else 30000, 'C02', pname == 'sqlite', ())):
            for ob in obs:
                rep.add(ob)
                if ob.verdict == CEX: rep.sample({'program': prog.src, 'dialect': dialect, 'counterexample': ob.cex, 'key': ob.key}, limit=6)
    rep.programs = n
    rep.bounds = {'rows per table': R, 'dialects': [d for _, d in dialects], 'strings': 'length <= 3 printable ASCII', 'ints': 'unbounded',
                  'programs per dialect': len(progs)}
    rep.assumptions = ['driver modules psycopg2 / MySQLdb / cx_Oracle are stand-ins (engine/env.py): only SQL generation runs, nothing is executed on those dialects',
                       'dialect deltas modelled: integer division and modulo, boolean representation, substr, concat/|| NULL behaviour, greatest/least NULL behaviour, '
                       'Oracle empty string is NULL, NULL ordering, LIMIT forms; binary collation assumed',
                       'quick tier covers PostgreSQL/MySQL/Oracle (SQLite is C01\'s quick tier); thorough covers all four']
    rep.trusted = ['z3', 'engine/symsql (SQLite model validated against the real engine in C01; other dialects: cited manual semantics)', 'engine/symsql/pysem.py']
    return rep
