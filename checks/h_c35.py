"""CrossHair harnesses for C35 - locked rows and serializable sessions (MECHANISM ONLY).

What is decided: that pony *asks* for the protection the property relies on, at the right moment and for as long as
the property says - not that SQLite/PostgreSQL then really block a concurrent writer (no engine runs here; thread
schedules and the servers' lock managers are outside the check).

What runs: the real `db_session` (DBSessionContextManager.__init__/_enter/__exit__/_commit_or_rollback),
`EntityMeta.get, get_for_update, _find_one_, _find_in_cache_, _find_in_db_, _construct_sql_, _fetch_objects,
_get_from_identity_map_`, `Query.for_update, get, first, __getitem__, _actual_fetch, _construct_sql_and_arguments`,
`SQLTranslator.construct_sql_ast`, `SQLBuilder.SELECT_FOR_UPDATE` / `SQLiteBuilder.SELECT_FOR_UPDATE`,
`Entity._save_updated_` (optimistic criteria), `commit()`, `Database._exec_sql`,
`SessionCache.prepare_connection_for_query_execution, connect, commit, close`,
`SQLiteProvider.set_transaction_mode, acquire_lock, release_lock, commit, rollback`, `PGProvider.set_transaction_mode`,
`PGPool.release`, on the real pools over the recording fake DB-API of engine/fakedb.py.

Two groups of harnesses.

E-harnesses (`sqlite_lk0..3_{ro,wr}_{opt,pes}`, `pg_lk0..3`; one per lookup style - and, for SQLite, per read-only /
writing and optimistic / non-optimistic ("pes") session, the flag then being fixed - so that they run in parallel).  Symbolic: the option
flags `fu` (locking lookup or plain lookup), `nw` (nowait), `sk` (skip_locked), the session flags `ser`
(serializable), `opt` (optimistic), `imm` (immediate), `wr` (the session writes the object: `o.a = o.a + 1`), `mid`
(0 nothing / 1 an explicit commit() between the lookup and the write / 2 the body raises at its end, so the session
rolls back / 3 the object is written, commit(), the lookup is repeated - the lock must be taken again - and, with `wr`,
the object is written again; quick tier: with `pre` 0 only), `pre` (0 nothing / 1 a plain `T.get(id=1)`
before the lookup, so the object is cached but NOT locked / 2 the same lookup without for_update before it, so
`cache.query_results` is warm / 3 an EARLIER session ran the same locking lookup without nowait/skip_locked, so the
database-wide SQL caches hold that statement) and, SQLite only, `rival` (a second session run in another thread right after the
lookup while the first is still open: 0 none / 1 optimistic writer / 2 non-optimistic writer / 3 get_for_update
writer).  The flags are decided one by one under CrossHair's tracer (explicit branching) and the whole real pipeline
then runs under `NoTracing` with the chosen values: every explored path is ONE concrete run of the real code with an
option combination chosen by the solver, and "Confirmed over all paths" means every combination in the bound was
run and satisfied the reference (fault-enumeration level; 1040 distinct combinations per SQLite harness, 1040
per PostgreSQL harness in the quick tier, each explored exactly once).  Reason: the traced query translator does not
finish one path in 150 s (measured), a path under NoTracing costs ~15 ms idle / ~65 ms on the loaded machine.
Every path starts from cold translator / SQL-text caches (`_cold`): pony keeps per-location state across sessions - a
cached translator remembers having built a FOR UPDATE statement and stops caching query results - so with warm caches
the outcome of a path depended on the order in which CrossHair explored the paths (seen with a canary mutant).
Thorough tier (C35_THOROUGH=1): `mid` 3 with every `pre`, 4 = flush() after the write and the lookup again, 5 = commit()
and the lookup again (object only read before); `pre` 4 = a plain select of all rows, 5 = a locking lookup of another style first in the same session.
Lookup styles: 0 `T.get(id=1)` / `T.get_for_update(id=1, nowait=, skip_locked=)`; 1 `T.get(lambda x: x.id == 1)` /
`T.get_for_update(lambda ..., nowait=, skip_locked=)`; 2 `select(x for x in T if x.id == 1)[.for_update(nw, sk)][:]`;
3 `T.select(lambda x: x.a > 0)[.for_update(nowait=, skip_locked=)].first()` (ORDER BY + LIMIT before the lock clause).

K-harnesses (`k_sqlite_mode`, `k_pg_mode`, `k_builder`): the small real decision functions run fully TRACED with
symbolic booleans: a real session over the fakes that goes through `db_session.__init__` (the immediate/optimistic
derivation), `SessionCache.prepare_connection_for_query_execution`, `connect`, `Database._exec_sql`,
`SQLiteProvider.set_transaction_mode/acquire_lock/commit` resp. `PGProvider.set_transaction_mode`, `commit()`; and
the real SQL builders of PostgreSQL / SQLite / the base class on a `SELECT_FOR_UPDATE` AST with symbolic
nowait/skip_locked.  (The kernels assert only the direction the property needs - "a transaction / the lock / autocommit
off where required" - not that optimistic plain reads stay outside a transaction.)
Canary mutations: checks/h_c35_canary.py (35 source rewrites of the real functions, all reported as counterexamples).

Reference statement (written from the property / documentation, functions `_judge_*` below):
 SQLite (no row locks; an immediate transaction + the provider's process-wide lock stand in for them)
  L1 every SELECT sent by a locking lookup, and every SELECT of a session that is serializable, immediate or
     non-optimistic, is executed inside a transaction opened by an executed `BEGIN IMMEDIATE TRANSACTION` on the same
     connection (no commit/rollback in between), and the provider's transaction lock was taken before that BEGIN;
  L2 a locking lookup really goes to the database (at least one SELECT on the table after the BEGIN) even when the
     object is already in the session cache unlocked or the same query without for_update was cached;
  L3 from that BEGIN until the connection's next commit()/rollback() the provider lock is held at every DB-API call
     (including the commit()/rollback() call itself), it is free after the session, acquire/release are balanced and
     nothing was released twice; a session whose body raises sends no commit and no UPDATE;
  L4 a session started in another thread while the transaction is open cannot begin its own write transaction: it
     would block on the provider lock (fakedb.ProbeLock raises WouldBlock instead of hanging) and has sent neither
     BEGIN nor UPDATE; when the first session holds no transaction the rival commits - and then L6 must protect it;
     after the first session ended a writer in another thread runs to completion;
  L5 the object returned by a locking lookup is in `cache.for_update`, the one returned by a plain lookup is not;
     after an explicit commit() `cache.for_update` is empty (the locks are gone with the transaction);
  L6 the session's UPDATE carries no optimistic criterion when the object is locked at that moment (design: "updated
     without optimistic criteria") and does carry it (`AND "a" = ?`: the value it read) when the session is
     optimistic (and not serializable) and the object is not locked (nothing is demanded for unlocked objects of
     serializable / non-optimistic sessions: those hold a transaction from their first read); in particular whenever a
     rival committed a write while the first session was open, the first session's UPDATE is conditional;
  L7 SQLite text never contains FOR UPDATE (SQLite has no such syntax).
 PostgreSQL
  P1 the SELECT of a locking lookup ends in exactly `FOR UPDATE`, `FOR UPDATE NOWAIT` or `FOR UPDATE SKIP LOCKED` as
     requested (once, last clause, after ORDER BY/LIMIT); a plain lookup's SELECT has no FOR UPDATE; L2 likewise;
  P2 `connection.autocommit` is off when that SELECT is executed and stays off at every DB-API call up to the
     connection's next commit()/rollback() (a row lock taken in autocommit mode is released at once); the same for
     every statement of a serializable / immediate / non-optimistic session;
  P3 in a serializable session every transaction starts with `SET TRANSACTION ISOLATION LEVEL SERIALIZABLE`;
  P4 = L5, P5 = L6 (`AND "a" = %(p3)s`); the UPDATE is sent with autocommit off.
 nowait together with skip_locked: TypeError and nothing is sent (the property allows "raises an error instead").

Not asserted (outside "mechanism only"): that the engines block; behaviour after an explicit commit() in a
NON-optimistic session (the lock ends with the transaction, the cache keeps the values read, the later UPDATE is
unconditional: this is what optimistic=False documents, the check only asserts that for_update is cleared and the
next statement opens a new immediate transaction under the lock).

Fake-driver facts used (engine/fakedb.py, not edited; `SnapRecorder` below subclasses its Recorder only to take a
snapshot of (provider lock held, connection.autocommit, connection.in_tx) at every counted DB-API call): SELECTs on
the table answer the one row (1, a) with a = 10 until an executed UPDATE stores a new value; an UPDATE reports rowcount 1; psycopg2-style connections start with autocommit off.
"""
import os
import re
from crosshair import NoTracing
from engine.ch import ok
from engine import fakedb as F

THOROUGH = os.environ.get('C35_THOROUGH') == '1'
PRE_MAX = 5 if THOROUGH else 3          # thorough: pre 4 = plain select of all rows, 5 = a locking lookup of another style first
MID_MAX = 5 if THOROUGH else 3          # thorough: mid 4 = flush() after the write and a second lookup, 5 = commit() then the lookup again (object only read before)
RIVAL_MAX = 3

rec = None
DBS = {}
LAST = {}


class SnapRecorder(F.Recorder):
    """fakedb.Recorder + a snapshot per counted call: snap[n] = (lock held, autocommit, in_tx, thread id)."""
    lock_of = None          # callable -> bool

    def reset(self, *a, **k):
        self.snap = {}
        return F.Recorder.reset(self, *a, **k)

    def tick(self, con, op, detail=None, shortcut=False):
        import threading
        held = self.lock_of() if self.lock_of is not None else None
        self.snap[self.n + 1] = (held, getattr(con, 'autocommit', None), getattr(con, 'in_tx', None), threading.get_ident())
        return F.Recorder.tick(self, con, op, detail, shortcut)


ROW = {'a': 10}          # the one row (id 1) of the fake table: SELECTs answer it, an executed UPDATE stores its SET value


def _responder(sql, args):
    s = sql.strip().upper() if isinstance(sql, str) else ''
    if s.startswith('SELECT') and 'FROM "T"' in s:
        return [(1, ROW['a'])], [('id',), ('a',)]
    if s.startswith('UPDATE "T"') and args:
        ROW['a'] = args['p1'] if isinstance(args, dict) else args[0]
    return None


def setup():
    """Once per worker process: clock stub, the two databases, one warm-up run of every style (translator caches)."""
    global rec
    if rec is not None: return
    from pony.orm import core
    core.time = lambda: 0.0
    mutant = os.environ.get('C35_MUTANT')         # canary runs only (checks/h_c35_canary.py); checks/c35.py removes it
    if mutant:
        from checks import h_c35_canary
        h_c35_canary.apply(mutant)
    rec = SnapRecorder()
    DBS['sqlite'] = F.make_database('sqlite-file', rec)
    DBS['pg'] = F.make_database('postgres', rec)
    for kind in ('sqlite', 'pg'):
        for lk in range(4):
            for fu in (False, True):
                # no assertion here: a violation must surface as a counterexample of a harness, not as a harness error
                try: _run(kind, lk, fu, False, False, False, True, False, True, 0, 2, 0)
                except Exception: pass


def _cold(db):
    """Every explored path starts from the same cache state (pony keeps translators and SQL text per program location /
    per entity across sessions, and a translator remembers having built a FOR UPDATE statement): otherwise the outcome
    of a path could depend on which paths CrossHair happened to explore before it."""
    db._translator_cache.clear(); db._constructed_sql_cache.clear(); db._insert_cache.clear()
    T = db.T
    for name in ('_find_sql_cache_', '_load_sql_cache_', '_batchload_sql_cache_', '_insert_sql_cache_', '_update_sql_cache_', '_delete_sql_cache_'):
        getattr(T, name).clear()


def _reset(kind):
    db = DBS[kind]
    _cold(db)
    pool = db.provider.pool
    pool.con = None
    rec.reset(responder=_responder)
    ROW['a'] = 10
    if kind == 'sqlite':
        F.patch_sqlite_driver(rec)
        F.reset_sqlite_database(db)
        pool.pid = os.getpid()
        prov = db.provider
        rec.lock_of = lambda: prov.transaction_lock.locked()
    else:
        pool.pid = None
        F.reset_session_state(db)
        rec.lock_of = None
    return db


# -- the programs ------------------------------------------------------------------------------------------------------
_BY_ID = lambda x: x.id == 1          # ONE lambda object for the plain and the locking variant (pony keys its caches by the code object)


def _lookup(T, lk, fu, nw, sk):
    """Every style builds its plain and its locking variant from the SAME code object (one lambda / one generator
    expression / one helper location), as a helper function in an application would: pony's translator and
    constructed-SQL caches are keyed by the code object, so the two variants meet in those caches."""
    from pony.orm import select
    if lk == 0:
        return T.get_for_update(id=1, nowait=nw, skip_locked=sk) if fu else T.get(id=1)
    if lk == 1:
        return T.get_for_update(_BY_ID, nowait=nw, skip_locked=sk) if fu else T.get(_BY_ID)
    if lk == 2:
        q = select(x for x in T if x.id == 1)
        if fu: q = q.for_update(nw, sk)
        return q[:][0]
    if lk == 4:
        # a query rendered with SELECT DISTINCT: the lock must still be requested (or the query refused), never silently dropped
        q = select(x for x in T if x.id == 1).distinct()
        if fu: q = q.for_update(nw, sk)
        return q[:][0]
    q = T.select(lambda x: x.a > 0)
    if fu: q = q.for_update(nowait=nw, skip_locked=sk)
    return q.first()


def _rival(db, style, out):
    """A writer session in another thread (its own connection, the shared provider lock)."""
    from pony.orm import db_session
    T = db.T
    try:
        try:
            if style == 1:
                with db_session:
                    o = T.get(id=1); o.a = o.a + 100
            elif style == 2:
                with db_session(optimistic=False):
                    o = T.get(id=1); o.a = o.a + 100
            else:
                with db_session:
                    o = T.get_for_update(id=1); o.a = o.a + 100
            out.append('done')
        except Exception as e:
            if isinstance(e, F.WouldBlock) or 'lock is already held' in str(e): out.append('blocked')
            else: out.append('error %s: %s' % (type(e).__name__, e))
    finally:
        try: db.disconnect()
        except Exception as e: out.append('disconnect failed: %r' % (e,))


def _run_rival(db, style):
    import threading
    out = []
    th = threading.Thread(target=_rival, args=(db, style, out))
    rec.phase = 1
    th.start(); th.join(20)
    rec.phase = 0
    if th.is_alive(): return 'hangs'
    return out[0] if len(out) == 1 else 'odd %r' % (out,)


class BodyError(Exception):
    """mid 2: the session body raises after its work (the session must roll back); carries the observations."""


def _program(db, lk, fu, nw, sk, ser, opt, imm, wr, mid, pre, rival):
    """The first session.  Returns the observations the judges need (no pony object leaves this function)."""
    from pony.orm import db_session, commit, flush, select
    T = db.T
    obs = dict(typeerror=False, in_fu=None, in_fu_after_commit=None, rival=None, marks={})
    if pre == 3:        # an EARLIER session ran the same locking lookup without options (pony caches SQL per program location across sessions)
        with db_session:
            _lookup(T, lk, True, False, False)
    obs['marks']['start'] = rec.n
    with db_session(serializable=ser, optimistic=opt, immediate=imm):
        cache = db._get_cache()
        if pre == 1: T.get(id=1)
        elif pre == 2: _lookup(T, lk, False, False, False)
        elif pre == 4: select(x for x in T)[:]
        elif pre == 5: _lookup(T, (lk + 1) % 4, True, False, False)
        if fu and (pre in (1, 4) or (pre == 2 and lk != 3)):          # (style 3 filters on `a`: its unlocked run OBSERVES a, and the re-fetch then rightly raises)
            ROW['a'] += 100          # a rival commits a change between the unlocked load and the locking lookup
        obs['marks']['lookup'] = n0 = rec.n
        try:
            o = _lookup(T, lk, fu, nw, sk)
        except TypeError:
            obs['typeerror'] = True
            obs['marks']['lookup_end'] = rec.n
            return obs
        obs['marks']['lookup_end'] = rec.n
        obs['got'] = o is not None
        obs['in_fu'] = o in cache.for_update
        if o is not None: obs['val'], obs['row_at_lookup'] = o._vals_.get(T.a), ROW['a']      # (read without touching the read bits)
        if rival: obs['rival'] = _run_rival(db, rival)
        if mid == 3: o.a = o.a + 1          # write, commit(), lock it again (the status 'updated' outlives the commit, the lock does not)
        if mid == 1 or mid == 3 or mid == 5:
            commit()
            obs['in_fu_after_commit'] = (o in cache.for_update, len(cache.for_update))
            if mid != 1:
                obs['marks']['lookup2'] = rec.n
                o = _lookup(T, lk, fu, nw, sk)
                obs['marks']['lookup2_end'] = rec.n
                obs['in_fu2'] = o in cache.for_update
        if wr:
            o.a = o.a + 1
            if mid == 4:
                flush()
                obs['marks']['lookup2'] = rec.n
                o2 = _lookup(T, lk, fu, nw, sk)
                obs['marks']['lookup2_end'] = rec.n
                obs['in_fu2'] = o2 in cache.for_update
        if mid == 2:
            obs['raised'] = True
            raise BodyError(obs)
    return obs


# -- the reference ------------------------------------------------------------------------------------------------------
def _is_select_T(e):
    return e.op == 'execute' and (e.detail or '').lstrip().upper().startswith('SELECT') and 'FROM "T"' in e.detail.upper()


def _is_update(e):
    return e.op == 'execute' and (e.detail or '').lstrip().upper().startswith('UPDATE')


def _tx_open_events(events, n, opener):
    """Index (into `events`, the calls of ONE connection in order) of the statement matching `opener` that opened the
    transaction in which call number n runs: the last one before n with no commit/rollback after it; None if absent."""
    found = None
    for i, e in enumerate(events):
        if e.n >= n: break
        if e.op in ('commit', 'rollback'): found = None
        elif e.op == 'execute' and opener(e.detail or ''): found = i
    return found


def _must_query(window, fu, mid, pre):
    """L2: a locking lookup must reach the database unless the object is already locked in the current transaction
    (then the cache may answer).  window 0 = the lookup, 1 = the repeated lookup of mid 4 (after flush(): still locked
    by the first one) / mid 3, 5 (after commit(): the lock is gone)."""
    if not fu: return False
    return pre != 5 if window == 0 else mid in (3, 5)


def _judge_common(obs, why, fu, nw, sk, opt, ser, wr, mid, pre, updates, crit_text):
    if fu and nw and sk:
        if not obs['typeerror']: why.append('nowait+skip_locked accepted')
        return False
    if obs['typeerror']:
        why.append('TypeError for a valid option combination'); return False
    if not obs.get('got'): why.append('lookup returned nothing'); return False
    # a locking lookup returns the row as it is NOW, also for an object this session had loaded earlier without a lock
    if fu and obs.get('val') != obs.get('row_at_lookup'):
        why.append('locking lookup left the stale value %r in the object, the row has %r' % (obs.get('val'), obs.get('row_at_lookup')))
    # L5 / P4
    locked0 = fu or pre == 5          # (pre 5, thorough tier: a locking lookup of another style came first in this session)
    if obs['in_fu'] != locked0: why.append('object in cache.for_update = %r, locked by a lookup = %r' % (obs['in_fu'], locked0))
    if mid in (1, 3, 5) and obs['in_fu_after_commit'] != (False, 0):
        why.append('cache.for_update after commit(): %r' % (obs['in_fu_after_commit'],))
    locked_at_write = False if mid == 1 else (fu if mid in (3, 5) else locked0)
    if 'in_fu2' in obs and obs['in_fu2'] != locked_at_write: why.append('second lookup: object in cache.for_update = %r' % (obs['in_fu2'],))
    # L6 / P5
    expect = []          # per expected UPDATE: was the object locked when it was written
    if mid == 3: expect.append(locked0)
    if wr and mid != 2: expect.append(locked_at_write)
    if len(updates) != len(expect): why.append('%d UPDATE statements, %d writes' % (len(updates), len(expect)))
    else:
        for u, locked in zip(updates, expect):
            has = crit_text in u.detail
            if locked and has: why.append('L6 UPDATE of a locked object carries optimistic criteria: %s' % u.detail)
            if (opt and not ser) and not locked and not has:
                why.append('L6 UPDATE of an unlocked object in an optimistic session is unconditional: %s' % u.detail)
    return True


def _judge_sqlite(db, obs, why, lk, fu, nw, sk, ser, opt, imm, wr, mid, pre, rival):
    log = rec.log
    m = obs['marks']
    main = [e for e in log if e.phase == 0 and e.con is not None and e.n > m['start']]       # (pre 3: the earlier session is not judged here)
    cons = set(id(e.con) for e in main)
    if len(cons) > 1: why.append('first session used %d connections' % len(cons))
    updates = [e for e in main if _is_update(e)]
    for e in log:
        if e.op == 'execute' and 'FOR UPDATE' in (e.detail or '').upper(): why.append('L7 FOR UPDATE in SQLite text')
    sent_nothing = m['lookup_end'] == m['lookup']
    if not _judge_common(obs, why, fu, nw, sk, opt, ser, wr, mid, pre, updates, 'AND "a" = ?'):
        if fu and nw and sk and not sent_nothing: why.append('something was sent for the rejected lookup')
        return _locks_balanced(db, why)
    if mid == 2 and [e for e in main if e.op == 'commit']: why.append('commit although the body raised')
    session_tx = ser or imm or not opt
    begin = lambda s: s.strip().upper() == 'BEGIN IMMEDIATE TRANSACTION'
    windows = [(m['lookup'], m['lookup_end'])] + ([(m['lookup2'], m['lookup2_end'])] if 'lookup2' in m else [])
    for wi, (a, b) in enumerate(windows):
        sel = [e for e in main if a < e.n <= b and _is_select_T(e)]
        if _must_query(wi, fu, mid, pre) and not sel: why.append('L2 locking lookup %d sent no SELECT' % wi)
    for e in main:
        if not _is_select_T(e): continue
        in_lookup = any(a < e.n <= b for a, b in windows)
        in_pre5 = pre == 5 and e.n <= m['lookup']
        need = session_tx or (fu and in_lookup) or in_pre5
        if not need: continue
        i = _tx_open_events(main, e.n, begin)
        held, _, in_tx, _ = rec.snap[e.n]
        if i is None or not in_tx: why.append('L1 SELECT #%d outside an immediate transaction' % e.n)
        if not held: why.append('L1 provider lock not held at SELECT #%d' % e.n)
    # L3: the lock is held from every BEGIN to the next commit/rollback of the connection
    open_since = None
    for e in main:
        held = rec.snap[e.n][0]
        if e.op == 'execute' and begin(e.detail or ''):
            if not held: why.append('L3 BEGIN #%d sent without the provider lock' % e.n)
            open_since = e.n
        elif open_since is not None:
            if not held: why.append('L3 lock not held at #%d (transaction open since #%d)' % (e.n, open_since))
            if e.op in ('commit', 'rollback') and not e.faulted: open_since = None
    for e in updates:
        if not rec.snap[e.n][2] or not rec.snap[e.n][0]: why.append('UPDATE #%d outside the locked transaction' % e.n)
    # L4: the rival
    if rival:
        other = [e for e in log if e.phase == 1]
        holding = session_tx or fu or pre == 5
        wrote = [e for e in other if e.op == 'execute' and re.match(r'\s*(BEGIN|UPDATE|INSERT|DELETE)', e.detail or '', re.I)]
        if holding:
            if obs['rival'] != 'blocked': why.append('L4 rival while the transaction is open: %s' % obs['rival'])
            if wrote: why.append('L4 rival sent %s' % wrote[0].detail)
        else:
            if obs['rival'] != 'done': why.append('L4 rival while nothing is locked: %s' % obs['rival'])
            committed = [e for e in other if e.op == 'commit']
            if obs['rival'] == 'done' and (mid == 3 or (wr and mid != 2)) and committed:
                if not (updates and 'AND "a" = ?' in updates[0].detail): why.append('L6 rival committed a write, the first session overwrites it unconditionally')
    return _locks_balanced(db, why)


def _locks_balanced(db, why):
    prov = db.provider
    tl, pl = prov.transaction_lock, prov.pre_transaction_lock
    if tl.locked() or pl.locked(): why.append('L3 lock left held after the session')
    if tl.bad_release or pl.bad_release: why.append('L3 release of a free lock')
    if tl.acquired != tl.released or pl.acquired != pl.released: why.append('L3 acquire/release counts differ')
    if not why:
        after = _run_rival(db, 2)       # L4: after the first session ended a writer in another thread completes
        if after != 'done': why.append('L4 writer after the session: %s' % after)
        if tl.locked(): why.append('L3 lock left held by the later writer')
    return not why


_TAIL = re.compile(r'FOR UPDATE( NOWAIT| SKIP LOCKED)?\Z')


def _judge_pg(db, obs, why, lk, fu, nw, sk, ser, opt, imm, wr, mid, pre):
    m = obs['marks']
    main = [e for e in rec.log if e.con is not None and e.n > m['start']]       # (pre 3: the earlier session is not judged here)
    if len(set(id(e.con) for e in main)) > 1: why.append('session used several connections')
    updates = [e for e in main if _is_update(e)]
    if not _judge_common(obs, why, fu, nw, sk, opt, ser, wr, mid, pre, updates, 'AND "a" = %(p3)s'):
        if fu and nw and sk and m['lookup_end'] != m['lookup']: why.append('something was sent for the rejected lookup')
        return not why
    if mid == 2 and [e for e in main if e.op == 'commit']: why.append('commit although the body raised')
    session_tx = ser or imm or not opt
    windows = [(m['lookup'], m['lookup_end'])] + ([(m['lookup2'], m['lookup2_end'])] if 'lookup2' in m else [])
    want_tail = 'FOR UPDATE' + (' NOWAIT' if nw else '') + (' SKIP LOCKED' if sk else '')
    locked_since = None
    for wi, (a, b) in enumerate(windows):
        if _must_query(wi, fu, mid, pre) and not [e for e in main if a < e.n <= b and _is_select_T(e)]: why.append('L2 locking lookup %d sent no SELECT' % wi)
    for e in main:
        auto = rec.snap[e.n][1]
        if e.op == 'execute':
            text = (e.detail or '').strip()
            if _is_select_T(e):
                in_lookup = any(a < e.n <= b for a, b in windows)
                locking = (fu and in_lookup) or (pre == 5 and e.n <= m['lookup'])
                if locking:
                    mt = _TAIL.search(text)
                    tail = mt.group(0) if mt else None
                    expect = want_tail if in_lookup else 'FOR UPDATE'
                    if tail != expect or text.upper().count('FOR UPDATE') != 1: why.append('P1 SELECT #%d ends in %r, requested %r' % (e.n, text[-30:], expect))
                    if auto: why.append('P2 autocommit is on at the locking SELECT #%d' % e.n)
                    if locked_since is None: locked_since = e.n
                elif 'FOR UPDATE' in text.upper(): why.append('P1 FOR UPDATE in a plain SELECT #%d' % e.n)
            if (session_tx or _is_update(e)) and text != 'DISCARD ALL' and auto:
                why.append('P2 autocommit is on at #%d %s' % (e.n, text[:30]))
            if ser and text != 'DISCARD ALL' and not text.startswith('SET TRANSACTION'):
                i = _tx_open_events(main, e.n, lambda s: s.strip() == 'SET TRANSACTION ISOLATION LEVEL SERIALIZABLE')
                if i is None: why.append('P3 #%d runs in a transaction that was not made serializable' % e.n)
        if locked_since is not None and e.n > locked_since:
            if auto: why.append('P2 autocommit switched on at #%d while rows are locked since #%d' % (e.n, locked_since))
            if e.op in ('commit', 'rollback'): locked_since = None
    return not why


COUNT = [0]          # concrete runs so far in this process (development: number of explored paths)


def _run(kind, lk, fu, nw, sk, ser, opt, imm, wr, mid, pre, rival):
    COUNT[0] += 1
    db = _reset(kind)
    why = []
    LAST.clear(); LAST.update(why=why)
    try:
        obs = _program(db, lk, fu, nw, sk, ser, opt, imm, wr, mid, pre, rival)
    except BodyError as e:
        obs = e.args[0]
    except Exception as e:
        F.reset_session_state(db)
        # "wait or FAIL": an unlocked optimistic session that meets a value a rival legitimately committed in the meantime may
        # refuse to go on (UnrepeatableReadError / OptimisticCheckError) - as long as it sent no UPDATE after the rival's commit
        rc = [x.n for x in rec.log if x.phase == 1 and x.op == 'commit']
        holding = ser or imm or not opt or fu or pre == 5
        if (kind == 'sqlite' and rival and rc and not holding and type(e).__name__ in ('UnrepeatableReadError', 'OptimisticCheckError')
                and not [x for x in rec.log if x.phase == 0 and _is_update(x) and x.n > rc[0]]):
            return _locks_balanced(db, why)
        why.append('session raised %s: %s' % (type(e).__name__, e))
        return False
    LAST['obs'] = obs
    if kind == 'sqlite':
        r = _judge_sqlite(db, obs, why, lk, fu, nw, sk, ser, opt, imm, wr, mid, pre, rival)
    else:
        r = _judge_pg(db, obs, why, lk, fu, nw, sk, ser, opt, imm, wr, mid, pre)
    _say(r)
    return r


def _say(result):
    import sys
    if not result and 'violation_' in (sys.argv[0] if sys.argv else ''):
        print('reasons: %s' % '; '.join(LAST.get('why', ())))
        print('DB-API call journal: %s' % rec.dump())


def explain(fn, **kw):
    r = globals()[fn](**kw)
    return r, list(LAST.get('why', ())), rec.dump() if rec is not None else ''


def _e(kind, lk, fu, nw, sk, ser, opt, imm, wr, mid, pre, rival=0):
    # one solver decision per flag, under tracing; from here on everything is concrete
    fu = True if fu else False
    nw = True if nw else False
    sk = True if sk else False
    ser = True if ser else False
    opt = True if opt else False
    imm = True if imm else False
    wr = True if wr else False
    mid = 0 if mid == 0 else (1 if mid == 1 else (2 if mid == 2 else (3 if mid == 3 else (4 if mid == 4 else 5))))
    pre = 0 if pre == 0 else (1 if pre == 1 else (2 if pre == 2 else (3 if pre == 3 else (4 if pre == 4 else 5))))
    rival = 0 if rival == 0 else (1 if rival == 1 else (2 if rival == 2 else 3))
    with NoTracing():
        return _run(kind, lk, fu, nw, sk, ser, opt, imm, wr, mid, pre, rival)


E_HARNESSES = []

# One explicit function per dialect x lookup style (x read-only / writing, optimistic / non-optimistic session for SQLite,
# where the rival dimension makes the product four times larger), so that they run in parallel worker processes.


def sqlite_lk0_ro_opt(fu: bool, nw: bool, sk: bool, ser: bool, imm: bool, mid: int, pre: int, rival: int) -> bool:
    """
    pre: fu or not (nw or sk)
    pre: 0 <= mid <= MID_MAX and 0 <= pre <= PRE_MAX and 0 <= rival <= RIVAL_MAX
    pre: THOROUGH or mid != 3 or pre == 0
    post: _
    """
    return ok(_e('sqlite', 0, fu, nw, sk, ser, True, imm, False, mid, pre, rival))
E_HARNESSES.append('sqlite_lk0_ro_opt')


def sqlite_lk0_ro_pes(fu: bool, nw: bool, sk: bool, ser: bool, imm: bool, mid: int, pre: int, rival: int) -> bool:
    """
    pre: fu or not (nw or sk)
    pre: 0 <= mid <= MID_MAX and 0 <= pre <= PRE_MAX and 0 <= rival <= RIVAL_MAX
    pre: THOROUGH or mid != 3 or pre == 0
    post: _
    """
    return ok(_e('sqlite', 0, fu, nw, sk, ser, False, imm, False, mid, pre, rival))
E_HARNESSES.append('sqlite_lk0_ro_pes')


def sqlite_lk0_wr_opt(fu: bool, nw: bool, sk: bool, ser: bool, imm: bool, mid: int, pre: int, rival: int) -> bool:
    """
    pre: fu or not (nw or sk)
    pre: 0 <= mid <= MID_MAX and 0 <= pre <= PRE_MAX and 0 <= rival <= RIVAL_MAX
    pre: THOROUGH or mid != 3 or pre == 0
    post: _
    """
    return ok(_e('sqlite', 0, fu, nw, sk, ser, True, imm, True, mid, pre, rival))
E_HARNESSES.append('sqlite_lk0_wr_opt')


def sqlite_lk0_wr_pes(fu: bool, nw: bool, sk: bool, ser: bool, imm: bool, mid: int, pre: int, rival: int) -> bool:
    """
    pre: fu or not (nw or sk)
    pre: 0 <= mid <= MID_MAX and 0 <= pre <= PRE_MAX and 0 <= rival <= RIVAL_MAX
    pre: THOROUGH or mid != 3 or pre == 0
    post: _
    """
    return ok(_e('sqlite', 0, fu, nw, sk, ser, False, imm, True, mid, pre, rival))
E_HARNESSES.append('sqlite_lk0_wr_pes')


def sqlite_lk1_ro_opt(fu: bool, nw: bool, sk: bool, ser: bool, imm: bool, mid: int, pre: int, rival: int) -> bool:
    """
    pre: fu or not (nw or sk)
    pre: 0 <= mid <= MID_MAX and 0 <= pre <= PRE_MAX and 0 <= rival <= RIVAL_MAX
    pre: THOROUGH or mid != 3 or pre == 0
    post: _
    """
    return ok(_e('sqlite', 1, fu, nw, sk, ser, True, imm, False, mid, pre, rival))
E_HARNESSES.append('sqlite_lk1_ro_opt')


def sqlite_lk1_ro_pes(fu: bool, nw: bool, sk: bool, ser: bool, imm: bool, mid: int, pre: int, rival: int) -> bool:
    """
    pre: fu or not (nw or sk)
    pre: 0 <= mid <= MID_MAX and 0 <= pre <= PRE_MAX and 0 <= rival <= RIVAL_MAX
    pre: THOROUGH or mid != 3 or pre == 0
    post: _
    """
    return ok(_e('sqlite', 1, fu, nw, sk, ser, False, imm, False, mid, pre, rival))
E_HARNESSES.append('sqlite_lk1_ro_pes')


def sqlite_lk1_wr_opt(fu: bool, nw: bool, sk: bool, ser: bool, imm: bool, mid: int, pre: int, rival: int) -> bool:
    """
    pre: fu or not (nw or sk)
    pre: 0 <= mid <= MID_MAX and 0 <= pre <= PRE_MAX and 0 <= rival <= RIVAL_MAX
    pre: THOROUGH or mid != 3 or pre == 0
    post: _
    """
    return ok(_e('sqlite', 1, fu, nw, sk, ser, True, imm, True, mid, pre, rival))
E_HARNESSES.append('sqlite_lk1_wr_opt')


def sqlite_lk1_wr_pes(fu: bool, nw: bool, sk: bool, ser: bool, imm: bool, mid: int, pre: int, rival: int) -> bool:
    """
    pre: fu or not (nw or sk)
    pre: 0 <= mid <= MID_MAX and 0 <= pre <= PRE_MAX and 0 <= rival <= RIVAL_MAX
    pre: THOROUGH or mid != 3 or pre == 0
    post: _
    """
    return ok(_e('sqlite', 1, fu, nw, sk, ser, False, imm, True, mid, pre, rival))
E_HARNESSES.append('sqlite_lk1_wr_pes')


def sqlite_lk2_ro_opt(fu: bool, nw: bool, sk: bool, ser: bool, imm: bool, mid: int, pre: int, rival: int) -> bool:
    """
    pre: fu or not (nw or sk)
    pre: 0 <= mid <= MID_MAX and 0 <= pre <= PRE_MAX and 0 <= rival <= RIVAL_MAX
    pre: THOROUGH or mid != 3 or pre == 0
    post: _
    """
    return ok(_e('sqlite', 2, fu, nw, sk, ser, True, imm, False, mid, pre, rival))
E_HARNESSES.append('sqlite_lk2_ro_opt')


def sqlite_lk2_ro_pes(fu: bool, nw: bool, sk: bool, ser: bool, imm: bool, mid: int, pre: int, rival: int) -> bool:
    """
    pre: fu or not (nw or sk)
    pre: 0 <= mid <= MID_MAX and 0 <= pre <= PRE_MAX and 0 <= rival <= RIVAL_MAX
    pre: THOROUGH or mid != 3 or pre == 0
    post: _
    """
    return ok(_e('sqlite', 2, fu, nw, sk, ser, False, imm, False, mid, pre, rival))
E_HARNESSES.append('sqlite_lk2_ro_pes')


def sqlite_lk2_wr_opt(fu: bool, nw: bool, sk: bool, ser: bool, imm: bool, mid: int, pre: int, rival: int) -> bool:
    """
    pre: fu or not (nw or sk)
    pre: 0 <= mid <= MID_MAX and 0 <= pre <= PRE_MAX and 0 <= rival <= RIVAL_MAX
    pre: THOROUGH or mid != 3 or pre == 0
    post: _
    """
    return ok(_e('sqlite', 2, fu, nw, sk, ser, True, imm, True, mid, pre, rival))
E_HARNESSES.append('sqlite_lk2_wr_opt')


def sqlite_lk2_wr_pes(fu: bool, nw: bool, sk: bool, ser: bool, imm: bool, mid: int, pre: int, rival: int) -> bool:
    """
    pre: fu or not (nw or sk)
    pre: 0 <= mid <= MID_MAX and 0 <= pre <= PRE_MAX and 0 <= rival <= RIVAL_MAX
    pre: THOROUGH or mid != 3 or pre == 0
    post: _
    """
    return ok(_e('sqlite', 2, fu, nw, sk, ser, False, imm, True, mid, pre, rival))
E_HARNESSES.append('sqlite_lk2_wr_pes')


def sqlite_lk3_ro_opt(fu: bool, nw: bool, sk: bool, ser: bool, imm: bool, mid: int, pre: int, rival: int) -> bool:
    """
    pre: fu or not (nw or sk)
    pre: 0 <= mid <= MID_MAX and 0 <= pre <= PRE_MAX and 0 <= rival <= RIVAL_MAX
    pre: THOROUGH or mid != 3 or pre == 0
    post: _
    """
    return ok(_e('sqlite', 3, fu, nw, sk, ser, True, imm, False, mid, pre, rival))
E_HARNESSES.append('sqlite_lk3_ro_opt')


def sqlite_lk3_ro_pes(fu: bool, nw: bool, sk: bool, ser: bool, imm: bool, mid: int, pre: int, rival: int) -> bool:
    """
    pre: fu or not (nw or sk)
    pre: 0 <= mid <= MID_MAX and 0 <= pre <= PRE_MAX and 0 <= rival <= RIVAL_MAX
    pre: THOROUGH or mid != 3 or pre == 0
    post: _
    """
    return ok(_e('sqlite', 3, fu, nw, sk, ser, False, imm, False, mid, pre, rival))
E_HARNESSES.append('sqlite_lk3_ro_pes')


def sqlite_lk3_wr_opt(fu: bool, nw: bool, sk: bool, ser: bool, imm: bool, mid: int, pre: int, rival: int) -> bool:
    """
    pre: fu or not (nw or sk)
    pre: 0 <= mid <= MID_MAX and 0 <= pre <= PRE_MAX and 0 <= rival <= RIVAL_MAX
    pre: THOROUGH or mid != 3 or pre == 0
    post: _
    """
    return ok(_e('sqlite', 3, fu, nw, sk, ser, True, imm, True, mid, pre, rival))
E_HARNESSES.append('sqlite_lk3_wr_opt')


def sqlite_lk3_wr_pes(fu: bool, nw: bool, sk: bool, ser: bool, imm: bool, mid: int, pre: int, rival: int) -> bool:
    """
    pre: fu or not (nw or sk)
    pre: 0 <= mid <= MID_MAX and 0 <= pre <= PRE_MAX and 0 <= rival <= RIVAL_MAX
    pre: THOROUGH or mid != 3 or pre == 0
    post: _
    """
    return ok(_e('sqlite', 3, fu, nw, sk, ser, False, imm, True, mid, pre, rival))
E_HARNESSES.append('sqlite_lk3_wr_pes')


def pg_lk0(fu: bool, nw: bool, sk: bool, ser: bool, opt: bool, imm: bool, wr: bool, mid: int, pre: int) -> bool:
    """
    pre: fu or not (nw or sk)
    pre: 0 <= mid <= MID_MAX and 0 <= pre <= PRE_MAX
    pre: THOROUGH or mid != 3 or pre == 0
    post: _
    """
    return ok(_e('pg', 0, fu, nw, sk, ser, opt, imm, wr, mid, pre))
E_HARNESSES.append('pg_lk0')


def pg_lk1(fu: bool, nw: bool, sk: bool, ser: bool, opt: bool, imm: bool, wr: bool, mid: int, pre: int) -> bool:
    """
    pre: fu or not (nw or sk)
    pre: 0 <= mid <= MID_MAX and 0 <= pre <= PRE_MAX
    pre: THOROUGH or mid != 3 or pre == 0
    post: _
    """
    return ok(_e('pg', 1, fu, nw, sk, ser, opt, imm, wr, mid, pre))
E_HARNESSES.append('pg_lk1')


def pg_lk2(fu: bool, nw: bool, sk: bool, ser: bool, opt: bool, imm: bool, wr: bool, mid: int, pre: int) -> bool:
    """
    pre: fu or not (nw or sk)
    pre: 0 <= mid <= MID_MAX and 0 <= pre <= PRE_MAX
    pre: THOROUGH or mid != 3 or pre == 0
    post: _
    """
    return ok(_e('pg', 2, fu, nw, sk, ser, opt, imm, wr, mid, pre))
E_HARNESSES.append('pg_lk2')


def pg_lk3(fu: bool, nw: bool, sk: bool, ser: bool, opt: bool, imm: bool, wr: bool, mid: int, pre: int) -> bool:
    """
    pre: fu or not (nw or sk)
    pre: 0 <= mid <= MID_MAX and 0 <= pre <= PRE_MAX
    pre: THOROUGH or mid != 3 or pre == 0
    post: _
    """
    return ok(_e('pg', 3, fu, nw, sk, ser, opt, imm, wr, mid, pre))
E_HARNESSES.append('pg_lk3')


def pg_lk4(fu: bool, nw: bool, sk: bool, ser: bool, opt: bool, imm: bool, wr: bool, mid: int, pre: int) -> bool:
    """
    pre: fu or not (nw or sk)
    pre: 0 <= mid <= MID_MAX and 0 <= pre <= PRE_MAX
    pre: THOROUGH or mid != 3 or pre == 0
    post: _
    """
    return ok(_e('pg', 4, fu, nw, sk, ser, opt, imm, wr, mid, pre))
E_HARNESSES.append('pg_lk4')


# == K-harnesses: the small decision functions, fully traced with symbolic booleans ==========================================
K_HARNESSES = []


IDLE = [False]


def _k_session(kind, ser, opt, imm, first, lockreq, mid_commit):
    """A real session over the fakes that sends three statements through the real Database._exec_sql:
    [S1 (only if `first`)]  S2 (after `cache.immediate = True` if `lockreq`: exactly what _find_in_db_ / Query._actual_fetch do
    for a locking lookup - that they do it is what the E-harnesses decide)  [commit()]  W (start_transaction=True as
    Entity._save_updated_ sends its UPDATE).  Returns the call numbers of the three statements."""
    from pony.orm import db_session, commit
    db = _reset(kind)
    marks = {}
    if IDLE[0]:
        import pony
        mode = pony.MODE
        pony.MODE = 'INTERACTIVE'          # outside a db_session pony only talks to the database in interactive mode
        try: db._exec_sql('SELECT 0')      # leaves an idle cache (no transaction, nothing modified) in local.db2cache
        finally: pony.MODE = mode
    with db_session(serializable=ser, optimistic=opt, immediate=imm):
        if first:
            db._exec_sql('SELECT 1')
            marks['s1'] = rec.n
        cache = db._get_cache()
        if lockreq: cache.immediate = True
        db._exec_sql('SELECT 2')
        marks['s2'] = rec.n
        if mid_commit: commit()
        db._exec_sql('UPDATE W', None, False, True)
        marks['w'] = rec.n
    return db, marks


def k_sqlite_mode(ser: bool, opt: bool, imm: bool, first: bool, lockreq: bool, mid_commit: bool) -> bool:
    """
    post: _
    """
    return _k_sqlite(ser, opt, imm, first, lockreq, mid_commit)


def k_sqlite_mode_idle(ser: bool, opt: bool, imm: bool, first: bool, lockreq: bool, mid_commit: bool) -> bool:
    """An idle session cache (a read made outside any db_session, interactive mode) exists when the session starts: the session's
    options must still take effect before its first statement.

    post: _
    """
    IDLE[0] = True
    try: return _k_sqlite(ser, opt, imm, first, lockreq, mid_commit)
    finally: IDLE[0] = False


def _k_sqlite(ser, opt, imm, first, lockreq, mid_commit):
    try:
        db, m = _k_session('sqlite', ser, opt, imm, first, lockreq, mid_commit)
    except Exception:
        F.reset_session_state(DBS['sqlite'])
        return ok(False)
    why = []
    LAST.clear(); LAST.update(why=why)
    main = [e for e in rec.log if e.con is not None]
    begin = lambda s: s.strip().upper() == 'BEGIN IMMEDIATE TRANSACTION'
    session_tx = ser or imm or not opt
    need = {'s1': session_tx, 's2': session_tx or lockreq, 'w': True}
    for k in m:
        if not need[k]: continue
        n = m[k]
        held, _, in_tx, _ = rec.snap[n]
        if _tx_open_events(main, n, begin) is None or not in_tx: why.append('%s outside an immediate transaction' % k)
        if not held: why.append('lock not held at %s' % k)
    open_since = None
    for e in main:
        held = rec.snap[e.n][0]
        if e.op == 'execute' and begin(e.detail or ''):
            if not held: why.append('BEGIN #%d without the lock' % e.n)
            open_since = e.n
        elif open_since is not None:
            if not held: why.append('lock not held at #%d' % e.n)
            if e.op in ('commit', 'rollback'): open_since = None
    prov = db.provider
    tl, pl = prov.transaction_lock, prov.pre_transaction_lock
    if tl.locked() or pl.locked(): why.append('lock left held')
    if tl.bad_release or tl.acquired != tl.released or tl.blocked: why.append('lock accounting')
    if not [e for e in main if e.op == 'commit']: why.append('no commit')
    return ok(not why)
K_HARNESSES.append('k_sqlite_mode')
K_HARNESSES.append('k_sqlite_mode_idle')


def k_pg_mode(ser: bool, opt: bool, imm: bool, first: bool, lockreq: bool, mid_commit: bool) -> bool:
    """
    post: _
    """
    return _k_pg(ser, opt, imm, first, lockreq, mid_commit)


def k_pg_mode_idle(ser: bool, opt: bool, imm: bool, first: bool, lockreq: bool, mid_commit: bool) -> bool:
    """An idle session cache (a read made outside any db_session, interactive mode) exists when the session starts: the session's
    options must still take effect before its first statement.

    post: _
    """
    IDLE[0] = True
    try: return _k_pg(ser, opt, imm, first, lockreq, mid_commit)
    finally: IDLE[0] = False


def _k_pg(ser, opt, imm, first, lockreq, mid_commit):
    try:
        db, m = _k_session('pg', ser, opt, imm, first, lockreq, mid_commit)
    except Exception:
        F.reset_session_state(DBS['pg'])
        return ok(False)
    why = []
    LAST.clear(); LAST.update(why=why)
    main = [e for e in rec.log if e.con is not None]
    session_tx = ser or imm or not opt
    need = {'s1': session_tx, 's2': session_tx or lockreq, 'w': True}
    serial = lambda s: s.strip() == 'SET TRANSACTION ISOLATION LEVEL SERIALIZABLE'
    for k in m:
        n = m[k]
        if need[k] and rec.snap[n][1]: why.append('autocommit on at %s' % k)
        if ser and _tx_open_events(main, n, serial) is None: why.append('%s in a transaction that is not serializable' % k)
    # once a statement ran with autocommit off, it stays off until the commit/rollback that ends the transaction
    open_since = None
    for e in main:
        auto = rec.snap[e.n][1]
        if open_since is not None:
            if auto: why.append('autocommit switched on at #%d inside the transaction open since #%d' % (e.n, open_since))
            if e.op in ('commit', 'rollback'): open_since = None
        elif e.op == 'execute' and not auto and (e.detail or '') != 'DISCARD ALL' and e.n in (m.get('s1'), m['s2'], m['w']) \
                and need[[k for k in m if m[k] == e.n][0]]:
            open_since = e.n
    if not [e for e in main if e.op == 'commit']: why.append('no commit')
    return ok(not why)
K_HARNESSES.append('k_pg_mode')
K_HARNESSES.append('k_pg_mode_idle')


def _k_shape(kind, shape, nw, sk, warm):
    """a locking query whose RESULT is not an entity (a tuple, a single attribute, entity + attribute): the lock request needs the
    transaction just like an entity query does"""
    from pony.orm import db_session, select
    db = _reset(kind)
    T = db.T
    marks = {}
    from crosshair.tracers import NoTracing
    with NoTracing():
        with db_session:
            if warm: T.get(id=1)                              # the session already has a connection (autocommit, no transaction)
            n0 = rec.n
            if shape == 0: q = select((x.id, x.a) for x in T if x.id == 1)
            elif shape == 1: q = select(x.a for x in T if x.id == 1)
            elif shape == 2: q = select((x, x.a) for x in T if x.id == 1)
            else: q = select(x for x in T if x.id == 1)
            try: q.for_update(nowait=nw, skip_locked=sk)[:]
            except Exception: pass                            # (the fake answers with two columns whatever is selected; the journal is what is judged)
            marks['lock'] = [e.n for e in rec.log if e.n > n0 and _is_select_T(e)][-1:]
    return db, marks


def _k_shape_judge(kind, shape, nw, sk, warm):
    try:
        db, m = _k_shape(kind, shape, nw, sk, warm)
    except Exception:
        F.reset_session_state(DBS[kind])
        return False
    why = []
    LAST.clear(); LAST.update(why=why)
    main = [e for e in rec.log if e.con is not None]
    if not m['lock']: why.append('the locking query did not reach the database')
    for n in m['lock']:
        held, auto, in_tx, _ = rec.snap[n]
        if kind == 'sqlite':
            begin = lambda t: t.strip().upper() == 'BEGIN IMMEDIATE TRANSACTION'
            if _tx_open_events(main, n, begin) is None or not in_tx: why.append('locking query outside an immediate transaction')
        else:
            if auto: why.append('SELECT ... FOR UPDATE sent with autocommit on (the lock is released at once)')
            ev = [e for e in main if e.n == n][0]
            if 'FOR UPDATE' not in (ev.detail or '').upper(): why.append('no FOR UPDATE clause')
    return not why


def k_lock_result_shape(pg: bool, shape: int, nw: bool, sk: bool, warm: bool) -> bool:
    """
    pre: 0 <= shape <= 3 and not (nw and sk)
    post: _
    """
    kind = 'pg' if pg else 'sqlite'
    shape = 0 if shape == 0 else 1 if shape == 1 else 2 if shape == 2 else 3
    return ok(_k_shape_judge(kind, shape, True if nw else False, True if sk else False, True if warm else False))
K_HARNESSES.append('k_lock_result_shape')


def k_builder(nw: bool, sk: bool, lim: bool, dialect: int) -> bool:
    """
    pre: not (nw and sk)
    pre: 0 <= dialect <= 2
    post: _
    """
    from pony.orm import sqlbuilding
    from pony.orm.dbproviders import sqlite as ps, postgres as ppg
    sections = [['ALL', ['COLUMN', 'x', 'id'], ['COLUMN', 'x', 'a']], ['FROM', ['x', 'TABLE', 'T']],
                ['WHERE', ['EQ', ['COLUMN', 'x', 'id'], ['VALUE', 1]]], ['ORDER_BY', ['VALUE', 1]]]
    if lim: sections.append(['LIMIT', 1])
    if dialect == 0: cls, prov = sqlbuilding.SQLBuilder, DBS['pg'].provider
    elif dialect == 1: cls, prov = ppg.PGSQLBuilder, DBS['pg'].provider
    else: cls, prov = ps.SQLiteBuilder, DBS['sqlite'].provider
    plain = cls(prov, ['SELECT'] + sections).sql
    sql = cls(prov, ['SELECT_FOR_UPDATE', nw, sk] + sections).sql
    if dialect == 2:
        return ok(sql == plain and 'FOR UPDATE' not in sql)
    # the lock clause is the last line, spelled exactly as requested, and nothing else changes
    want = 'FOR UPDATE' + (' NOWAIT' if nw else '') + (' SKIP LOCKED' if sk else '')
    return ok(sql == plain + '\n' + want and 'FOR UPDATE' not in plain)
K_HARNESSES.append('k_builder')
