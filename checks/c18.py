"""C18 - a db_session commits exactly when its body succeeds (CrossHair over the real session machinery)."""
import os
from engine.core import Report, Ob, HOLDS, CEX
from engine import ch


def classify(spec, cex):
    if spec['fn'] == 'flask_request':
        from checks import h_c18 as h
        if cex.get('code') != h.RET and not cex.get('handled'):
            return 'flask-exit-session-commits-failed-request'
    return None


def run(tier, seed, only=None):
    if tier == 'thorough':
        os.environ['C18_R_TT'] = '4'
        os.environ['C18_R_C'] = '3'
        os.environ['C18_NCODES'] = '7'
        os.environ['C18_G_Y'] = '3'
    from checks import h_c18 as h
    h.setup()
    core = h.core
    S = core.DBSessionContextManager
    rep = Report('C18', 'other',
                 'CrossHair symbolic execution of the real db_session machinery (decorator with retry loop, context manager, '
                 'nested sessions, generator sessions, Flask hooks, Bottle plugin) together with the real commit()/rollback()/'
                 'SessionCache/SQLiteProvider over a transactional model of a DB-API connection; symbolic: retry count, the outcome of '
                 'every attempt (return / exception class from a lattice / should_retry), option flags, nesting and generator shape, '
                 'consumer actions; asserted: number of body executions, committed rows, propagated exception object, clean session '
                 'state afterwards. Only "Confirmed over all paths" counts as holding.')
    rep.fn(S.__init__, S.__call__, S.__enter__, S._enter, S.__exit__, S._commit_or_rollback, S._wrap_function,
           S._wrap_coroutine_or_generator_function, core.commit, core.rollback, core.rollback_and_reraise, core._get_caches,
           core.SessionCache.commit, core.SessionCache.close, core.SessionCache.flush,
           h.pony_flask._enter_session, h.pony_flask._exit_session, h.pony_flask.Pony.init_app,
           h.bottle_plugin.PonyPlugin.apply, h.bottle_plugin.is_allowed_exception)
    T = 150 if tier == 'quick' else 900
    specs = [dict(module='checks.h_c18', fn=f, cond_timeout=T, path_timeout=T / 2, setup='setup') for f in h.HARNESSES]
    if only:
        specs = [s for s in specs if only in s['fn']]
    rep.bounds = {
        'retry': '[0, %d] allowed/retry given as tuples; [0, %d] when either is a callable; [0, 2] with the default exception lists'
                 % (h.R_TT, h.R_C),
        'attempt outcome': 'return | EA (allowed) | ER (retryable) | EO (neither) | EAR (ancestors in both) | EO with should_retry=True'
                           + (' | EA with should_retry=True' if h.NCODES > 6 else ''),
        'context manager': 'outcome x allowed form (tuple, list, callable, callable that raises) x immediate x serializable x strict x optimistic; '
                           'retry in [-1, 1] x ddl x decorator/with for the refusals',
        'nesting': 'outer decorator/with x inner decorated/with/with-in-with x inner retry <= 1 x inner plain/allows-everything/serializable/ddl '
                   'x inner outcome x caught-or-not x outer outcome x outer serializable; depth <= 3',
        'generator': '<= %d yields x commit-before-yield mask x raise position/class x consumer action (next, send, throw, close, '
                     'consume inside a db_session) at step <= %d x allowed form' % (h.G_Y, h.G_Y - 1),
        'flask': 'view outcome (return, EA, EO, ER) x handled-by-error-handler x view decorated with db_session',
        'bottle': '7 callback outcomes x symbolic route argument',
    }
    rep.assumptions = [
        'flask and bottle are not installed: pony.flask and pony.orm.integration.bottle_plugin are imported against stand-in modules '
        '(flask.request = a namespace object; bottle.HTTPResponse(Exception), bottle.HTTPError(HTTPResponse)); stubbed: %r' % (h.STUBBED,),
        'Flask request protocol modelled by StubFlaskApp.handle: before_request functions, view, then always the teardown_request '
        'functions with the unhandled exception or None (Flask.wsgi_app / full_dispatch_request)',
        'database = transactional model of a DB-API connection with SQLite autocommit semantics (checks/h_c18.py: Conn) behind the real '
        'SQLiteProvider through pony_pool_mockup; concrete tie on a real in-memory SQLite database for a fixed scenario list',
        'pony.orm.core.time stubbed to a constant; PonyRuntimeWarning filtered',
        'outcomes that are BaseException but not Exception (KeyboardInterrupt raised by a body) are not explored',
        'an exception that is both retryable and allowed is classified as retryable by the decorator (rolled back); the property only '
        'demands "commits only if allowed"',
    ]
    rep.trusted = ['crosshair-tool 0.0.110', 'z3', 'reference rule and connection model in checks/h_c18.py', 'stand-in flask/bottle modules']
    ch.run_harnesses(rep, specs, classify)
    if not only or 'tie' in only:
        tie_real_sqlite(rep)
    return rep


# --------------------------------------------------------------------------------------------------------------------
TIE_REPLAY = '''# C18 concrete tie: scenario %(name)r on a real in-memory SQLite database
import sys, types
%(prelude)s
from pony.orm import Database, PrimaryKey, db_session, select, commit
db = Database()
class Row(db.Entity):
    id = PrimaryKey(int)
db.bind('sqlite', ':memory:')
db.generate_mapping(create_tables=True)
%(body)s
with db_session:
    got = sorted(select(r.id for r in Row))
print('rows committed:', got, 'expected:', %(expected)r)
sys.exit(0 if got == %(expected)r else 1)
'''

FLASK_PRELUDE = '''try:
    import flask
except ImportError:          # stand-in: only `flask.request` is used by pony.flask
    flask = types.ModuleType('flask'); flask.request = types.SimpleNamespace(); sys.modules['flask'] = flask
'''

FLASK_BODY = '''from pony.flask import _enter_session, _exit_session
# what Flask does for a request whose view raises an unhandled exception:
_enter_session()                       # before_request
try:
    Row(id=1)
    raise ValueError('view failed')
except ValueError as e:
    error = e
_exit_session(error)                   # teardown_request(exc)
'''


def tie_real_sqlite(rep):
    """Concrete tie (NOT solver-quantified): a fixed list of scenarios on a real in-memory SQLite database through the public API,
    checking the rows visible to a later session."""
    from checks import h_c18 as h
    from pony.orm import Database, PrimaryKey, db_session, select, commit
    import pony.orm.core as core
    db = Database()

    class Row(db.Entity):
        id = PrimaryKey(int)
    db.bind('sqlite', ':memory:')
    db.generate_mapping(create_tables=True)

    class Allowed(Exception): pass
    class Retry(Exception): pass
    class Other(Exception): pass

    def committed():
        with db_session:
            got = sorted(select(r.id for r in Row))
            Row.select().delete(bulk=True)
        return got

    def swallow(f):
        try: f()
        except Exception: pass

    scen = []
    def scenario(name, expected, prelude='', body=''):
        def deco(f):
            scen.append((name, expected, f, prelude, body)); return f
        return deco

    @scenario('with: body returns', [1])
    def _():
        with db_session: Row(id=1)

    @scenario('with: body raises', [])
    def _():
        with db_session:
            Row(id=1); raise Other()

    @scenario('with: allowed exception', [1])
    def _():
        with db_session(allowed_exceptions=[Allowed]):
            Row(id=1); raise Allowed()

    @scenario('decorator: retry twice then succeed', [3])
    def _():
        n = []
        @db_session(retry=2, retry_exceptions=[Retry])
        def f():
            n.append(1); Row(id=len(n))
            if len(n) < 3: raise Retry()
        f()

    @scenario('decorator: retries exhausted', [])
    def _():
        n = []
        @db_session(retry=1, retry_exceptions=lambda e: isinstance(e, Retry))
        def f():
            n.append(1); Row(id=len(n)); raise Retry()
        f()

    @scenario('nested: inner raises, outer catches', [1, 2, 3])
    def _():
        with db_session:
            Row(id=1)
            try:
                with db_session:
                    Row(id=2); raise Other()
            except Other: pass
            Row(id=3)

    @scenario('nested: inner allowed-everything raises through outer', [])
    def _():
        with db_session:
            Row(id=1)
            with db_session(allowed_exceptions=[Exception]):
                Row(id=2); raise Other()

    @scenario('generator: committed segment stays, failing segment is dropped', [1])
    def _():
        @db_session
        def g():
            Row(id=1); commit()
            yield 1
            Row(id=2); raise Other()
        for _x in g(): pass

    @scenario('flask: view raises', [], FLASK_PRELUDE, FLASK_BODY)
    def _():
        error = None
        h.pony_flask._enter_session()
        try:
            Row(id=1); raise ValueError('view failed')
        except ValueError as e:
            error = e
        h.pony_flask._exit_session(error)

    class Interrupt(BaseException): pass          # KeyboardInterrupt / SystemExit / CancelledError-like: not an Exception

    @scenario('flask: view ends with a BaseException that is not an Exception', [])
    def _():
        error = None
        h.pony_flask._enter_session()
        try:
            Row(id=1); raise Interrupt()
        except Interrupt as e:
            error = e
        h.pony_flask._exit_session(error)

    @scenario('with: body ends with a BaseException that is not an Exception', [])
    def _():
        try:
            with db_session:
                Row(id=1); raise Interrupt()
        except Interrupt: pass

    @scenario('decorator: body ends with a BaseException that is not an Exception', [])
    def _():
        @db_session(retry=1)
        def f():
            Row(id=1); raise Interrupt()
        try: f()
        except Interrupt: pass

    @scenario('generator: closed while suspended, clean-up writes are not committed', [1])
    def _():
        @db_session
        def g():
            Row(id=1); commit()
            try: yield 1
            finally: Row(id=2)
        it = g(); next(it); it.close()

    @scenario('flask: view returns', [1])
    def _():
        h.pony_flask._enter_session()
        Row(id=1)
        h.pony_flask._exit_session(None)

    @scenario('bottle: redirect commits, HTTPError does not', [1])
    def _():
        import bottle
        def ok_cb():
            Row(id=1); raise bottle.HTTPResponse()
        def bad_cb():
            Row(id=2); raise bottle.HTTPError()
        p = h.bottle_plugin.PonyPlugin()
        swallow(p.apply(ok_cb, None)); swallow(p.apply(bad_cb, None))

    for name, expected, f, prelude, body in scen:
        core.rollback()
        core.local.db_session = None
        core.local.db_context_counter = 0
        swallow(f)
        got = committed()
        if got == expected:
            rep.add(Ob('tie:' + name, 'concrete-tie', HOLDS, detail='rows %r' % (got,)))
        else:
            key = 'flask-exit-session-commits-failed-request' if name == 'flask: view raises' else None
            rep.add(Ob('tie:' + name, 'concrete-tie', CEX, detail='committed rows %r, expected %r' % (got, expected),
                       cex={'scenario': name, 'committed': got, 'expected': expected}, reproduced=True, key=key,
                       replay=(TIE_REPLAY % dict(name=name, prelude=prelude, body=body, expected=expected)) if body else None))
