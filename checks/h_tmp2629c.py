"""scratch canaries for C29 (deleted at the end)"""
import os, re, json, inspect, textwrap
from pony.orm import sqltranslation as st, sqlbuilding as sb
from engine import env as E0
E0.install_driver_stubs()
from pony.orm.dbproviders import sqlite as sq, postgres as pg

def patch_src(owner, name, old, new, ns_mod):
    f = getattr(owner, name)
    f = getattr(f, '__func__', f)
    src = textwrap.dedent(inspect.getsource(f))
    assert old in src, (name, old)
    ns = dict(vars(ns_mod)); exec(src.replace(old, new), ns)
    return ns[name]

def setup():
    k = os.environ['CANARY']
    if k == 'index_no_plus_one':
        st.ArrayMixin._index = patch_src(st.ArrayMixin, '_index', "index1 = ['ADD', index0, ['VALUE', 1]] if from_one and plus_one else index0", "index1 = index0", st)
    elif k == 'index_const_off':
        st.ArrayMixin._index = patch_src(st.ArrayMixin, '_index', "index_sql = ['VALUE', value + int(from_one and plus_one)]", "index_sql = ['VALUE', value + int(from_one)]", st)
    elif k == 'pg_slice_swap':
        pg.PGSQLBuilder.ARRAY_SLICE = lambda builder, array, start, stop: (builder(array), '[', builder(stop) if stop else '', ':', builder(start) if start else '', ']')
    elif k == 'sqlite_slice_stop_lost':
        sq.SQLiteBuilder.ARRAY_SLICE = lambda builder, array, start, stop: ('py_array_slice(', builder(array), ', ', builder(start) if start else 'null', ',', 'null', ')')
    elif k == 'case_ge_to_gt':
        st.ArrayMixin._index = patch_src(st.ArrayMixin, '_index', "[['GE', index0, ['VALUE', 0]], index1]", "[['GT', index0, ['VALUE', 0]], index1]", st)
    elif k == 'traverse_indexerror':
        sq._traverse = patch_src(sq, '_traverse', "except (KeyError, IndexError): return None", "except KeyError: return None", sq)
    elif k == 'traverse_scalar_passthrough':
        sq._traverse = patch_src(sq, '_traverse', "if type(obj) not in list_or_dict: return None", "if type(obj) not in list_or_dict: return obj", sq)
    elif k == 'parse_no_negative':
        sq.json_path_re = re.compile(r'\[(\d+)\]|\.(?:(\w+)|"([^"]*)")', re.UNICODE)
    elif k == 'parse_g1_zero':
        sq._parse_path = patch_src(sq, '_parse_path', "keys.append(int(g1) if g1 else g2 or g3)", "keys.append(int(g1) if g1 and g1 != '0' else g2 or g3)", sq)
    elif k == 'eval_no_quote':
        def f(cls, values):
            result = ['$']
            for value in values:
                if isinstance(value, int): result.append('[%d]' % value)
                else: result.append('.' + value)
            return ''.join(result)
        sb.SQLBuilder.eval_json_path = classmethod(f)
    elif k == 'eval_ident_ascii':
        def f(cls, values):
            result = ['$']
            for value in values:
                if isinstance(value, int): result.append('[%d]' % value)
                else: result.append('.' + value if value.isalnum() else '."%s"' % value.replace('"', '\\"'))
            return ''.join(result)
        sb.SQLBuilder.eval_json_path = classmethod(f)
    elif k == 'contains_dict_only':
        sq.py_json_contains = patch_src(sq, 'py_json_contains', "type(expr) in (list, dict) and key in expr", "type(expr) is dict and key in expr", sq)
    elif k == 'nonzero_missing_true':
        sq.py_json_nonzero = patch_src(sq, 'py_json_nonzero', "return bool(expr)", "return expr is not None and expr != 0", sq)
    elif k == 'length_none':
        sq.py_json_array_length = patch_src(sq, 'py_json_array_length', "return len(expr) if type(expr) is list else 0", "return len(expr) if type(expr) is list else None", sq)
    elif k == 'nonzero_list_short':
        sq.SQLiteBuilder.JSON_NONZERO = lambda builder, expr: (builder(expr), ''' NOT IN ('null', 'false', '0', '[]', '{}')''')
    elif k == 'pg_nonzero_list_short':
        pg.PGSQLBuilder.JSON_NONZERO = lambda builder, expr: ('coalesce(', builder(expr), ", 'null'::jsonb) NOT IN ('null'::jsonb, 'false'::jsonb, '0'::jsonb, '\"\"'::jsonb, '[]'::jsonb)")
    elif k == 'array_index_no_try':
        import functools
        def py_array_index(array, index): return array[index] if index < len(array) else None
        sq.py_array_index = sq.wrap_array_func(py_array_index)
    elif k == 'array_subset_swapped':
        def py_array_subset(array, items):
            if items is None: return None
            items = json.loads(items)
            return set(array).issubset(set(items))
        sq.py_array_subset = sq.wrap_array_func(py_array_subset)
    elif k == 'array_slice_stop_lost':
        def py_array_slice(array, start, stop): return sq.dumps(array[start:])
        sq.py_array_slice = sq.wrap_array_func(py_array_slice)
    elif k == 'array_contains_first':
        def py_array_contains(array, item): return bool(array) and array[0] == item
        sq.py_array_contains = sq.wrap_array_func(py_array_contains)
    elif k == 'pg_path_no_quote':
        def f(builder, values): return '{%s}' % ','.join(str(v) for v in values)
        pg.PGSQLBuilder.eval_json_path = f
    elif k == 'unwrap_off':
        sq.py_json_unwrap = patch_src(sq, 'py_json_unwrap', "return value[6:-1]", "return value[6:]", sq)
    elif k == 'extract_default_separators':
        sq.py_json_extract = patch_src(sq, 'py_json_extract', "result = json.dumps(result, **SQLiteJsonConverter.json_kwargs)", "result = json.dumps(result)", sq)
    elif k == 'none': pass
    else: raise SystemExit('unknown canary ' + k)

def setup2():
    k = os.environ['CANARY']
    if k == 'contains_not_in_ignored':
        st.JsonMixin.contains = patch_src(st.JsonMixin, 'contains', "if not_in: sql = [ 'NOT', sql ]", "pass", st)
    elif k == 'path_not_reversed':
        st.JsonItemMonad.get_path = patch_src(st.JsonItemMonad, 'get_path', "path.reverse()", "pass", st)
    elif k == 'json_value_cast_lost':
        sq.SQLiteBuilder.JSON_VALUE = patch_src(sq.SQLiteBuilder, 'JSON_VALUE', "if type_name is not None: result = 'CAST(', result, ' as ', type_name, ')'", "pass", sq)
    elif k == 'array_len_nonzero_ge':
        st.ArrayMixin.nonzero = lambda monad: st.BoolExprMonad(['GE', ['ARRAY_LENGTH', monad.getsql()[0]], ['VALUE', 0]])
    elif k == 'array_contains_not_in_lost':
        sq.SQLiteBuilder.ARRAY_CONTAINS = lambda builder, key, not_in, col: ('py_array_contains(', builder(col), ', ', builder(key), ')')
    elif k == 'array_subset_args_swapped':
        sq.SQLiteBuilder.ARRAY_SUBSET = lambda builder, array1, not_in, array2: (('NOT ' if not_in else ''), 'py_array_subset(', builder(array1), ', ', builder(array2), ')')
    elif k == 'json_len_plus':
        st.JsonMixin.len = lambda monad: st.NumericExprMonad(int, ['ADD', ['JSON_ARRAY_LENGTH', monad.getsql()[0]], ['VALUE', 1]])
    else: return False
    return True
_setup1 = setup
def setup():
    if not setup2(): _setup1()
