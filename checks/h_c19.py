"""CrossHair harnesses for C19 - connections and the SQLite transaction lock are always released.

What runs: the real `db_session` / `commit()` / `rollback()` / `SessionCache.connect, reconnect,
prepare_connection_for_query_execution, commit, close` / `SQLiteProvider.acquire_lock, release_lock,
set_transaction_mode, commit, rollback, drop, release` / `DBAPIProvider.*` / `Pool.connect, release, drop,
disconnect` / `SQLitePool._connect, drop, disconnect` (and, for the reconnect family, `PGProvider` + `PGPool`)
on top of the recording fake DB-API of engine/fakedb.py.  No database engine is involved.

Symbolic: the numbers k1 < k2 of the DB-API calls that fail (0 = no fault; calls are numbered from the first
`connect` of the scenario: connect, cursor, execute, executemany, commit, rollback, close - the PRAGMA statements
SQLitePool._connect issues on a fresh connection are numbered like any other execute), whether the session body
raises, and what the body does between its two pieces of work (nothing / commit() / rollback() / flush()).
One harness per pool kind x session shape (read-only, optimistic write, immediate, serializable, ddl) so that they
run in parallel.

Scenario per explored path: session A (armed faults) -> state check -> session B: a plain immediate write session
with the faults disarmed ("a following session") -> state check -> db.disconnect() -> final accounting.
In the thorough tier the faults stay armed during a second session A' before the probe.

Reference statement of the property (function `_state_ok`):
  R1 the provider's transaction lock and pre-transaction lock are free; no acquire ever found the lock held
     (the lock is a real threading.Lock probed with acquire(False), see fakedb.ProbeLock) and no release hit
     a free lock;
  R2 `local.db2cache` is empty, `local.db_session` is None, the context counter is 0;
  R3 every connection ever opened is either the pool's connection - then it was never closed and carries no
     open transaction - or it had close() called exactly once; nothing was called on a connection after close();
  R4 every checkout from the pool was answered by exactly one release-or-drop (counted by a subclass of the
     real pool class that only counts and delegates);
  R5 the following session B raises nothing;
  R6 after db.disconnect() a file-backed pool holds no connection and every connection was closed exactly once
     (the ':memory:' pool keeps its only connection by design: dropping it would destroy the database).
An exception from session A itself is always acceptable (the property is about what is left behind).

Fake-driver semantics that matter (assumptions): a faulted call has no effect (a failed commit()/rollback()
leaves the transaction open, a failed close() leaves the handle open but counts as the close); BEGIN inside an
open transaction raises OperationalError as SQLite does - that is how a transaction left open on a pooled
connection makes a later session fail.
"""
import os
from engine.ch import ok
from engine import fakedb as F

NMAX = int(os.environ.get('C19_NMAX', '26'))          # fault numbers range over 0..NMAX
TWO_ARMED = os.environ.get('C19_TWO_ARMED') == '1'    # thorough: faults stay armed through a second session

rec = None
DBS = {}
FRESH_THREAD = [False]
LAST = {}          # diagnostics of the last scenario (for replay output)


class BodyError(Exception):
    pass


def _counting(cls):
    class Counting(cls):
        def connect(pool):
            r = cls.connect(pool)
            pool.__dict__['checkouts'] = pool.__dict__.get('checkouts', 0) + 1
            return r
        def release(pool, con):
            pool.__dict__['returns'] = pool.__dict__.get('returns', 0) + 1
            pool.__dict__['in_release'] = True
            try: return cls.release(pool, con)
            finally: pool.__dict__['in_release'] = False
        def drop(pool, con):
            if not pool.__dict__.get('in_release'):
                pool.__dict__['returns'] = pool.__dict__.get('returns', 0) + 1
            return cls.drop(pool, con)
    Counting.__name__ = cls.__name__
    return Counting


def _make_sqlite(filename):
    from pony.orm import Database, PrimaryKey, Required
    from pony.orm.dbproviders import sqlite as psqlite
    F.patch_sqlite_driver(rec)
    pool = _counting(psqlite.SQLitePool)(False, filename, True)
    db = Database()
    db.provider_name = 'sqlite'
    db._bind(psqlite.SQLiteProvider, filename, pony_pool_mockup=pool)

    class T(db.Entity):
        id = PrimaryKey(int)
        a = Required(int)
    db.generate_mapping(check_tables=False)
    db.T = T
    return db


def _make_pg():
    from engine import env
    env.install_driver_stubs()
    import psycopg2
    from pony.orm import Database, PrimaryKey, Required
    from pony.orm.dbproviders import postgres as ppg
    mod = F.FakeModule(rec, base=psycopg2, tx_model='pep249', name='psycopg2')
    pool = _counting(ppg.PGPool)(mod)
    db = Database()
    db.provider_name = 'postgres'
    db._bind(ppg.PGProvider, pony_pool_mockup=pool)

    class T(db.Entity):
        id = PrimaryKey(int)
        a = Required(int)
    db.generate_mapping(check_tables=False)
    db.T = T
    return db


def setup():
    """Once per worker process: stub the clock, build the databases, warm pony's caches with one unfaulted run
    of every shape (so that every explored path sees the same cached translators)."""
    global rec
    if rec is not None:
        return
    from pony.orm import core
    core.time = lambda: 0.0
    rec = F.Recorder()
    DBS['file'] = _make_sqlite('/verif-fake/db.sqlite')
    DBS['mem'] = _make_sqlite(':memory:')
    DBS['pg'] = _make_pg()
    for kind in DBS:
        for shape in range(5):
            for mid in range(4):
                r = _scenario(kind, shape, 0, 0, False, mid, 0)
                assert r, (kind, shape, mid, LAST)


def _reset(kind, k1, k2, exc_kind):
    db = DBS[kind]
    pool = db.provider.pool
    pool.con = None
    for name in ('pid', 'checkouts', 'returns', 'in_release'):
        pool.__dict__.pop(name, None)
    if kind == 'pg':
        import psycopg2
        def make(op):
            e = psycopg2.OperationalError('injected fault in %s' % op)
            e.pgcode = None            # "connection lost" class: PGProvider.should_reconnect says yes
            return e
        rec.reset(faults=(k1, k2), exc_factory=make)
        F.reset_session_state(db)
    else:
        F.patch_sqlite_driver(rec)
        rec.reset(faults=(k1, k2), exc_factory=F.sqlite_exc_factory(exc_kind))
        F.reset_sqlite_database(db)
        if not FRESH_THREAD[0]:
            pool.pid = os.getpid()     # the state of the thread that bound the database (provider.__init__ connected once)
    return db


SHAPES = ('ro', 'opt', 'imm', 'ser', 'ddl')


def _session(db, shape, raises, mid, base_id):
    from pony.orm import db_session, select, commit, rollback, flush
    T = db.T
    kw = {'imm': dict(immediate=True), 'ser': dict(serializable=True), 'ddl': dict(ddl=True)}.get(SHAPES[shape], {})

    def work(i):
        if SHAPES[shape] == 'ddl':
            db.execute('CREATE TABLE x%d (a INTEGER)' % i)
        else:
            select(t for t in T)[:]
            if SHAPES[shape] != 'ro': T(id=base_id + i, a=i)
    with db_session(**kw):
        work(0)
        if mid:
            if mid == 1: commit()
            elif mid == 2: rollback()
            else: flush()
            work(1)
        if raises: raise BodyError()


def _locks_ok(db, why):
    prov = db.provider
    if not hasattr(prov, 'transaction_lock'): return True
    tl, pl = prov.transaction_lock, prov.pre_transaction_lock
    if tl.locked(): why.append('transaction_lock left held')
    if pl.locked(): why.append('pre_transaction_lock left held')
    if tl.blocked or pl.blocked: why.append('a session would have blocked on the lock')
    if tl.bad_release or pl.bad_release: why.append('release of a free lock')
    if tl.acquired != tl.released: why.append('acquire/release count differs')
    return not why


def _memory_rollback_refused_twice(db, con):
    """The one tolerated leftover: the ':memory:' pool can never close its connection (that would destroy the
    database), so when the engine refuses rollback() twice in a row - SessionCache.close's rollback and
    SQLitePool.drop's second attempt - no code could have cleaned the connection.  Then the scenario stops
    (nothing further is claimed about that path)."""
    if db is not DBS['mem']: return False
    return len([e for e in rec.log if e.con is con and e.op == 'rollback' and e.faulted]) == 2


def _state_ok(db, why):
    from pony.orm import core
    _locks_ok(db, why)
    if core.local.db2cache: why.append('db2cache not empty')
    if core.local.db_session is not None or core.local.db_context_counter: why.append('db_session state left')
    pool = db.provider.pool
    for con in rec.connections:
        if con.calls_after_close: why.append('c%d used after close' % con.id)
        if con.close_calls > 1: why.append('c%d closed %d times' % (con.id, con.close_calls))
        if con is pool.con:
            if con.close_calls: why.append('closed c%d left in the pool' % con.id)
            if con.in_tx and not _memory_rollback_refused_twice(db, con):
                why.append('pooled c%d has an open transaction' % con.id)
        elif con.close_calls != 1: why.append('c%d neither pooled nor closed' % con.id)
    if pool.__dict__.get('checkouts', 0) != pool.__dict__.get('returns', 0):
        why.append('checkouts %r != returns %r' % (pool.__dict__.get('checkouts', 0), pool.__dict__.get('returns', 0)))
    return not why


def _scenario(kind, shape, k1, k2, raises, mid, exc_kind):
    raises = True if raises else False            # decide the small symbolic options here, under tracing
    mid = 0 if mid == 0 else 1 if mid == 1 else 2 if mid == 2 else 3
    shape = 0 if shape == 0 else 1 if shape == 1 else 2 if shape == 2 else 3 if shape == 3 else 4
    exc_kind = 0 if exc_kind == 0 else 1 if exc_kind == 1 else 2
    with F.untraced(rec):
        return _scenario_body(kind, shape, k1, k2, raises, mid, exc_kind)


COUNT = [0]


def _scenario_body(kind, shape, k1, k2, raises, mid, exc_kind):
    COUNT[0] += 1
    db = _reset(kind, k1, k2, exc_kind)
    why = []
    LAST.clear(); LAST.update(why=why, rec=rec)
    try:
        _session(db, shape, raises, mid, 10)
    except Exception:
        pass
    if not _state_ok(db, why): return False
    if any(c.in_tx for c in rec.connections): return True      # only the tolerated ':memory:' case gets here
    if TWO_ARMED:
        try:
            _session(db, shape, False, 0, 20)
        except Exception:
            pass
        if not _state_ok(db, why): return False
    rec.armed = False
    rec.phase = 1
    try:
        _session(db, 2, False, 0, 30)        # following session: plain immediate write
    except Exception as e:
        why.append('following session failed: %s: %s' % (type(e).__name__, e))
        return False
    if not _state_ok(db, why): return False
    if not [e for e in rec.log if e.phase == 1 and e.op == 'commit']:
        why.append('following session did not commit')
        return False
    try:
        db.disconnect()
    except Exception as e:
        why.append('disconnect failed: %r' % (e,))
        return False
    if kind != 'mem':
        if db.provider.pool.con is not None: why.append('pool keeps a connection after disconnect')
        for con in rec.connections:
            if con.close_calls != 1: why.append('c%d close_calls=%d at the end' % (con.id, con.close_calls))
    else:
        for con in rec.connections:
            if con is not db.provider.pool.con and con.close_calls != 1: why.append('c%d lost' % con.id)
    return not why


def explain(fn, **kw):
    """for replays / debugging: run a harness untraced and return (result, reasons, call journal)"""
    r = globals()[fn](**kw)
    return r, list(LAST.get('why', ())), rec.dump()


HARNESSES = []

# One explicit function per pool kind x session shape (CrossHair reads conditions from the source text).

def file_ro(k1: int, k2: int, raises: bool, mid: int) -> bool:
    """
    pre: 0 <= k1 <= NMAX
    pre: (k2 == 0) or (0 < k1 < k2 <= NMAX)
    pre: 0 <= mid <= 3
    post: _
    """
    return ok(_scenario('file', 0, k1, k2, raises, mid, 0))
HARNESSES.append('file_ro')


def file_opt(k1: int, k2: int, raises: bool, mid: int) -> bool:
    """
    pre: 0 <= k1 <= NMAX
    pre: (k2 == 0) or (0 < k1 < k2 <= NMAX)
    pre: 0 <= mid <= 3
    post: _
    """
    return ok(_scenario('file', 1, k1, k2, raises, mid, 0))
HARNESSES.append('file_opt')


def file_imm(k1: int, k2: int, raises: bool, mid: int) -> bool:
    """
    pre: 0 <= k1 <= NMAX
    pre: (k2 == 0) or (0 < k1 < k2 <= NMAX)
    pre: 0 <= mid <= 3
    post: _
    """
    return ok(_scenario('file', 2, k1, k2, raises, mid, 0))
HARNESSES.append('file_imm')


def file_ser(k1: int, k2: int, raises: bool, mid: int) -> bool:
    """
    pre: 0 <= k1 <= NMAX
    pre: (k2 == 0) or (0 < k1 < k2 <= NMAX)
    pre: 0 <= mid <= 3
    post: _
    """
    return ok(_scenario('file', 3, k1, k2, raises, mid, 0))
HARNESSES.append('file_ser')


def file_ddl(k1: int, k2: int, raises: bool, mid: int) -> bool:
    """
    pre: 0 <= k1 <= NMAX
    pre: (k2 == 0) or (0 < k1 < k2 <= NMAX)
    pre: 0 <= mid <= 3
    post: _
    """
    return ok(_scenario('file', 4, k1, k2, raises, mid, 0))
HARNESSES.append('file_ddl')


def mem_ro(k1: int, k2: int, raises: bool, mid: int) -> bool:
    """
    pre: 0 <= k1 <= NMAX
    pre: (k2 == 0) or (0 < k1 < k2 <= NMAX)
    pre: 0 <= mid <= 3
    post: _
    """
    return ok(_scenario('mem', 0, k1, k2, raises, mid, 0))
HARNESSES.append('mem_ro')


def mem_opt(k1: int, k2: int, raises: bool, mid: int) -> bool:
    """
    pre: 0 <= k1 <= NMAX
    pre: (k2 == 0) or (0 < k1 < k2 <= NMAX)
    pre: 0 <= mid <= 3
    post: _
    """
    return ok(_scenario('mem', 1, k1, k2, raises, mid, 0))
HARNESSES.append('mem_opt')


def mem_imm(k1: int, k2: int, raises: bool, mid: int) -> bool:
    """
    pre: 0 <= k1 <= NMAX
    pre: (k2 == 0) or (0 < k1 < k2 <= NMAX)
    pre: 0 <= mid <= 3
    post: _
    """
    return ok(_scenario('mem', 2, k1, k2, raises, mid, 0))
HARNESSES.append('mem_imm')


def mem_ser(k1: int, k2: int, raises: bool, mid: int) -> bool:
    """
    pre: 0 <= k1 <= NMAX
    pre: (k2 == 0) or (0 < k1 < k2 <= NMAX)
    pre: 0 <= mid <= 3
    post: _
    """
    return ok(_scenario('mem', 3, k1, k2, raises, mid, 0))
HARNESSES.append('mem_ser')


def mem_ddl(k1: int, k2: int, raises: bool, mid: int) -> bool:
    """
    pre: 0 <= k1 <= NMAX
    pre: (k2 == 0) or (0 < k1 < k2 <= NMAX)
    pre: 0 <= mid <= 3
    post: _
    """
    return ok(_scenario('mem', 4, k1, k2, raises, mid, 0))
HARNESSES.append('mem_ddl')


def pg_ro(k1: int, k2: int, raises: bool, mid: int) -> bool:
    """
    pre: 0 <= k1 <= NMAX
    pre: (k2 == 0) or (0 < k1 < k2 <= NMAX)
    pre: 0 <= mid <= 3
    post: _
    """
    return ok(_scenario('pg', 0, k1, k2, raises, mid, 0))
HARNESSES.append('pg_ro')


def pg_opt(k1: int, k2: int, raises: bool, mid: int) -> bool:
    """
    pre: 0 <= k1 <= NMAX
    pre: (k2 == 0) or (0 < k1 < k2 <= NMAX)
    pre: 0 <= mid <= 3
    post: _
    """
    return ok(_scenario('pg', 1, k1, k2, raises, mid, 0))
HARNESSES.append('pg_opt')


def pg_imm(k1: int, k2: int, raises: bool, mid: int) -> bool:
    """
    pre: 0 <= k1 <= NMAX
    pre: (k2 == 0) or (0 < k1 < k2 <= NMAX)
    pre: 0 <= mid <= 3
    post: _
    """
    return ok(_scenario('pg', 2, k1, k2, raises, mid, 0))
HARNESSES.append('pg_imm')


def pg_ser(k1: int, k2: int, raises: bool, mid: int) -> bool:
    """
    pre: 0 <= k1 <= NMAX
    pre: (k2 == 0) or (0 < k1 < k2 <= NMAX)
    pre: 0 <= mid <= 3
    post: _
    """
    return ok(_scenario('pg', 3, k1, k2, raises, mid, 0))
HARNESSES.append('pg_ser')


def pg_ddl(k1: int, k2: int, raises: bool, mid: int) -> bool:
    """
    pre: 0 <= k1 <= NMAX
    pre: (k2 == 0) or (0 < k1 < k2 <= NMAX)
    pre: 0 <= mid <= 3
    post: _
    """
    return ok(_scenario('pg', 4, k1, k2, raises, mid, 0))
HARNESSES.append('pg_ddl')


def exc_kinds(k1: int, kind: int, shape: int, raises: bool) -> bool:
    """
    pre: 0 <= k1 <= NMAX
    pre: 1 <= kind <= 2
    pre: 0 <= shape <= 4
    post: _
    """
    return ok(_scenario('file', shape, k1, 0, raises, 0, kind))
HARNESSES.append('exc_kinds')
