"""CrossHair harnesses for C19 - connections and the SQLite transaction lock are always released.

What runs: the real `db_session.__enter__/__exit__/_commit_or_rollback`, `commit()`, `rollback()`, `flush()`,
`Database.commit/rollback/execute/disconnect/_exec_sql`, `SessionCache.connect, reconnect,
prepare_connection_for_query_execution, flush, commit, rollback, release, close`, `SQLiteProvider.acquire_lock,
release_lock, set_transaction_mode, commit, rollback, drop, release`, `DBAPIProvider.connect, commit, rollback,
release, drop, disconnect, execute`, `wrap_dbapi_exceptions`, `Pool.connect, release, drop, disconnect`,
`SQLitePool._connect, drop, disconnect`, and for the reconnect families `PGProvider.set_transaction_mode,
should_reconnect` + `PGPool._connect, release` and `MySQLProvider.set_transaction_mode, release, should_reconnect`
(over the base `Pool`), all on top of the recording fake DB-API of engine/fakedb.py.  No database engine runs.

Symbolic (decided by CrossHair/z3): the numbers k1 < k2 (< k3 in the thorough tier) of the DB-API calls that fail
(0 = no fault; calls are numbered from the first `connect` of the scenario: connect, cursor, execute, executemany,
commit, rollback, close - the PRAGMA statements SQLitePool._connect issues on a fresh connection are numbered like
any other execute), whether the session body raises, what the body does between its two pieces of work (`mid`:
nothing / commit() / rollback() / flush() / db.commit() / db.rollback() / a raw db.execute() / a nested db_session)
and the class of the injected exception (`exc`: 0 = the driver's OperationalError - for PostgreSQL/MySQL with the
code that makes `should_reconnect` answer yes, so the reconnect path runs -, 1 = the driver's IntegrityError (never
reconnects), 2 = an exception that is not a DB-API error).  One harness per pool kind (SQLite file pool, SQLite
':memory:' pool, PGPool, base Pool under MySQLProvider) x session shape (read-only, optimistic write, immediate,
serializable, ddl), so that they run in parallel.

How it is executed: the scenario's only symbolic data are those numbers and flags; pony never sees them (the fake
driver compares the fault numbers with its concrete call counter in one place, Recorder.tick).  The flags are
decided at the top of `_scenario` under CrossHair's tracer; the rest runs inside `fakedb.untraced`, which switches
the opcode tracer off and re-enables it for exactly that comparison, so CrossHair forks the path there as usual
("call n is the faulted one" / "is not") and the verdict is still "Confirmed over all paths" of that decision tree;
a path costs ~5 ms instead of ~0.6 s, which is what makes two and three fault positions affordable.  (Fully traced,
the single-session / two-fault version of one harness did not confirm within 150 s.)

Scenario per explored path: session A (faults armed) -> state check -> [thorough tier: session A2 of the same shape
with the faults still armed, so that a later fault can hit the session that follows a damaged one -> state check] ->
faults disarmed -> session B, a plain immediate write session in the same thread ("a following session") -> state
check -> (SQLite) session C in a different thread -> db.disconnect() -> final accounting.
Quick tier: two fault positions for exception class 0, one for classes 1 and 2 (~1500-1900 paths per harness).
Thorough tier: A2 armed and a third position for class 0 with mid <= 3.  C19_FULL=1 (manual) additionally allows
position pairs for classes 1 and 2 (measured with A2 armed: file_opt 11650 paths / 438 s, with the third position
17250 paths / 690 s, both confirmed).

Reference statement of the property (functions `_state_ok`, `_scenario_body`):
  R1 the provider's transaction lock and pre-transaction lock are free; no acquire ever found the lock held
     (the locks are real threading.Lock objects behind fakedb.ProbeLock, which probes with acquire(False) and raises
     instead of hanging); no release hit a free lock; acquire and release counts agree;
  R2 `local.db2cache` is empty, `local.db_session` is None, the context counter is 0;
  R3 every connection ever opened is either the pool's current connection - then close() was never called on it
     and it carries no open transaction - or close() was called on it exactly once; nothing was called on a
     connection after its close();
  R4 every checkout from the pool (`pool.connect()`) was answered by exactly one `pool.release()`-or-`pool.drop()`
     (counted by a subclass of the real pool class that only counts and delegates);
  R5 the following sessions B (same thread) and C (other thread, sharing the provider and its lock) raise nothing
     and commit;
  R6 after db.disconnect() a file/server pool holds no connection and every connection was closed exactly once
     (the ':memory:' pool keeps its only connection by design: closing it would destroy the database).
An exception from the faulted sessions themselves is always acceptable (the property is about what is left behind).

Fake-driver semantics that matter (assumptions): a faulted call has no effect (a failed commit()/rollback() leaves
the transaction open; a failed close() leaves the handle open but counts as the one close); SQLite model: a
transaction exists between an executed BEGIN and commit()/rollback(), and BEGIN inside an open transaction raises
OperationalError as SQLite does - that is how a transaction left open on a pooled connection makes a later session
fail; PEP 249 model for PostgreSQL/MySQL: any execute outside autocommit opens a transaction.

One tolerated leftover, ':memory:' pool only: when rollback() is refused twice in a row on the only connection
(SessionCache.close's rollback and SQLitePool.drop's retry) the transaction stays open; the pool cannot close that
connection without destroying the database, so no code could do better; the path ends there.

Per-thread pool state: the SQLite harnesses start from the state of the thread that bound the database
(`pool.pid` set, as DBAPIProvider.__init__ leaves it).  `fresh_thread_file` starts from a thread that never
connected (`SQLitePool.__init__` does not set `pid`) and is where the partial-connect defect shows (see classify()
in checks/c19.py).
"""
import os
from engine.ch import ok
from engine import fakedb as F

NMAX = int(os.environ.get('C19_NMAX', '80'))          # fault numbers range over 0..NMAX; every armed call is below it (checked)
K3MAX = int(os.environ.get('C19_K3MAX', '0'))         # thorough tier: a third fault position (set to NMAX)
ARMED2 = os.environ.get('C19_ARMED2') == '1'          # thorough tier: a second session of the same shape runs with the faults still armed
FULL = os.environ.get('C19_FULL') == '1'              # manual: fault pairs for every exception class (tiers: pairs only for class 0)
K3FULL = os.environ.get('C19_K3FULL') == '1'          # (not used by any tier: the third position for every mid/exception class)
MIDS = 8

rec = None
DBS = {}
FRESH_THREAD = [False]
STRICT_STALE = [False]
LAST = {}          # diagnostics of the last scenario (for replay output)


class BodyError(Exception):
    pass


def _counting(cls):
    class Counting(cls):
        def connect(pool):
            r = cls.connect(pool)
            pool.__dict__['checkouts'] = pool.__dict__.get('checkouts', 0) + 1
            return r
        def release(pool, con):
            pool.__dict__['returns'] = pool.__dict__.get('returns', 0) + 1
            pool.__dict__['in_release'] = True
            try: return cls.release(pool, con)
            finally: pool.__dict__['in_release'] = False
        def drop(pool, con):
            if not pool.__dict__.get('in_release'):
                pool.__dict__['returns'] = pool.__dict__.get('returns', 0) + 1
            return cls.drop(pool, con)
    Counting.__name__ = cls.__name__
    return Counting


KIND = {'file': 'sqlite-file', 'mem': 'sqlite-memory', 'pg': 'postgres', 'my': 'mysql'}


STALE = []          # connections returned by prepare_connection_for_query_execution that were not the cache's connection


def _watch_prepare():
    """Delegating wrapper (no behaviour change) around SessionCache.prepare_connection_for_query_execution that notes
    when the returned connection is not `cache.connection` any more - the known region, see module docstring."""
    from pony.orm import core
    orig = core.SessionCache.prepare_connection_for_query_execution
    if getattr(orig, '_c19_watch', False): return

    def prepare_connection_for_query_execution(cache):
        con = orig(cache)
        if con is not cache.connection: STALE.append(con)
        return con
    prepare_connection_for_query_execution._c19_watch = True
    prepare_connection_for_query_execution._c19_orig = orig
    core.SessionCache.prepare_connection_for_query_execution = prepare_connection_for_query_execution


def setup():
    """Once per worker process: stub the clock, build the databases, warm pony's caches with one unfaulted run
    of every shape (so that every explored path sees the same cached translators)."""
    global rec
    if rec is not None:
        return
    from pony.orm import core
    core.time = lambda: 0.0
    _watch_prepare()
    rec = F.Recorder()
    for k in KIND:
        DBS[k] = F.make_database(KIND[k], rec, wrap_pool=_counting)
    # a second SQLite file database and a second PostgreSQL database for the sessions that span two databases
    DBS['file2'] = F.make_database('sqlite-file', rec, wrap_pool=_counting)
    DBS['file2'].provider.pool.filename = '/verif-fake/db2.sqlite'
    DBS['pg2'] = F.make_database('postgres', rec, wrap_pool=_counting)
    for pair in TWO:
        for mid in range(4):
            for shape in (1, 2):
                r = _scenario2(pair, shape, 0, 0, False, mid, 0)
                assert r, (pair, shape, mid, LAST)
    for kind in KIND:
        for shape in range(5):
            for mid in range(MIDS):
                r = _scenario(kind, shape, 0, 0, 0, False, mid, 0)
                assert r, (kind, shape, mid, LAST)


def _reset(kind, faults, exc_kind):
    db = DBS[kind]
    pool = db.provider.pool
    pool.con = None
    for name in ('pid', 'checkouts', 'returns', 'in_release'):
        pool.__dict__.pop(name, None)
    rec.reset(faults=faults, exc_factory=F.driver_exc_factory(KIND[kind], exc_kind))
    if kind in ('file', 'mem'):
        F.patch_sqlite_driver(rec)
        F.reset_sqlite_database(db)
        if not FRESH_THREAD[0]:
            pool.pid = os.getpid()     # the state of the thread that bound the database (provider.__init__ connected once)
    else:
        pool.pid = None
        F.reset_session_state(db)
    return db


SHAPES = ('ro', 'opt', 'imm', 'ser', 'ddl')
SESSION_KW = {'imm': dict(immediate=True), 'ser': dict(serializable=True), 'ddl': dict(ddl=True)}


def _session(db, shape, raises, mid, base_id):
    from pony.orm import db_session, select, commit, rollback, flush
    T = db.T
    name = SHAPES[shape]

    def work(i):
        if name == 'ddl':
            db.execute('CREATE TABLE x%d (a INTEGER)' % (base_id + i))
        else:
            select(t for t in T)[:]
            if name != 'ro': T(id=base_id + i, a=i)
    with db_session(**SESSION_KW.get(name, {})):
        work(0)
        if mid == 1: commit()
        elif mid == 2: rollback()
        elif mid == 3: flush()
        elif mid == 4: db.commit()
        elif mid == 5: db.rollback()
        elif mid == 6: db.execute('UPDATE T SET a = a + 1')
        if mid == 7:
            with db_session:
                work(1)
        elif mid: work(1)
        if raises: raise BodyError()


def _locks_ok(db, why):
    prov = db.provider
    if not hasattr(prov, 'transaction_lock'): return True
    tl, pl = prov.transaction_lock, prov.pre_transaction_lock
    if tl.locked(): why.append('transaction_lock left held')
    if pl.locked(): why.append('pre_transaction_lock left held')
    if tl.blocked or pl.blocked: why.append('a session would have blocked on the lock')
    if tl.bad_release or pl.bad_release: why.append('release of a free lock')
    if tl.acquired != tl.released or pl.acquired != pl.released: why.append('acquire/release count differs')
    return not why


def _memory_rollback_refused_twice(db, con):
    """The one tolerated leftover (see module docstring)."""
    if db is not DBS['mem']: return False
    ev = [e for e in rec.log if e.con is con and e.op == 'rollback']
    return len(ev) >= 2 and ev[-1].faulted and ev[-2].faulted and ev[-1].n == rec.log[-1].n


def _state_ok(db, why, pool=None, connections=None):
    from pony.orm import core
    _locks_ok(db, why)
    if core.local.db2cache: why.append('db2cache not empty')
    if core.local.db_session is not None or core.local.db_context_counter: why.append('db_session state left')
    pool = pool or db.provider.pool
    for con in (rec.connections if connections is None else connections):
        if con.calls_after_close and not (con in STALE and not STRICT_STALE[0]):
            why.append('c%d used after close' % con.id)
        if con.close_calls > 1: why.append('c%d closed %d times' % (con.id, con.close_calls))
        if con is pool.con:
            if con.close_calls: why.append('closed c%d left in the pool' % con.id)
            if con.in_tx and not _memory_rollback_refused_twice(db, con):
                why.append('pooled c%d has an open transaction' % con.id)
        elif con.close_calls != 1: why.append('c%d neither pooled nor closed' % con.id)
    if pool.__dict__.get('checkouts', 0) != pool.__dict__.get('returns', 0):
        why.append('checkouts %r != returns %r' % (pool.__dict__.get('checkouts', 0), pool.__dict__.get('returns', 0)))
    return not why


def _say(result):
    """When run from a replay script (replays/.../violation_NN.py): print why the scenario failed and the call journal."""
    import sys
    if not result and 'violation_' in (sys.argv[0] if sys.argv else ''):
        print('reasons: %s' % '; '.join(LAST.get('why', ())))
        print('DB-API call journal: %s' % rec.dump())


def _scenario(kind, shape, k1, k2, k3, raises, mid, exc_kind):
    # decide the small symbolic options here, under tracing; the fault numbers stay symbolic
    raises = True if raises else False
    mid = 0 if mid == 0 else 1 if mid == 1 else 2 if mid == 2 else 3 if mid == 3 else 4 if mid == 4 else 5 if mid == 5 else 6 if mid == 6 else 7
    shape = 0 if shape == 0 else 1 if shape == 1 else 2 if shape == 2 else 3 if shape == 3 else 4
    exc_kind = 0 if exc_kind == 0 else 1 if exc_kind == 1 else 2
    with F.untraced(rec):
        r = _scenario_body(kind, shape, (k1, k2, k3), raises, mid, exc_kind)
    _say(r)
    return r


COUNT = [0]


def _other_thread_session(db, kind, why):
    """Session C: a plain immediate write session in a thread that never used this database (its own pool state and
    connection, the shared provider lock).  No fault is armed, so no symbolic decision happens in that thread."""
    import threading
    before = len(rec.connections)
    out = []

    def run():
        from pony.orm import core
        try:
            _session(db, 2, False, 0, 40)
            pool = db.provider.pool                # this thread's pool state
            w = []
            _state_ok(db, w, pool, rec.connections[before:])
            db.disconnect()
            out.extend(w)
            out.append(None)
        except Exception as e:
            out.append('session in another thread failed: %s: %s' % (type(e).__name__, e))
    t = threading.Thread(target=run)
    t.start()
    t.join(20)
    if t.is_alive():
        why.append('session in another thread hangs')
        return False
    bad = [x for x in out if x]
    if bad or not out:
        why.extend(bad or ['other thread produced nothing'])
        return False
    mine = rec.connections[before:]
    if kind != 'mem' and [c for c in mine if c.close_calls != 1]:
        why.append('connection of the other thread not closed exactly once')
        return False
    del rec.connections[before:]        # the other thread's connections are accounted for; keep this thread's list
    return True


def _scenario_body(kind, shape, faults, raises, mid, exc_kind):
    COUNT[0] += 1
    del STALE[:]
    db = _reset(kind, faults, exc_kind)
    why = []
    LAST.clear(); LAST.update(why=why, rec=rec)
    for nth in ((0, 1) if ARMED2 else (0,)):
        try:
            if nth == 0: _session(db, shape, raises, mid, 10)
            else: _session(db, shape, False, 0, 20)
        except Exception:
            pass
        if not _state_ok(db, why): return False
        if any(c.in_tx for c in rec.connections): return True      # only the tolerated ':memory:' case gets here
    if rec.n > NMAX:
        why.append('harness bound: %d armed calls > NMAX' % rec.n)
        return False
    rec.armed = False
    rec.phase = 1
    try:
        _session(db, 2, False, 0, 30)        # following session B: plain immediate write, same thread
    except Exception as e:
        why.append('following session failed: %s: %s' % (type(e).__name__, e))
        return False
    if not _state_ok(db, why): return False
    if not [e for e in rec.log if e.phase == 1 and e.op == 'commit']:
        why.append('following session did not commit')
        return False
    if kind in ('file', 'mem'):
        rec.phase = 2
        if not _other_thread_session(db, kind, why): return False
        if not _locks_ok(db, why): return False
    try:
        db.disconnect()
    except Exception as e:
        why.append('disconnect failed: %r' % (e,))
        return False
    if kind != 'mem':
        if db.provider.pool.con is not None: why.append('pool keeps a connection after disconnect')
        for con in rec.connections:
            if con.close_calls != 1: why.append('c%d close_calls=%d at the end' % (con.id, con.close_calls))
    else:
        for con in rec.connections:
            if con is not db.provider.pool.con and con.close_calls != 1: why.append('c%d lost' % con.id)
    return not why


# ---------------------------------------------------------------------------------------------- sessions over two databases
TWO = {'two_file': ('file', 'file2'), 'two_pg': ('pg', 'pg2'), 'two_mixed': ('file', 'pg')}


def _cons_of(db):
    """the connections the database's pool opened (SQLite: told apart by file name; PostgreSQL: by the pool's driver module)"""
    pool = db.provider.pool
    if hasattr(pool, 'filename'): return [c for c in rec.connections if c.connect_args[0][:1] == (pool.filename,)]
    return [c for c in rec.connections if getattr(c, 'module', None) is pool.dbapi_module]


def _session2(dbs, shape, raises, mid, base_id):
    from pony.orm import db_session, select, commit, rollback, flush
    name = SHAPES[shape]

    def work(i):
        for db in dbs:
            select(t for t in db.T)[:]
            db.T(id=base_id + i, a=i)
    with db_session(**SESSION_KW.get(name, {})):
        work(0)
        if mid == 1: commit()
        elif mid == 2: rollback()
        elif mid == 3: flush()
        if mid: work(1)
        if raises: raise BodyError()


def _scenario2(pair, shape, k1, k2, raises, mid, exc_kind):
    raises = True if raises else False
    mid = 0 if mid == 0 else 1 if mid == 1 else 2 if mid == 2 else 3
    shape = 1 if shape == 1 else 2
    exc_kind = 0 if exc_kind == 0 else 1 if exc_kind == 1 else 2
    with F.untraced(rec):
        r = _scenario2_body(pair, shape, (k1, k2, 0), raises, mid, exc_kind)
    _say(r)
    return r


def _scenario2_body(pair, shape, faults, raises, mid, exc_kind):
    COUNT[0] += 1
    del STALE[:]
    kinds = TWO[pair]
    dbs = [_reset(k if k in KIND else {'file2': 'file', 'pg2': 'pg'}[k], (), 0) if False else None for k in kinds]
    dbs = []
    for k in kinds:
        base = {'file2': 'file', 'pg2': 'pg'}.get(k, k)
        db = DBS[k]
        pool = db.provider.pool
        pool.con = None
        for name in ('pid', 'checkouts', 'returns', 'in_release'): pool.__dict__.pop(name, None)
        dbs.append((k, base, db))
    rec.reset(faults=faults, exc_factory=F.driver_exc_factory(KIND[dbs[0][1]], exc_kind))
    for k, base, db in dbs:
        if base == 'file':
            F.patch_sqlite_driver(rec)
            F.reset_sqlite_database(db)
            db.provider.pool.pid = os.getpid()
        else:
            db.provider.pool.pid = None
            F.reset_session_state(db)
    why = []
    LAST.clear(); LAST.update(why=why, rec=rec)
    the_dbs = [db for _, _, db in dbs]
    try:
        _session2(the_dbs, shape, raises, mid, 10)
    except Exception:
        pass
    for k, base, db in dbs:
        w = []
        _state_ok(db, w, None, _cons_of(db))
        why.extend('%s: %s' % (k, x) for x in w)
    if why: return False
    if rec.n > NMAX:
        why.append('harness bound: %d armed calls > NMAX' % rec.n)
        return False
    rec.armed = False
    rec.phase = 1
    try:
        _session2(the_dbs, 2, False, 0, 30)          # following session over both databases, same thread
    except Exception as e:
        why.append('following session failed: %s: %s' % (type(e).__name__, e))
        return False
    for k, base, db in dbs:
        w = []
        _state_ok(db, w, None, _cons_of(db))
        why.extend('%s after the following session: %s' % (k, x) for x in w)
    if why: return False
    if len([e for e in rec.log if e.phase == 1 and e.op == 'commit']) < 2:
        why.append('following session did not commit both databases')
        return False
    for k, base, db in dbs:
        if base == 'file':
            rec.phase = 2
            mine = list(rec.connections)
            if not _other_thread_session(db, 'file', why): return False
            if not _locks_ok(db, why): return False
    for k, base, db in dbs:
        try: db.disconnect()
        except Exception as e:
            why.append('disconnect failed: %r' % (e,)); return False
        if db.provider.pool.con is not None: why.append('%s: pool keeps a connection after disconnect' % k)
        for con in _cons_of(db):
            if con.close_calls != 1: why.append('%s: c%d close_calls=%d at the end' % (k, con.id, con.close_calls))
    return not why


def explain(fn, **kw):
    """for replays / debugging: run a harness untraced and return (result, reasons, call journal)"""
    r = globals()[fn](**kw)
    return r, list(LAST.get('why', ())), rec.dump()


HARNESSES = []

# One explicit function per pool kind x session shape (CrossHair reads the conditions from the source text).

def file_ro(k1: int, k2: int, k3: int, raises: bool, mid: int, exc: int) -> bool:
    """
    pre: 0 <= k1 <= NMAX
    pre: (k2 == 0) or (0 < k1 < k2 <= NMAX)
    pre: (k3 == 0) or (0 < k2 < k3 <= K3MAX)
    pre: k3 == 0 or K3FULL or (exc == 0 and mid <= 3)
    pre: 0 <= mid < MIDS
    pre: 0 <= exc <= 2
    pre: FULL or exc == 0 or k2 == 0
    post: _
    """
    return ok(_scenario('file', 0, k1, k2, k3, raises, mid, exc))
HARNESSES.append('file_ro')


def file_opt(k1: int, k2: int, k3: int, raises: bool, mid: int, exc: int) -> bool:
    """
    pre: 0 <= k1 <= NMAX
    pre: (k2 == 0) or (0 < k1 < k2 <= NMAX)
    pre: (k3 == 0) or (0 < k2 < k3 <= K3MAX)
    pre: k3 == 0 or K3FULL or (exc == 0 and mid <= 3)
    pre: 0 <= mid < MIDS
    pre: 0 <= exc <= 2
    pre: FULL or exc == 0 or k2 == 0
    post: _
    """
    return ok(_scenario('file', 1, k1, k2, k3, raises, mid, exc))
HARNESSES.append('file_opt')


def file_imm(k1: int, k2: int, k3: int, raises: bool, mid: int, exc: int) -> bool:
    """
    pre: 0 <= k1 <= NMAX
    pre: (k2 == 0) or (0 < k1 < k2 <= NMAX)
    pre: (k3 == 0) or (0 < k2 < k3 <= K3MAX)
    pre: k3 == 0 or K3FULL or (exc == 0 and mid <= 3)
    pre: 0 <= mid < MIDS
    pre: 0 <= exc <= 2
    pre: FULL or exc == 0 or k2 == 0
    post: _
    """
    return ok(_scenario('file', 2, k1, k2, k3, raises, mid, exc))
HARNESSES.append('file_imm')


def file_ser(k1: int, k2: int, k3: int, raises: bool, mid: int, exc: int) -> bool:
    """
    pre: 0 <= k1 <= NMAX
    pre: (k2 == 0) or (0 < k1 < k2 <= NMAX)
    pre: (k3 == 0) or (0 < k2 < k3 <= K3MAX)
    pre: k3 == 0 or K3FULL or (exc == 0 and mid <= 3)
    pre: 0 <= mid < MIDS
    pre: 0 <= exc <= 2
    pre: FULL or exc == 0 or k2 == 0
    post: _
    """
    return ok(_scenario('file', 3, k1, k2, k3, raises, mid, exc))
HARNESSES.append('file_ser')


def file_ddl(k1: int, k2: int, k3: int, raises: bool, mid: int, exc: int) -> bool:
    """
    pre: 0 <= k1 <= NMAX
    pre: (k2 == 0) or (0 < k1 < k2 <= NMAX)
    pre: (k3 == 0) or (0 < k2 < k3 <= K3MAX)
    pre: k3 == 0 or K3FULL or (exc == 0 and mid <= 3)
    pre: 0 <= mid < MIDS
    pre: 0 <= exc <= 2
    pre: FULL or exc == 0 or k2 == 0
    post: _
    """
    return ok(_scenario('file', 4, k1, k2, k3, raises, mid, exc))
HARNESSES.append('file_ddl')


def mem_ro(k1: int, k2: int, k3: int, raises: bool, mid: int, exc: int) -> bool:
    """
    pre: 0 <= k1 <= NMAX
    pre: (k2 == 0) or (0 < k1 < k2 <= NMAX)
    pre: (k3 == 0) or (0 < k2 < k3 <= K3MAX)
    pre: k3 == 0 or K3FULL or (exc == 0 and mid <= 3)
    pre: 0 <= mid < MIDS
    pre: 0 <= exc <= 2
    pre: FULL or exc == 0 or k2 == 0
    post: _
    """
    return ok(_scenario('mem', 0, k1, k2, k3, raises, mid, exc))
HARNESSES.append('mem_ro')


def mem_opt(k1: int, k2: int, k3: int, raises: bool, mid: int, exc: int) -> bool:
    """
    pre: 0 <= k1 <= NMAX
    pre: (k2 == 0) or (0 < k1 < k2 <= NMAX)
    pre: (k3 == 0) or (0 < k2 < k3 <= K3MAX)
    pre: k3 == 0 or K3FULL or (exc == 0 and mid <= 3)
    pre: 0 <= mid < MIDS
    pre: 0 <= exc <= 2
    pre: FULL or exc == 0 or k2 == 0
    post: _
    """
    return ok(_scenario('mem', 1, k1, k2, k3, raises, mid, exc))
HARNESSES.append('mem_opt')


def mem_imm(k1: int, k2: int, k3: int, raises: bool, mid: int, exc: int) -> bool:
    """
    pre: 0 <= k1 <= NMAX
    pre: (k2 == 0) or (0 < k1 < k2 <= NMAX)
    pre: (k3 == 0) or (0 < k2 < k3 <= K3MAX)
    pre: k3 == 0 or K3FULL or (exc == 0 and mid <= 3)
    pre: 0 <= mid < MIDS
    pre: 0 <= exc <= 2
    pre: FULL or exc == 0 or k2 == 0
    post: _
    """
    return ok(_scenario('mem', 2, k1, k2, k3, raises, mid, exc))
HARNESSES.append('mem_imm')


def mem_ser(k1: int, k2: int, k3: int, raises: bool, mid: int, exc: int) -> bool:
    """
    pre: 0 <= k1 <= NMAX
    pre: (k2 == 0) or (0 < k1 < k2 <= NMAX)
    pre: (k3 == 0) or (0 < k2 < k3 <= K3MAX)
    pre: k3 == 0 or K3FULL or (exc == 0 and mid <= 3)
    pre: 0 <= mid < MIDS
    pre: 0 <= exc <= 2
    pre: FULL or exc == 0 or k2 == 0
    post: _
    """
    return ok(_scenario('mem', 3, k1, k2, k3, raises, mid, exc))
HARNESSES.append('mem_ser')


def mem_ddl(k1: int, k2: int, k3: int, raises: bool, mid: int, exc: int) -> bool:
    """
    pre: 0 <= k1 <= NMAX
    pre: (k2 == 0) or (0 < k1 < k2 <= NMAX)
    pre: (k3 == 0) or (0 < k2 < k3 <= K3MAX)
    pre: k3 == 0 or K3FULL or (exc == 0 and mid <= 3)
    pre: 0 <= mid < MIDS
    pre: 0 <= exc <= 2
    pre: FULL or exc == 0 or k2 == 0
    post: _
    """
    return ok(_scenario('mem', 4, k1, k2, k3, raises, mid, exc))
HARNESSES.append('mem_ddl')


def pg_ro(k1: int, k2: int, k3: int, raises: bool, mid: int, exc: int) -> bool:
    """
    pre: 0 <= k1 <= NMAX
    pre: (k2 == 0) or (0 < k1 < k2 <= NMAX)
    pre: (k3 == 0) or (0 < k2 < k3 <= K3MAX)
    pre: k3 == 0 or K3FULL or (exc == 0 and mid <= 3)
    pre: 0 <= mid < MIDS
    pre: 0 <= exc <= 2
    pre: FULL or exc == 0 or k2 == 0
    post: _
    """
    return ok(_scenario('pg', 0, k1, k2, k3, raises, mid, exc))
HARNESSES.append('pg_ro')


def pg_opt(k1: int, k2: int, k3: int, raises: bool, mid: int, exc: int) -> bool:
    """
    pre: 0 <= k1 <= NMAX
    pre: (k2 == 0) or (0 < k1 < k2 <= NMAX)
    pre: (k3 == 0) or (0 < k2 < k3 <= K3MAX)
    pre: k3 == 0 or K3FULL or (exc == 0 and mid <= 3)
    pre: 0 <= mid < MIDS
    pre: 0 <= exc <= 2
    pre: FULL or exc == 0 or k2 == 0
    post: _
    """
    return ok(_scenario('pg', 1, k1, k2, k3, raises, mid, exc))
HARNESSES.append('pg_opt')


def pg_imm(k1: int, k2: int, k3: int, raises: bool, mid: int, exc: int) -> bool:
    """
    pre: 0 <= k1 <= NMAX
    pre: (k2 == 0) or (0 < k1 < k2 <= NMAX)
    pre: (k3 == 0) or (0 < k2 < k3 <= K3MAX)
    pre: k3 == 0 or K3FULL or (exc == 0 and mid <= 3)
    pre: 0 <= mid < MIDS
    pre: 0 <= exc <= 2
    pre: FULL or exc == 0 or k2 == 0
    post: _
    """
    return ok(_scenario('pg', 2, k1, k2, k3, raises, mid, exc))
HARNESSES.append('pg_imm')


def pg_ser(k1: int, k2: int, k3: int, raises: bool, mid: int, exc: int) -> bool:
    """
    pre: 0 <= k1 <= NMAX
    pre: (k2 == 0) or (0 < k1 < k2 <= NMAX)
    pre: (k3 == 0) or (0 < k2 < k3 <= K3MAX)
    pre: k3 == 0 or K3FULL or (exc == 0 and mid <= 3)
    pre: 0 <= mid < MIDS
    pre: 0 <= exc <= 2
    pre: FULL or exc == 0 or k2 == 0
    post: _
    """
    return ok(_scenario('pg', 3, k1, k2, k3, raises, mid, exc))
HARNESSES.append('pg_ser')


def pg_ddl(k1: int, k2: int, k3: int, raises: bool, mid: int, exc: int) -> bool:
    """
    pre: 0 <= k1 <= NMAX
    pre: (k2 == 0) or (0 < k1 < k2 <= NMAX)
    pre: (k3 == 0) or (0 < k2 < k3 <= K3MAX)
    pre: k3 == 0 or K3FULL or (exc == 0 and mid <= 3)
    pre: 0 <= mid < MIDS
    pre: 0 <= exc <= 2
    pre: FULL or exc == 0 or k2 == 0
    post: _
    """
    return ok(_scenario('pg', 4, k1, k2, k3, raises, mid, exc))
HARNESSES.append('pg_ddl')


def my_ro(k1: int, k2: int, k3: int, raises: bool, mid: int, exc: int) -> bool:
    """
    pre: 0 <= k1 <= NMAX
    pre: (k2 == 0) or (0 < k1 < k2 <= NMAX)
    pre: (k3 == 0) or (0 < k2 < k3 <= K3MAX)
    pre: k3 == 0 or K3FULL or (exc == 0 and mid <= 3)
    pre: 0 <= mid < MIDS
    pre: 0 <= exc <= 2
    pre: FULL or exc == 0 or k2 == 0
    post: _
    """
    return ok(_scenario('my', 0, k1, k2, k3, raises, mid, exc))
HARNESSES.append('my_ro')


def my_opt(k1: int, k2: int, k3: int, raises: bool, mid: int, exc: int) -> bool:
    """
    pre: 0 <= k1 <= NMAX
    pre: (k2 == 0) or (0 < k1 < k2 <= NMAX)
    pre: (k3 == 0) or (0 < k2 < k3 <= K3MAX)
    pre: k3 == 0 or K3FULL or (exc == 0 and mid <= 3)
    pre: 0 <= mid < MIDS
    pre: 0 <= exc <= 2
    pre: FULL or exc == 0 or k2 == 0
    post: _
    """
    return ok(_scenario('my', 1, k1, k2, k3, raises, mid, exc))
HARNESSES.append('my_opt')


def my_imm(k1: int, k2: int, k3: int, raises: bool, mid: int, exc: int) -> bool:
    """
    pre: 0 <= k1 <= NMAX
    pre: (k2 == 0) or (0 < k1 < k2 <= NMAX)
    pre: (k3 == 0) or (0 < k2 < k3 <= K3MAX)
    pre: k3 == 0 or K3FULL or (exc == 0 and mid <= 3)
    pre: 0 <= mid < MIDS
    pre: 0 <= exc <= 2
    pre: FULL or exc == 0 or k2 == 0
    post: _
    """
    return ok(_scenario('my', 2, k1, k2, k3, raises, mid, exc))
HARNESSES.append('my_imm')


def my_ser(k1: int, k2: int, k3: int, raises: bool, mid: int, exc: int) -> bool:
    """
    pre: 0 <= k1 <= NMAX
    pre: (k2 == 0) or (0 < k1 < k2 <= NMAX)
    pre: (k3 == 0) or (0 < k2 < k3 <= K3MAX)
    pre: k3 == 0 or K3FULL or (exc == 0 and mid <= 3)
    pre: 0 <= mid < MIDS
    pre: 0 <= exc <= 2
    pre: FULL or exc == 0 or k2 == 0
    post: _
    """
    return ok(_scenario('my', 3, k1, k2, k3, raises, mid, exc))
HARNESSES.append('my_ser')


def my_ddl(k1: int, k2: int, k3: int, raises: bool, mid: int, exc: int) -> bool:
    """
    pre: 0 <= k1 <= NMAX
    pre: (k2 == 0) or (0 < k1 < k2 <= NMAX)
    pre: (k3 == 0) or (0 < k2 < k3 <= K3MAX)
    pre: k3 == 0 or K3FULL or (exc == 0 and mid <= 3)
    pre: 0 <= mid < MIDS
    pre: 0 <= exc <= 2
    pre: FULL or exc == 0 or k2 == 0
    post: _
    """
    return ok(_scenario('my', 4, k1, k2, k3, raises, mid, exc))
HARNESSES.append('my_ddl')


def fresh_thread_file(k1: int, k2: int, shape: int, raises: bool) -> bool:
    """
    pre: 0 <= k1 <= NMAX
    pre: (k2 == 0) or (0 < k1 < k2 <= NMAX)
    pre: 0 <= shape <= 4
    post: _
    """
    FRESH_THREAD[0] = True
    try:
        return ok(_scenario('file', shape, k1, k2, 0, raises, 0, 0))
    finally:
        FRESH_THREAD[0] = False
HARNESSES.append('fresh_thread_file')


def reconnect_stale_pg(k1: int, k2: int, shape: int, raises: bool, mid: int) -> bool:
    """
    pre: 0 <= k1 <= NMAX
    pre: (k2 == 0) or (0 < k1 < k2 <= NMAX)
    pre: 0 <= shape <= 4
    pre: 0 <= mid < MIDS
    pre: FULL or k2 == 0 or mid <= 2
    post: _
    """
    STRICT_STALE[0] = True
    try:
        return ok(_scenario('pg', shape, k1, k2, 0, raises, mid, 0))
    finally:
        STRICT_STALE[0] = False
HARNESSES.append('reconnect_stale_pg')


def reconnect_stale_my(k1: int, k2: int, shape: int, raises: bool, mid: int) -> bool:
    """
    pre: 0 <= k1 <= NMAX
    pre: (k2 == 0) or (0 < k1 < k2 <= NMAX)
    pre: 0 <= shape <= 4
    pre: 0 <= mid < MIDS
    post: _
    """
    STRICT_STALE[0] = True
    try:
        return ok(_scenario('my', shape, k1, k2, 0, raises, mid, 0))
    finally:
        STRICT_STALE[0] = False
HARNESSES.append('reconnect_stale_my')


def two_file(k1: int, k2: int, shape: int, raises: bool, mid: int, exc: int) -> bool:
    """
    pre: 0 <= k1 <= NMAX
    pre: (k2 == 0) or (0 < k1 < k2 <= NMAX)
    pre: 1 <= shape <= 2
    pre: 0 <= mid <= 3
    pre: 0 <= exc <= 2
    pre: FULL or exc == 0 or k2 == 0
    pre: FULL or k2 == 0 or (mid <= 1 and shape == 1)
    post: _
    """
    return ok(_scenario2('two_file', shape, k1, k2, raises, mid, exc))
HARNESSES.append('two_file')


def two_pg(k1: int, k2: int, shape: int, raises: bool, mid: int, exc: int) -> bool:
    """
    pre: 0 <= k1 <= NMAX
    pre: (k2 == 0) or (0 < k1 < k2 <= NMAX)
    pre: 1 <= shape <= 2
    pre: 0 <= mid <= 3
    pre: 0 <= exc <= 2
    pre: FULL or exc == 0 or k2 == 0
    pre: FULL or k2 == 0 or (mid <= 1 and shape == 1)
    post: _
    """
    return ok(_scenario2('two_pg', shape, k1, k2, raises, mid, exc))
HARNESSES.append('two_pg')


def two_mixed(k1: int, k2: int, shape: int, raises: bool, mid: int, exc: int) -> bool:
    """
    pre: 0 <= k1 <= NMAX
    pre: (k2 == 0) or (0 < k1 < k2 <= NMAX)
    pre: 1 <= shape <= 2
    pre: 0 <= mid <= 3
    pre: 0 <= exc <= 2
    pre: FULL or exc == 0 or k2 == 0
    pre: FULL or k2 == 0 or (mid <= 1 and shape == 1)
    post: _
    """
    return ok(_scenario2('two_mixed', shape, k1, k2, raises, mid, exc))
HARNESSES.append('two_mixed')
