"""CrossHair harnesses for C21 - repeated reads in a session return the same value or fail loudly.

Environment argument: concurrent committed writers reach the reading session only through the rows its later queries
fetch.  "All interleavings with concurrent writers" is therefore replaced by "an arbitrary freshly fetched row", applied
to an object in an arbitrary observed state (one reload step; longer histories are compositions of such steps).

What runs (real code from /repo) over the recording fake DB-API of checks/h_c20.py: a real `db_session`; `E.get` (first
load); the attribute descriptors (reads / assignments build `_rbits_` / `_wbits_` / `_vals_`); a second query
(`E.select_by_sql`) whose cursor returns the SAME primary key with a symbolic new row -> `_find_by_sql_`, `_fetch_objects`,
`_parse_row_`, the real `Entity._db_set_` (comparison with `_dbvals_`, `dbvals_equal`, UnrepeatableReadError,
`db_update_reverse`), optionally inside the real `SessionCache.flush_disabled()` (the state in which pony's own internal
loads meet pending writes; without it the query's auto-flush first runs `_save_updated_`).  For one-to-one links:
`Attribute.load` of the column-less side, `Attribute.db_set` through `db_update_reverse`.

Family 1 `reload_<attr>[_noflush]` (entity E of C20: plain int a, float f, int x, volatile int v, nullable int n, reference g):
  symbolic: the attribute's own read / write flags (r, w), the flags of ALL OTHER attributes (all read? all written?),
  whether the reload happens under flush_disabled (a symbolic flag, or the `_noflush` twin harness where the harness was
  split for parallelism), the loaded row, the assigned values, the re-fetched value of that attribute (NULL shapes
  included; reference keys concrete 7 / 8 / NULL); the other columns are re-fetched as this session last left them
  (after an auto-flush: the flushed values).  `reload_two[_noflush]`: a and n change together, their four flags symbolic.
  Reference statement (function `_reload`):
    T0 the session raises nothing but UnrepeatableReadError;
    T1 every NON-VOLATILE attribute that was read or assigned before the reload: afterwards its visible value
       (`_vals_`) is the value visible before, or UnrepeatableReadError was raised;
    T2 (the design's completion, also the guard against "never refresh") an attribute neither read nor assigned - and
       the volatile attribute unless assigned - shows the re-fetched value afterwards when nothing was raised (floats:
       or keeps a value within RealConverter's relative tolerance of it);
    T3 an unchanged row raises nothing.
  `reload_g_pending` = the reference was assigned without having been read, is not flushed, and its row is re-fetched with
  another target: this used to raise KeyError out of Set.db_reverse_remove (found by this check, repaired in /repo with
  setdata.discard); kept as its own strict harness, `reload_g_noflush` covers the other states.
Family 2 `o2o_*` (entities P.partner = Optional(Q) [no column], Q.p = Optional(P) [column]):
  `p.partner` is observed, later queries fetch Q rows whose link column changed (unlink Q[10], link Q[11], both orders),
  then `p.partner` is read again.  Asserted: same value as the first read, or UnrepeatableReadError.
    o2o_relink_tracked    - the cases in which the link column Q[10].p itself had been marked as read (holds);
    o2o_relink_untracked  - Q[10] was loaded by key and Q[10].p never read   (GENUINE VIOLATION, see checks/c21.py)
    o2o_none_then_linked  - `p.partner` was observed as None                  (GENUINE DEFECT, see checks/c21.py)
Family 3 `sub_query_read` (inheritance: Person(age), Student(Person) with gpa, course; one table): a Student row becomes known
  through a query over the BASE entity whose condition uses the subclass attribute (`select(p for p in Person if p.gpa > 4)`),
  through the same condition over Student, through a base-attribute condition, or by key; optionally obj.gpa is read too; then
  the row is re-fetched with one symbolic changed column.  An attribute used by the condition of the query that returned the
  object counts as observed (EntityMeta._set_rbits must mark it per concrete class); T0-T3 as above.  The real Query /
  translator run (caches warmed in setup); HashableDict.__hash__ of the (concrete) query keys runs outside the tracer.
Collections stay outside the symbolic part; checks/c21.py carries four concrete two-connection ties for a fully loaded
one-to-many collection observed by iteration (loaded by the iteration itself / by len() / bool() / list() first).
Bounds / restructuring w.r.t. DESIGN.md:
  * the design's single kernel over fully symbolic masks and rows does not fit the budget (every changed column forks
    the path; 2^12 mask states): one attribute changes per harness (two in reload_two), the other attributes' flags are
    all-clear or all-set, which still shows any effect on a foreign attribute.  The state before the reload is built
    through the public descriptors, not by writing `_rbits_`/`_wbits_`.
  * ints: any 32-bit value.  Floats are a FINITE family (loaded 1.5, assigned -2.5, re-fetched: equal / one ulp away / just
    outside the tolerance of either / 0.0): `RealConverter.dbvals_equal` divides by max(|old|, |new|), a non-linear real
    query that z3 does not answer for symbolic floats (and CrossHair models floats as reals, not doubles).
  * quick tier: NULL shapes of the attribute under test symbolic, those of the other attributes fixed (n loaded NULL,
    g = G[7], non-NULL assignments); C21_FULL=1 (thorough) frees them and adds two more floats.
  * error-message construction inside `Entity._db_set_` / `Attribute.db_set` is stripped by engine.rewrite (extended here
    to `msg = '...' % args` assignments): rendering entities under CrossHair is slow and may recurse; nothing else
    of these functions is changed, they are re-read from /repo on every run.
Outside: fully loaded collections / phantom detection (Set.load, db_reverse_add), composite keys, lazy attributes,
histories longer than one reload step after the observation, deletes by the concurrent writer.
"""
import math, os
from typing import Tuple
from engine.ch import ok
from checks import h_c20 as K

ATTRS = K.ATTRS
LOADED_G, NEW_G = K.LOADED_G, K.NEW_G
LO, HI = K.LO, K.HI
LAST = {}
O2O = {}
_exc = K._exc


def _defang_messages():
    """Error-message construction is not the subject of the property and, under CrossHair, renders entities / symbolic values
    (repr() calls may even be short-circuited into symbolic strings).  engine.rewrite.defang strips `'...' % args` inside
    throw(); here the same rewrite is extended to the `msg = '...' % args` assignments of Attribute.db_set.  Only string
    formatting is removed; the functions are re-read from /repo on every run."""
    import ast
    from engine import rewrite
    from pony.orm import core

    class D(rewrite._Defang):
        def visit_Assign(self, node):
            self.generic_visit(node)
            if len(node.targets) == 1 and isinstance(node.targets[0], ast.Name) and node.targets[0].id == 'msg':
                node.value = self._strip(node.value)
            return node
    orig = rewrite._Defang
    rewrite._Defang = D
    try: done = rewrite.defang((core.Entity, '_db_set_'), (core.Attribute, 'db_set'))
    finally: rewrite._Defang = orig
    assert len(done) == 2, done
    return done


def setup():
    K.setup()
    if O2O: return
    _defang_messages()
    from engine import env
    from pony.orm import PrimaryKey, Optional
    e = K.Env()
    e.db = env.mock_database('sqlite')
    e.pool = K.Pool()
    e.db.provider.pool = e.pool
    e.con = e.pool.con
    db = e.db

    class P(db.Entity):
        id = PrimaryKey(int)
        partner = Optional('Q')

    class Q(db.Entity):
        id = PrimaryKey(int)
        p = Optional(P, column='p')
    e.P, e.Q, e.E = P, Q, P
    db.generate_mapping(check_tables=False)
    assert not P.partner.columns and Q.p.columns == ['p']
    O2O['env'] = e
    # inheritance: attributes that exist only in a subclass, observed through query conditions
    h = K.Env()
    h.db = env.mock_database('sqlite')
    h.pool = K.Pool()
    h.db.provider.pool = h.pool
    h.con = h.pool.con
    from pony.orm import Required

    class Person(h.db.Entity):
        id = PrimaryKey(int)
        age = Required(int)

    class Student(Person):
        gpa = Optional(int)
        course = Optional(int)
    h.Person, h.Student, h.E = Person, Student, Person
    h.db.generate_mapping(check_tables=False)
    O2O['inh'] = h
    # Query keys are HashableDicts of concrete values (no query parameter is symbolic here); CrossHair models hash(str) as a
    # symbolic int and HashableDict.__hash__ XORs such values, which realises them one by one -> hashed outside the tracer
    from pony.utils import utils as pu
    real_hash = pu.HashableDict.__hash__

    def untraced_hash(self):
        from crosshair.tracers import NoTracing, is_tracing
        if is_tracing():
            with NoTracing(): return real_hash(self)
        return real_hash(self)
    pu.HashableDict.__hash__ = untraced_hash
    for via in range(4):                      # warm the translator / SQL caches outside the tracer
        _sub(via, False, (30, 5, 1), 1, 6)
        assert LAST['before'] is not None and LAST['after'] is not None, (via, LAST)


def _reset_o2o(e):
    from pony.orm import core
    core.local.db2cache.clear()
    core.local.db_session = None
    core.local.db_context_counter = 0
    e.db._dblocal.stats = {None: core.QueryStat(None)}
    e.db._dblocal.last_sql = None
    lock = e.db.provider.transaction_lock
    if lock.locked():
        try: lock.release()
        except Exception: pass


def _eq(x, y):
    """NULL-aware equality of two visible values (entities by identity)."""
    if x is None or y is None: return x is None and y is None
    return x is y or x == y


def _nm(x):
    """Printable form of a visible value (CrossHair's `%` formatting copies its arguments; entities refuse to be copied)."""
    if x is None or isinstance(x, (int, float)): return repr(x)
    if x is K: return 'NOT LOADED'
    return type(x).__name__ + '[' + repr(x._pkval_) + ']'


def _close(x, y):
    """Within twice RealConverter.default_tolerance (relative): pony treats such database floats as unchanged."""
    d = x - y
    if d < 0: d = -d
    ax = x if x >= 0 else -x
    ay = y if y >= 0 else -y
    return d <= 2e-14 * (ax if ax >= ay else ay)


# ------------------------------------------------------------------------------------------------ family 1
REFETCH = [0]        # how the row is fetched the second time: 0 select_by_sql, 1 get_for_update(), 2 select().for_update()


def _reload(flags, rest_r, rest_w, noflush, L, N, change, lf=1.5, nf=2.5):
    """flags: {name: (read?, assigned?)} for the attributes under test; all other attributes: (rest_r, rest_w).
    L: loaded ints (a, x, v, n is NULL, n, g is NULL); N: assigned (a, x, v, n := None, n, g := None);
    change: {name: re-fetched database value} (python value; for g: None / 7 / 8)."""
    from pony.orm import db_session
    from pony.orm.core import UnrepeatableReadError
    e = K.ENVS['sqlite']
    K._reset(e)
    E, G, con = e.E, e.G, e.con
    la, lx, lv, ln_null, ln, lg_null = L
    na, nx, nv, nn_null, nn, ng_null = N
    row1 = {'id': 1, 'a': la, 'f': lf, 'x': lx, 'v': lv, 'n': None if ln_null else ln, 'g': None if lg_null else LOADED_G}
    R = {n: flags[n][0] if n in flags else rest_r for n in ATTRS}
    W = {n: flags[n][1] if n in flags else rest_w for n in ATTRS}
    written = {'a': na, 'f': nf, 'x': nx, 'v': nv, 'n': None if nn_null else nn, 'g': None if ng_null else NEW_G}
    # the row as this session last left / saw it: without flush_disabled the second query first auto-flushes the assignments
    base = dict(row1)
    if not noflush:
        for n in ATTRS:
            if W[n]: base[n] = written[n]
    row2 = dict(base)
    row2.update(change)
    st = {'loads': 0}

    def responder(sql, args):
        table, cols = _columns(sql)                  # (accepts the aliased select list of a query: "e"."id")
        if table == G._table_: return [(args[0],)], [('id',)], -1
        if table == E._table_:
            st['loads'] += 1
            row = row1 if st['loads'] == 1 else row2
            if cols == ['*']: cols = ['id'] + list(ATTRS)
            return [tuple(row[c] for c in cols)], [(c, None, None, None, None, None, None) for c in cols], -1
        if sql.startswith('UPDATE'): return [], [], 1          # the auto-flush before the second query finds its row unchanged
        return None
    con.reset(responder)
    why = []
    exc = None
    before = after = None
    try:
        with db_session:
            g7 = G[LOADED_G]
            g8 = G[NEW_G]
            obj = E.get(id=1)
            if R['a']: obj.a
            if R['f']: obj.f
            if R['x']: obj.x
            if R['v']: obj.v
            if R['n']: obj.n
            if R['g']: obj.g
            if W['a']: obj.a = na
            if W['f']: obj.f = nf
            if W['x']: obj.x = nx
            if W['v']: obj.v = nv
            if W['n']: obj.n = None if nn_null else nn
            if W['g']: obj.g = None if ng_null else g8
            before = {n: obj._vals_[e.attr[n]] for n in ATTRS}
            cache = obj._session_cache_
            try:
                if noflush:
                    with cache.flush_disabled(): E.select_by_sql('SELECT * FROM "E"', {}, {})
                elif REFETCH[0] == 1: E.get_for_update(id=1)                 # the row is read again by a LOCKING fetch
                elif REFETCH[0] == 2: E.select().for_update()[:]
                else: E.select_by_sql('SELECT * FROM "E"', {}, {})
            finally:
                after = {n: obj._vals_.get(e.attr[n], K) for n in ATTRS}
    except Exception as ex:
        exc = ex
    LAST.update(exc=exc, log=list(con.log), before=before, after=after)
    if before is None or after is None:
        LAST['why'] = ['scenario failed before the reload: %s' % _exc(exc)]
        return ok(False)
    if exc is not None and not isinstance(exc, UnrepeatableReadError): why.append('T0: %s' % _exc(exc))
    want = {'a': row2['a'], 'f': row2['f'], 'x': row2['x'], 'v': row2['v'], 'n': row2['n'],
            'g': None if row2['g'] is None else (g7 if row2['g'] == LOADED_G else g8)}
    unchanged = True
    for n in change:
        if not _eq(base[n], row2[n]): unchanged = False
    if unchanged and exc is not None: why.append('T3: unchanged row raised %s' % _exc(exc))
    if exc is None:
        for n in ATTRS:
            observed = (R[n] or W[n]) if n != 'v' else False
            if observed:
                if not _eq(after[n], before[n]): why.append('T1: %s was %s, is %s after the reload, no error' % (n, _nm(before[n]), _nm(after[n])))
            elif not (n == 'v' and W[n]):
                if n == 'f' and after[n] is not K and after[n] == before[n] and _close(before[n], want[n]): continue   # RealConverter tolerance
                if after[n] is K or not _eq(after[n], want[n]): why.append('T2: unobserved %s shows %s, database has %s' % (n, _nm(after[n]), _nm(want[n])))
    LAST['why'] = why
    return ok(not why)


LT, NT = K.LT, K.NT
B2 = Tuple[bool, bool]
FULL = os.environ.get('C21_FULL') == '1'


def _pre(L, N, own=''):
    """32-bit ints; quick tier: the NULL shapes of attributes other than the one under test are fixed (n loaded NULL, g loaded
    G[7], non-NULL assignments); C21_FULL=1 (thorough) frees them."""
    for v in (L[0], L[1], L[2], L[4], N[0], N[1], N[2], N[4]):
        if not (LO <= v <= HI): return False
    if FULL: return True
    if 'n' not in own and not (L[3] and not N[3]): return False
    if 'g' not in own and not (not L[5] and not N[5]): return False
    return True


def reload_a(f: B2, rest_r: bool, rest_w: bool, noflush: bool, L: LT, N: NT, c: int) -> bool:
    """
    pre: _pre(L, N) and LO <= c <= HI
    post: _
    """
    return _reload({'a': f}, rest_r, rest_w, noflush, L, N, {'a': c})


def reload_a_locked(f: B2, rest_r: bool, rest_w: bool, L: LT, N: NT, c: int, query: bool) -> bool:
    """
    pre: _pre(L, N) and LO <= c <= HI
    post: _
    """
    # the second fetch takes a row lock: a lock taken NOW says nothing about what happened since the first read
    REFETCH[0] = 2 if query else 1
    try: return _reload({'a': f}, rest_r, rest_w, False, L, N, {'a': c})
    finally: REFETCH[0] = 0


def reload_x(f: B2, rest_r: bool, rest_w: bool, noflush: bool, L: LT, N: NT, c: int) -> bool:
    """
    pre: _pre(L, N) and LO <= c <= HI
    post: _
    """
    return _reload({'x': f}, rest_r, rest_w, noflush, L, N, {'x': c})


def reload_v(f: B2, rest_r: bool, rest_w: bool, noflush: bool, L: LT, N: NT, c: int, c_null: bool) -> bool:
    """
    pre: _pre(L, N) and LO <= c <= HI
    post: _
    """
    return _reload({'v': f}, rest_r, rest_w, noflush, L, N, {'v': None if c_null else c})


def reload_n(f: B2, rest_r: bool, rest_w: bool, L: LT, N: NT, c: int, c_null: bool) -> bool:
    """
    pre: _pre(L, N, 'n') and LO <= c <= HI
    post: _
    """
    return _reload({'n': f}, rest_r, rest_w, False, L, N, {'n': None if c_null else c})


def reload_n_noflush(f: B2, rest_r: bool, rest_w: bool, L: LT, N: NT, c: int, c_null: bool) -> bool:
    """
    pre: _pre(L, N, 'n') and LO <= c <= HI
    post: _
    """
    return _reload({'n': f}, rest_r, rest_w, True, L, N, {'n': None if c_null else c})


def reload_g(f: B2, rest_r: bool, rest_w: bool, L: LT, N: NT, c: int) -> bool:
    """
    pre: _pre(L, N, 'g') and 0 <= c <= 2
    post: _
    """
    return _reload({'g': f}, rest_r, rest_w, False, L, N, {'g': (None, LOADED_G, NEW_G)[c]})


def reload_g_noflush(f: B2, rest_r: bool, rest_w: bool, L: LT, N: NT, c: int) -> bool:
    """
    pre: _pre(L, N, 'g') and 0 <= c <= 2
    pre: not (f[1] and not f[0])
    post: _
    """
    # excluded here and asserted strictly in reload_g_pending (known region, checks/c21.py): the reference was assigned
    # without having been read, is not flushed yet, and its row is re-fetched
    return _reload({'g': f}, rest_r, rest_w, True, L, N, {'g': (None, LOADED_G, NEW_G)[c]})


def reload_g_pending(rest_r: bool, rest_w: bool, L: LT, N: NT, c: int) -> bool:
    """
    pre: _pre(L, N, 'g') and 0 <= c <= 2
    post: _
    """
    return _reload({'g': (False, True)}, rest_r, rest_w, True, L, N, {'g': (None, LOADED_G, NEW_G)[c]})


F_LOADED, F_ASSIGNED = 1.5, -2.5
F_REFETCHED = (1.5, 1.5000000000000002, 1.50000000000003, -2.5, -2.5000000000000004, 0.0) + ((-2.4999999999999, 1e300) if FULL else ())


def reload_f(f: B2, rest_r: bool, rest_w: bool, L: LT, N: NT, k: int) -> bool:
    """
    pre: _pre(L, N) and 0 <= k < len(F_REFETCHED)
    post: _
    """
    return _reload({'f': f}, rest_r, rest_w, False, L, N, {'f': _pick(k)}, lf=F_LOADED, nf=F_ASSIGNED)


def reload_f_noflush(f: B2, rest_r: bool, rest_w: bool, L: LT, N: NT, k: int) -> bool:
    """
    pre: _pre(L, N) and 0 <= k < len(F_REFETCHED)
    post: _
    """
    # floats are a FINITE family here (loaded 1.5, assigned -2.5, re-fetched: equal / one ulp away / just outside the relative
    # tolerance 1e-14 of either, 0.0, huge): RealConverter.dbvals_equal divides by max(|old|, |new|); with a symbolic float that
    # is a non-linear real query which z3 does not answer (and CrossHair models floats as reals, not IEEE doubles)
    return _reload({'f': f}, rest_r, rest_w, True, L, N, {'f': _pick(k)}, lf=F_LOADED, nf=F_ASSIGNED)


def _pick(k):
    """F_REFETCHED[k] as a concrete float (indexing a tuple with a symbolic int would build a symbolic float)."""
    for i, v in enumerate(F_REFETCHED):
        if k == i: return v
    return F_REFETCHED[0]


def _pre_two(L, N):
    return FULL or (L[3] and not N[3])


def reload_two(fa: B2, fn: B2, L: LT, N: NT, ca: int, cn: int, cn_null: bool) -> bool:
    """
    pre: _pre(L, N, 'n') and _pre_two(L, N) and LO <= ca <= HI and LO <= cn <= HI
    post: _
    """
    return _reload({'a': fa, 'n': fn}, False, False, False, L, N, {'a': ca, 'n': None if cn_null else cn})


def reload_two_noflush(fa: B2, fn: B2, L: LT, N: NT, ca: int, cn: int, cn_null: bool) -> bool:
    """
    pre: _pre(L, N, 'n') and _pre_two(L, N) and LO <= ca <= HI and LO <= cn <= HI
    post: _
    """
    return _reload({'a': fa, 'n': fn}, False, False, True, L, N, {'a': ca, 'n': None if cn_null else cn})


# ------------------------------------------------------------------------------------------------ family 2
def _o2o(how, linked0, read_qp, change):
    """how 0: `p.partner` is read first (pony SELECTs the Q row whose p = 1); how 1: Q[10] is loaded by key first.
    linked0: Q[10].p = P[1] in the database at that time.  read_qp: the session also reads Q[10].p (how 1 only).
    change 0: Q[11] (now linked to P[1]) is fetched; 1: Q[10] (now unlinked) is fetched; 2: Q[10] then Q[11]; 3: Q[11] then Q[10]."""
    from pony.orm import db_session
    from pony.orm.core import UnrepeatableReadError
    e = O2O['env']
    _reset_o2o(e)
    P, Q, con = e.P, e.Q, e.con
    st = {'phase': 0}

    def responder(sql, args):
        table, cols = K.select_columns(sql)
        if table == P._table_: return [(args[0],)], [('id',)], -1
        if table == Q._table_:
            crit = sql[sql.index('WHERE'):]
            if '"p" =' in crit:                    # Attribute.load of the column-less side: the Q row linked to P[args[0]]
                if st['phase'] == 0: rows = [{'id': 10, 'p': 1}] if linked0 else []
                else: rows = [{'id': 11, 'p': 1}] if change != 1 else []
            else:
                k = args[0] if args else int(crit.split('=')[1])
                if cols == ['*']: cols = ['id', 'p']
                if st['phase'] == 0: rows = [{'id': k, 'p': 1 if (k == 10 and linked0) else None}]
                else: rows = [{'id': k, 'p': 1 if k == 11 and change != 1 else None}]
            return [tuple(r[c] for c in cols) for r in rows], [(c,) for c in cols], -1
        return None
    con.reset(responder)
    first = second = K
    exc = None
    try:
        with db_session:
            p = P[1]
            if how == 1:
                q10 = Q[10]
                if read_qp: q10.p
            first = p.partner
            st['phase'] = 1                        # a concurrent writer commits; later queries see its rows
            refetch_q10 = 'SELECT * FROM "Q" WHERE "id" = 10'      # (Q[10] would be answered from the identity map)
            if change == 0: Q[11]
            elif change == 1: Q.select_by_sql(refetch_q10, {}, {})
            elif change == 2: Q.select_by_sql(refetch_q10, {}, {}); Q[11]
            else: Q[11]; Q.select_by_sql(refetch_q10, {}, {})
            second = p.partner
    except Exception as ex:
        exc = ex
    LAST.update(exc=exc, log=list(con.log), first=first, second=second)
    why = []
    if first is K: why.append('scenario failed before the first read: %s' % _exc(exc))
    elif exc is not None:
        if not isinstance(exc, UnrepeatableReadError): why.append('raised %s instead of UnrepeatableReadError' % _exc(exc))
    elif second is not first: why.append('p.partner was %s, is %s on the second read, no error' % (_nm(first), _nm(second)))
    LAST['why'] = why
    return ok(not why)


def o2o_relink_tracked(how: int, read_qp: bool, change: int) -> bool:
    """
    pre: 0 <= how <= 1 and 0 <= change <= 3
    pre: how == 0 or read_qp
    post: _
    """
    return _o2o(how, True, read_qp, change)


def o2o_relink_untracked(change: int) -> bool:
    """
    pre: 0 <= change <= 3
    post: _
    """
    return _o2o(1, True, False, change)


def o2o_none_then_linked(how: int, read_qp: bool) -> bool:
    """
    pre: 0 <= how <= 1
    post: _
    """
    return _o2o(how, False, read_qp, 0)


# ------------------------------------------------------------------------------------------------ family 3
def _q_base_sub(Person): 
    from pony.orm import select
    return select(p for p in Person if p.gpa > 4)[:]


def _q_sub_sub(Student):
    from pony.orm import select
    return select(s for s in Student if s.gpa > 4)[:]


def _q_base_base(Person):
    from pony.orm import select
    return select(p for p in Person if p.age > 1)[:]


_LASTID = __import__('re').compile(r'"(\w+)"\s*$')


def _columns(sql):
    """Column names of a SELECT list that may carry table aliases (`"p"."gpa"`) or be `*`."""
    m = K._SEL.match(sql)
    if not m: return None, None
    items = m.group(1)
    if items.startswith('DISTINCT '): items = items[9:]
    cols = []
    for it in items.split(','):
        it = it.strip()
        mm = _LASTID.search(it)
        cols.append(mm.group(1) if mm else it)
    return m.group(2), cols


SUB_COLS = ('age', 'gpa', 'course')


def _sub(via, read_gpa, L, which, c):
    """Student[2] (a subclass row of the Person table) becomes known through: via 0 a query over the BASE entity whose condition
    uses the subclass attribute gpa; 1 the same condition in a query over Student; 2 a query over Person on the base attribute
    age; 3 Person.get(id=2); 4-8 keyword filters (select(age=..), select(gpa=..), filter(age=..), where(age=..), get(gpa=..)).  read_gpa: obj.gpa is also read through the descriptor.  Then the row is re-fetched with column
    SUB_COLS[which] = c.  An attribute used by the condition of the query that returned the object counts as observed (pony's
    own rule: EntityMeta._set_rbits for the attributes a query used)."""
    from pony.orm import db_session
    from pony.orm.core import UnrepeatableReadError
    h = O2O['inh']
    _reset_o2o(h)
    Person, Student, con = h.Person, h.Student, h.con
    row1 = {'id': 2, 'classtype': 'Student', 'age': L[0], 'gpa': L[1], 'course': L[2]}
    row2 = dict(row1)
    changed = 'age' if which == 0 else 'gpa' if which == 1 else 'course'     # (indexing a tuple with a symbolic int builds a symbolic str)
    row2[changed] = c
    st = {'loads': 0}

    def responder(sql, args):
        table, cols = _columns(sql)
        if table != Person._table_: return None
        st['loads'] += 1
        if cols == ['*']: cols = ['id', 'classtype', 'age', 'gpa', 'course']
        row = row1 if st['loads'] == 1 else row2
        return [tuple(row[k] for k in cols)], [(k, None, None, None, None, None, None) for k in cols], -1
    con.reset(responder)
    before = after = None
    exc = None
    try:
        with db_session:
            if via == 0: objs = _q_base_sub(Person)
            elif via == 1: objs = _q_sub_sub(Student)
            elif via == 2: objs = _q_base_base(Person)
            elif via == 3: objs = [Person.get(id=2)]
            elif via == 4: objs = Person.select(age=L[0])[:]                      # keyword filters: the condition attribute is observed
            elif via == 5: objs = Student.select(gpa=L[1])[:]
            elif via == 6: objs = Person.select().filter(age=L[0])[:]
            elif via == 7: objs = Person.select(lambda p: p.id > 0).where(age=L[0])[:]
            else: objs = [Student.get(gpa=L[1])]
            obj = objs[0]
            if read_gpa: obj.gpa
            before = {n: obj._vals_[getattr(Student, n)] for n in SUB_COLS}
            try: Person.select_by_sql('SELECT * FROM "Person"', {}, {})
            finally: after = {n: obj._vals_.get(getattr(Student, n), K) for n in SUB_COLS}
    except Exception as ex:
        exc = ex
    LAST.update(exc=exc, log=list(con.log), before=before, after=after)
    why = []
    if before is None or after is None or st['loads'] != 2:
        LAST['why'] = ['scenario failed before the reload: %s' % _exc(exc)]
        return ok(False)
    if type(obj) is not Student: why.append('row of class Student loaded as another class')
    if exc is not None and not isinstance(exc, UnrepeatableReadError): why.append('T0: %s' % _exc(exc))
    observed = {'age': via in (2, 4, 6, 7), 'gpa': read_gpa or via in (0, 1, 5, 8), 'course': False}
    if _eq(row1[changed], row2[changed]) and exc is not None: why.append('T3: unchanged row raised %s' % _exc(exc))
    if exc is None:
        for n in SUB_COLS:
            if observed[n]:
                if not _eq(after[n], before[n]): why.append('T1: %s was %s, is %s after the reload, no error' % (n, _nm(before[n]), _nm(after[n])))
            elif after[n] is K or not _eq(after[n], row2[n]): why.append('T2: unobserved %s shows %s, database has %s' % (n, _nm(after[n]), _nm(row2[n])))
    LAST['why'] = why
    return ok(not why)


def sub_query_read(via: int, read_gpa: bool, L: Tuple[int, int, int], which: int, c: int) -> bool:
    """
    pre: 0 <= via <= 3 and 0 <= which <= 2
    pre: 1 < L[0] <= HI and 4 < L[1] <= HI and LO <= L[2] <= HI and LO <= c <= HI
    post: _
    """
    return _sub(via, read_gpa, L, which, c)


def kw_query_read(via: int, read_gpa: bool, which: int, c: int) -> bool:
    """
    pre: 4 <= via <= 8 and 0 <= which <= 2
    pre: LO <= c <= HI
    post: _
    """
    # the loaded row is concrete here: its values are handed to the query as keyword-filter parameters (converter C code)
    return _sub(via, read_gpa, (3, 6, 2), which, c)


# ---------------------------------------------------------------------------------------------- collections
def _gsel(c):
    # 0 -> NULL, 1 -> the observed group, 2 -> the other group (explicit comparisons: one solver decision each)
    return None if c == 0 else (LOADED_G if c == 1 else NEW_G)


def _coll(obs, two, c1, c2, new, c3):
    """G[7].items is observed (obs 0 not at all; 1 iterated; 2 len(); 3 `E[1] in`, after a full load; 4 is_empty(): a partial look), then
    every row of E is fetched again: item 1 (and item 2, if `two`) now refer to group _gsel(c1) (_gsel(c2)), and if `new` a row never
    seen before refers to _gsel(c3).  Then the collection is read again."""
    from pony.orm import db_session
    from pony.orm.core import UnrepeatableReadError
    e = K.ENVS['sqlite']
    K._reset(e)
    E, G, con = e.E, e.G, e.con
    gcol = e.col['g']
    def row(i, g): return {'id': i, 'a': 5, 'f': 1.5, 'x': 6, 'v': 3, 'n': None, gcol: g, 'g': g}
    rows1 = [row(1, LOADED_G)] + ([row(2, LOADED_G)] if two else [])
    rows2 = [row(1, _gsel(c1))] + ([row(2, _gsel(c2))] if two else []) + ([row(3, _gsel(c3))] if new else [])
    st = {'phase': 1}

    def responder(sql, args):
        table, cols = _columns(sql)
        if table == G._table_: return [(args[0],)], [('id',)], -1
        if table == E._table_:
            rows = rows1 if st['phase'] == 1 else rows2
            if cols == ['*']: cols = ['id'] + list(ATTRS)
            if ('WHERE "%s" = ' % gcol) in sql:                      # the collection is loaded: the members of the group asked for
                want = args[0] if not isinstance(args, dict) else list(args.values())[0]
                rows = [r for r in rows if r['g'] == want]
            elif 'WHERE' in sql:                                     # a lookup by primary key
                want = args[0] if not isinstance(args, dict) else list(args.values())[0]
                rows = [r for r in rows if r['id'] == want]
            return [tuple(r[c] for c in cols) for r in rows], [(c, None, None, None, None, None, None) for c in cols], -1
        return None
    con.reset(responder)
    exc = None
    first = second = None
    done = False
    try:
        with db_session:
            g7 = G[LOADED_G]
            G[NEW_G]
            if obs == 1: first = sorted(o.id for o in g7.items)
            elif obs == 2: first = len(g7.items)
            elif obs == 3:
                g7.items.load()
                first = E[1] in g7.items
            elif obs == 4: first = g7.items.is_empty()
            st['phase'] = 2
            E.select_by_sql('SELECT * FROM "%s"' % E._table_, {}, {})
            if obs == 2: second = len(g7.items)
            elif obs == 3: second = E[1] in g7.items
            elif obs == 4: second = g7.items.is_empty()
            else: second = sorted(o.id for o in g7.items)
            done = True
    except Exception as ex:
        exc = ex
    LAST.update(exc=exc, log=list(con.log), before=first, after=second)
    why = []
    if exc is not None and not isinstance(exc, UnrepeatableReadError): why.append('T0: %s' % _exc(exc))
    members2 = sorted(r['id'] for r in rows2 if r['g'] == LOADED_G)
    members1 = sorted(r['id'] for r in rows1)
    if members2 == members1 and exc is not None: why.append('T3: unchanged membership raised %s' % _exc(exc))
    if exc is None:
        if not done: why.append('session did not finish')
        elif obs in (1, 2, 3):
            if second != first: why.append('T1: the fully loaded collection showed %r, then %r, no error' % (first, second))
        elif obs == 0:
            if second != members2: why.append('T2: unobserved collection shows %r, database has %r' % (second, members2))
    LAST['why'] = why
    return ok(not why)


def coll_reload(obs: int, two: bool, c1: int, c2: int, new: bool, c3: int) -> bool:
    """
    pre: 0 <= obs <= 4 and 0 <= c1 <= 2 and 0 <= c2 <= 2 and 0 <= c3 <= 2
    pre: two or c2 == 1
    pre: new or c3 == 0
    post: _
    """
    return _coll(obs, two, c1, c2, new, c3)


RELOAD = ['reload_a', 'reload_a_locked', 'reload_f', 'reload_f_noflush', 'reload_x', 'reload_v', 'reload_n', 'reload_n_noflush', 'reload_g', 'reload_g_noflush', 'reload_g_pending',
          'reload_two', 'reload_two_noflush']
LINKS = ['o2o_relink_tracked', 'o2o_relink_untracked', 'o2o_none_then_linked']
HARNESSES = RELOAD + LINKS + ['sub_query_read', 'kw_query_read', 'coll_reload']


def explain(fn, **kw):
    setup()
    r = globals()[fn](**kw)
    return r, list(LAST.get('why', ())), LAST.get('log')
