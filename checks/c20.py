"""C20 - optimistic concurrency control prevents lost updates.

CrossHair over whole real sessions (load, descriptor reads / assignments, commit -> `_save_updated_`) on a recording fake
DB-API.  Symbolic: the read / write bit masks, the loaded row, the assigned values and an ARBITRARY CURRENT ROW (the
environment argument that replaces "all interleavings": other sessions reach session A only through the row its
UPDATE finds).  The WHERE clause of the UPDATE text that really reached the cursor is evaluated over that symbolic row
inside the harness (SQL semantics), its verdict is fed back as `rowcount`, and the session outcome is asserted.
See checks/h_c20.py for the reference statement S1-S5, the tracking kernel, every bound and every assumption.
A concrete tie replays (R, W, attribute changed by a second real connection) on a file SQLite database.
"""
import os
from engine.core import Report, Ob, HOLDS, CEX
from engine import ch


def classify(spec, cex):
    return None


def run(tier, seed, only=None):
    from pony.orm import core
    from pony.orm import dbapiprovider as dp
    rep = Report('C20', 'other',
                 'CrossHair symbolic execution of whole real optimistic sessions over a recording fake DB-API: which attributes are '
                 'read and then assigned (= the bits of _rbits_/_wbits_), the loaded row, the assigned values and an arbitrary current '
                 'database row are symbolic. The UPDATE text + arguments that reached the cursor are parsed; asserted: SET = assigned '
                 'attributes; WHERE = primary key AND a term comparing every read, not overwritten, check-enabled attribute with the value '
                 'read (IS NULL for NULL), none for locked objects / non-optimistic sessions; evaluating that WHERE over the symbolic '
                 'current row: row updated => every such attribute still has the value read; rowcount 0 <=> OptimisticCheckError, no '
                 'commit(), rollback(). An inductive kernel covers read/write tracking from arbitrary masks. Only "Confirmed over all '
                 'paths" counts.')
    E, A = core.Entity, core.Attribute
    rep.fn(E._save_updated_, E._construct_optimistic_criteria_, core.populate_criteria_list, E._attrs_with_bit_, E._save_,
           E.find_updated_attributes, E._update_dbvals_, A.__get__, A.__set__, core.EntityMeta._set_rbits, core.EntityMeta._fetch_objects,
           core.EntityMeta._find_in_db_, E._db_set_, core.SessionCache.flush, core.Database._exec_sql, core.Database._ast2sql,
           core.DBSessionContextManager._commit_or_rollback, dp.Converter, dp.RealConverter)
    os.environ.pop('C20_MUTANT', None)                            # canary hook (development only) is never active here
    T = 150 if tier == 'quick' else 900
    if tier == 'thorough': os.environ['C20_FULL'] = '1'          # read by checks/h_c20.py in the worker processes
    from checks import h_c20
    specs = [dict(module='checks.h_c20', fn=f, cond_timeout=T, path_timeout=T / 2, setup='setup') for f in h_c20.HARNESSES]
    # read tracking of attributes used by the condition of the query that returned the object, over an inheritance hierarchy
    # (EntityMeta._set_rbits): the harness of C21 observes the same read set through a re-fetch
    specs.append(dict(module='checks.h_c21', fn='sub_query_read', cond_timeout=T, path_timeout=T / 2, setup='setup'))
    specs.append(dict(module='checks.h_c21', fn='kw_query_read', cond_timeout=T, path_timeout=T / 2, setup='setup'))      # keyword filters are reads too
    if only: specs = [s for s in specs if only in s['fn']]
    rep.bounds = {
        'entity': 'one entity, integer key, 6 attributes: plain int, float, int optimistic=False, volatile int, nullable int, to-one reference',
        'masks': 'every subset R of attributes read and W of attributes then assigned (2^11 states; upd_w00..15 split them by the fixed '
                 'bits w_a,w_f,w_x,w_v for parallelism)' + ('' if tier == 'thorough' else '; quick tier main harnesses: v not read'),
        'values': 'loaded / assigned ints: any 32-bit value; current row ints: unbounded, NULL flags symbolic, row may be deleted; '
                  'reference keys concrete (7 loaded, 8 assigned, current symbolic); floats fixed except in upd_float',
        'row shapes': ('main harnesses: n and g loaded NULL or not' if tier == 'thorough' else 'main harnesses: n loaded NULL, g loaded non-NULL') +
                      ', non-NULL assignments; all NULL shapes of n and g in upd_nulls over the attributes n, g',
        'session modes': ['optimistic (main)', 'get_for_update in optimistic / non-optimistic session (a,n,g read; a,x,g written)',
                          'db_session(optimistic=False)', 'PostgreSQL provider + builder, pyformat parameters (a,n,g)'],
        'tracking kernel': 'bits of one attribute arbitrary, all others all-clear or all-set; step in {descriptor read, assignment, query read, save by flush()}',
        'two commits': 'upd_twice: a,n,g read; a,x assigned; commit(); a re-read or not; x,g assigned; arbitrary current row at the second UPDATE',
    }
    rep.assumptions = [
        'environment argument: concurrent sessions influence the session only through the row its UPDATE finds (arbitrary current row)',
        'fake DB-API in checks/h_c20.py: answers the load SELECT with the symbolic loaded row; evaluates the WHERE clause of the UPDATE text '
        '(conjunction of `col = param` / `col IS NULL`, anything else fails the harness) over the symbolic current row with SQL NULL semantics '
        'and sets cursor.rowcount accordingly; answers find_updated_attributes() with "no row" (error message only)',
        'pony.orm.core.time stubbed; pony.orm.core.deduplicate (dict-based interning of database values) replaced by the identity function',
        'Database._ast2sql runs outside the CrossHair tracer (its input holds no symbolic value); E._update_sql_cache_ cleared on every path',
        'mock Database (engine.env.mock_database) over a fake pool: no SQLite / PostgreSQL engine takes part in the symbolic part',
    ]
    rep.trusted = ['crosshair-tool 0.0.110', 'z3', 'reference statement S1-S5, SQL text parser and WHERE evaluator in checks/h_c20.py']
    ch.run_harnesses(rep, specs, classify)
    if not only or 'tie' in only:
        tie_two_connections(rep, tier)
    if not only or 'float' in only:
        float_kernel(rep)
    return rep


# -------------------------------------------------------------------------------------------------------------------
ATTRS = ('a', 'f', 'x', 'v', 'n', 'g')
CHECKED = ('a', 'n', 'g')
INIT = dict(a=5, f=1.5, x=6, v=3, n=None, g=7)
OTHER = dict(a=50, f=9.5, x=60, v=30, n=40, g=8)          # what the concurrent writer stores
MINE = dict(a=500, f=99.5, x=600, v=300, n=400, g=9)      # what the session under test assigns


def tie_two_connections(rep, tier):
    """Concrete tie (NOT solver-quantified): session A on a real file SQLite database reads R, a second real connection commits a
    change of one attribute, A assigns W and commits.  Expected by the property: changed in (R minus W) and check-enabled => A fails
    with OptimisticCheckError / UnrepeatableReadError and the row holds the other writer's data only; otherwise A's update is applied
    on top of the other writer's row."""
    import itertools, shutil, sqlite3, tempfile
    from pony.orm import Database, PrimaryKey, Required, Optional, Set, db_session
    from pony.orm.core import OptimisticCheckError, UnrepeatableReadError
    d = tempfile.mkdtemp(prefix='verif_c20_')
    try:
        db = Database()

        class G(db.Entity):
            id = PrimaryKey(int)
            items = Set('E')

        class E(db.Entity):
            id = PrimaryKey(int)
            a = Required(int)
            f = Required(float)
            x = Required(int, optimistic=False)
            v = Optional(int, volatile=True)
            n = Optional(int)
            g = Optional(G)
        path = os.path.join(d, 'c20.sqlite')
        db.bind('sqlite', path, create_db=True)
        db.generate_mapping(create_tables=True)
        other = sqlite3.connect(path, timeout=1)
        with db_session:
            for i in (7, 8, 9): G(id=i)
        rsets = [()] + [(a,) for a in ATTRS] + (list(itertools.combinations(ATTRS, 2)) if tier == 'thorough' else [('a', 'n'), ('n', 'g'), ('a', 'x')])
        wsets = [(a,) for a in ATTRS] + [('a', 'g'), ('x', 'n')]
        n = 0
        for R, W, changed in itertools.product(rsets, wsets, ATTRS):
            n += 1
            other.execute('DELETE FROM "E"'); other.commit()
            other.execute('INSERT INTO "E" ("id", "a", "f", "x", "v", "n", "g") VALUES (?, ?, ?, ?, ?, ?, ?)', (n,) + tuple(INIT[k] for k in ATTRS))
            other.commit()
            err = None
            try:
                with db_session:
                    g_mine = G[MINE['g']]              # fetched first: a later query would auto-flush pending assignments
                    obj = E[n]
                    for name in R: getattr(obj, name)
                    other.execute('UPDATE "E" SET "%s" = ? WHERE "id" = ?' % changed, (OTHER[changed], n)); other.commit()
                    for name in W: setattr(obj, name, g_mine if name == 'g' else MINE[name])
            except (OptimisticCheckError, UnrepeatableReadError) as e:
                err = type(e).__name__
            row = dict(zip(ATTRS, other.execute('SELECT "a", "f", "x", "v", "n", "g" FROM "E" WHERE "id" = ?', (n,)).fetchone()))
            must_fail = changed in R and changed not in W and changed in CHECKED
            base = dict(INIT); base[changed] = OTHER[changed]
            applied = dict(base); applied.update({k: MINE[k] for k in W})
            # a lost update = the session committed although a value it read (and did not overwrite) had changed
            good = (err is not None and row == base) if must_fail else (row == (applied if err is None else base))
            nm = 'tie: read %s, other connection changes %s, assign %s' % (','.join(R) or '-', changed, ','.join(W))
            if good: rep.add(Ob(nm, 'concrete-tie', HOLDS, detail=err or 'applied'))
            else:
                rep.add(Ob(nm, 'concrete-tie', CEX, reproduced=True, key=None, cex=dict(read=R, assign=W, changed=changed, error=err, row=row),
                           detail='expected %s; session raised %r, final row %r' % ('a failed session' if must_fail else 'the update applied', err, row),
                           replay='# see tie_two_connections in /verif/checks/c20.py: read=%r assign=%r changed=%r -> error=%r row=%r\nraise SystemExit(1)\n'
                                  % (R, W, changed, err, row)))
        other.close()
        db.disconnect()
    finally:
        shutil.rmtree(d, ignore_errors=True)


# -------------------------------------------------------------------------------------------------------------------
def float_kernel(rep):
    """The optimistic term of a float attribute (declared optimistic=True) is not `col = ?` but the builder's FLOAT_EQ text, an
    arithmetic closeness test.  z3 (reals) decides, for each dialect's real builder text parsed by engine/symsql/sqlparse.py and
    evaluated by sqlsem.py: FLOAT_EQ(a, b) <=> |a - b| <= 1e-14 * max(|a|, |b|) (the documented RELATIVE tolerance; equal values,
    zero included, match), and FLOAT_NE is its negation - so a concurrent change of a float by more than one part in 1e14 always
    fails the UPDATE, whatever the magnitude.  Reals stand in for IEEE doubles: rounding inside the SQL engine is outside."""
    import time, z3
    from engine import env
    from engine.symsql import sqlparse, sqlsem
    from engine.symsql.values import SV
    from engine.core import INCONCLUSIVE
    env.install_driver_stubs()
    A, B = z3.Real('a'), z3.Real('b')
    absr = lambda t: z3.If(t < 0, -t, t)
    big = z3.If(absr(A) >= absr(B), absr(A), absr(B))
    close = absr(A - B) <= z3.RealVal('1e-14') * big
    for pname, dialect in (('sqlite', 'SQLite'), ('postgres', 'PostgreSQL'), ('mysql', 'MySQL'), ('oracle', 'Oracle')):
        db = env.mock_database(pname)
        for op, want in (('FLOAT_EQ', close), ('FLOAT_NE', z3.Not(close))):
            name = 'float kernel: %s text of %s' % (op, dialect)
            t0 = time.time()
            try:
                sql = db.provider.ast2sql(['SELECT', ['ALL', [op, ['COLUMN', 't', 'a'], ['COLUMN', 't', 'b']]], ['FROM', ['t', 'TABLE', 'T']]])[0]
                tree = sqlparse.parse(sql, dialect, db.provider.paramstyle)
                expr = tree[1]['cols'][0][0]
                row = sqlsem.Row('T', 0, z3.BoolVal(True), {'a': SV('real', A), 'b': SV('real', B)})
                e = sqlsem.Env(sqlsem.Ctx({}, {}, dialect), rows={'t': row})
                v = sqlsem.ev(expr, e)
            except Exception as ex:
                rep.add(Ob(name, 'z3', INCONCLUSIVE, detail='not encodable: %s: %s' % (type(ex).__name__, str(ex)[:200]))); continue
            s = z3.Solver(); s.set('timeout', 60000)
            got = z3.And(z3.Not(v.n), v.t) if v.sort in ('bool', 'cond') else None
            if got is None:
                rep.add(Ob(name, 'z3', INCONCLUSIVE, detail='term of sort %s' % v.sort)); continue
            s.add(got != want)
            r = s.check()
            dt = time.time() - t0
            if r == z3.unsat: rep.add(Ob(name, 'z3', HOLDS, detail=sql.split('\n')[0][:200], time_s=dt))
            elif r == z3.sat:
                m = s.model()
                av, bv = m.eval(A, model_completion=True), m.eval(B, model_completion=True)
                rep.add(Ob(name, 'z3', CEX, detail='%s | a=%s b=%s: the text answers %s, relative closeness is %s' % (sql.split('\n')[0][:200], av, bv, m.eval(got), m.eval(want)),
                           cex={'a': str(av), 'b': str(bv), 'sql': sql}, reproduced=True, key=None, time_s=dt,
                           replay='# C20 float kernel: %s of %s on a=%s b=%s disagrees with |a-b| <= 1e-14*max(|a|,|b|)\nraise SystemExit(1)\n' % (op, dialect, av, bv)))
            else:
                rep.add(Ob(name, 'z3', INCONCLUSIVE, detail='solver: %s' % r, time_s=dt))
