"""C21 - repeated reads in a session return the same value or fail loudly.

CrossHair over whole real sessions on the recording fake DB-API of checks/h_c20.py: an object is loaded, attributes are
read / assigned through the descriptors, then a later query re-fetches the same row with a SYMBOLIC new value (the
environment argument replacing "all interleavings with concurrent committed writers") and the real `Entity._db_set_` /
`Attribute.db_set` decide.  See checks/h_c21.py for the reference statement T0-T3, the one-to-one link scenarios, bounds
and assumptions.  Concrete ties on a real file SQLite database with a second connection reproduce the findings.
"""
import os
from engine.core import Report, Ob, HOLDS, CEX
from engine import ch

FINDINGS = {
    'one-to-one-reverse-side-not-read-tracked':
        'P.partner = Optional(Q) without a column has read bit 0 (EntityMeta._initialize_bits_: `elif not attr.columns: bit = 0`), so '
        'Attribute.db_set never raises for it: after Q[10] was loaded by key, `p.partner` returns Q[10]; another session relinks; the '
        'session fetches Q[11] (or re-fetches Q[10]); `p.partner` now returns Q[11] (or None) without any error.',
    'unrepeatable-read-surfaces-as-assertion-error':
        '`p.partner` was read as None (Attribute.load stores None in _vals_ but nothing in _dbvals_); when a Q row linked to p is fetched '
        'later, Attribute.db_set fails in `assert old_val == old_dbval` with AssertionError((None, NOT_LOADED)) instead of '
        'UnrepeatableReadError; under `python -O` the assert vanishes and the second read silently returns the new Q object.',
    'keyerror-on-refetch-of-reassigned-reference':
        'a to-one reference was re-assigned (not read before) and is not flushed yet; a query issued while flushing is disabled '
        '(before_update / before_insert hooks run inside SessionCache.flush_disabled) re-fetches the row with a changed reference: '
        'Entity._db_set_ -> db_update_reverse -> Set.db_reverse_remove raises KeyError (the object was already removed from the old '
        'target\'s collection by the assignment) instead of UnrepeatableReadError.',
}


def classify(spec, cex):
    from checks import h_c21 as h
    try:
        r, why, log = h.explain(spec['fn'], **cex)
    except Exception:
        return None
    if r: return None
    text = ' ; '.join(why)
    fn = spec['fn']
    if fn.startswith('o2o') and why == ['raised AssertionError instead of UnrepeatableReadError']:
        return 'unrepeatable-read-surfaces-as-assertion-error'
    if fn == 'o2o_relink_untracked' and 'on the second read, no error' in text and len(why) == 1:
        return 'one-to-one-reverse-side-not-read-tracked'
    if fn == 'reload_g_pending' and why == ['T0: KeyError']:
        return 'keyerror-on-refetch-of-reassigned-reference'
    return None


def run(tier, seed, only=None):
    from pony.orm import core
    from pony.orm import dbapiprovider as dp
    rep = Report('C21', 'other',
                 'CrossHair symbolic execution of whole real sessions over a recording fake DB-API: an object is loaded, attributes are '
                 'read / assigned (symbolic flags = the bits of _rbits_/_wbits_, symbolic values), then a later query re-fetches the row '
                 'with a symbolic new value of one (two) column(s), with or without SessionCache.flush_disabled(); the real Entity._db_set_ / '
                 'Attribute.db_set run. Asserted for every non-volatile attribute that was read or assigned: the visible value afterwards is '
                 'the value visible before, or UnrepeatableReadError was raised; nothing else is raised; unobserved attributes show the new '
                 'value; an unchanged row raises nothing. One-to-one links: p.partner is observed, Q rows with a changed link column are '
                 'fetched, p.partner read again. Only "Confirmed over all paths" counts.')
    E, A = core.Entity, core.Attribute
    rep.fn(E._db_set_, A.db_set, A.db_update_reverse, A.load, A.__get__, A.__set__, A.parse_value, core.EntityMeta._fetch_objects,
           core.EntityMeta._parse_row_, core.EntityMeta._find_by_sql_, core.EntityMeta._initialize_bits_, core.EntityMeta._set_rbits,
           E._save_updated_, E._update_dbvals_, core.SessionCache.flush_disabled, core.Query._actual_fetch, dp.RealConverter.dbvals_equal, dp.Converter.dbvals_equal)
    os.environ.pop('C20_MUTANT', None)                            # canary hook (development only) is never active here
    T = 150 if tier == 'quick' else 900
    if tier == 'thorough': os.environ['C21_FULL'] = '1'          # read by checks/h_c21.py in the worker processes
    from checks import h_c21
    specs = [dict(module='checks.h_c21', fn=f, cond_timeout=T, path_timeout=T / 2, setup='setup') for f in h_c21.HARNESSES]
    if only: specs = [s for s in specs if only in s['fn']]
    rep.bounds = {
        'entity': 'E: integer key, plain int, float, int optimistic=False, volatile int, nullable int, to-one reference (reverse Set); P/Q: one-to-one, column on Q',
        'state before the reload': 'the changing attribute: read? x assigned?; all other attributes: all read? x all assigned? (reload_two: a and n, four flags)',
        'reload': 'one re-fetch of the same key; changed column value symbolic (any 32-bit int / finite float in [-1e9, 1e9] / NULL / reference 7, 8, NULL); '
                  'with and without flush_disabled',
        'row shapes': 'thorough: every NULL shape of n and g' if tier == 'thorough' else 'NULL shapes of the attribute under test symbolic, the others fixed (n NULL, g = G[7])',
        'inheritance': 'Student row known via base query on subclass attribute / subclass query / base query on base attribute / key; obj.gpa read or not; one changed column (age, gpa, course), any 32-bit value',
        'collections (concrete ties only)': 'one-to-many, fully loaded by iteration / len() / bool() / list(), item moved away by a second connection',
        'one-to-one': 'how p.partner became known (attribute load / Q[10] loaded by key), Q[10].p read or not, change in {link Q[11], unlink Q[10], both orders}',
    }
    rep.assumptions = [
        'environment argument: concurrent committed writers reach the session only through rows fetched by its later queries (arbitrary re-fetched row)',
        'fake DB-API of checks/h_c20.py; the UPDATE of an auto-flush is answered with rowcount 1 and the re-fetched row then starts from the flushed values',
        'pony.orm.core.time stubbed; pony.orm.core.deduplicate replaced by the identity function; Database._ast2sql runs outside the CrossHair tracer',
        'HashableDict.__hash__ (query cache keys, concrete values only) runs outside the CrossHair tracer (CrossHair models hash(str) as symbolic)',
        'known regions are split off into their own strict harnesses (reload_g_pending [repaired in /repo], o2o_relink_untracked, o2o_none_then_linked) so that the '
        'remaining harnesses still decide everything else',
    ]
    rep.trusted = ['crosshair-tool 0.0.110', 'z3', 'reference statement T0-T3 and the fake row server in checks/h_c21.py']
    ch.run_harnesses(rep, specs, classify)
    if not only or 'tie' in only:
        ties(rep)
    return rep


TIE_SRC = r"""
# Public-API scenarios on a real file SQLite database; a second DB-API connection plays the concurrent committed writer.
import os, shutil, sqlite3, sys, tempfile
from pony.orm import Database, PrimaryKey, Required, Optional, Set, db_session, commit


def run_case(name, qrows):
    d = tempfile.mkdtemp(prefix='verif_c21_')
    try:
        db = Database()

        class P(db.Entity):
            id = PrimaryKey(int)
            partner = Optional('Q')            # one-to-one, no column on this side

        class Q(db.Entity):
            id = PrimaryKey(int)
            p = Optional(P, column='p')

        class G(db.Entity):
            id = PrimaryKey(int)
            items = Set('E')

        class E(db.Entity):
            id = PrimaryKey(int)
            a = Required(int)
            g = Optional(G)

        class T(db.Entity):
            id = PrimaryKey(int)
            x = Required(int)

            def before_update(self):           # hooks run while flushing is disabled
                E.select()[:]

        class Team(db.Entity):
            id = PrimaryKey(int)
            members = Set('Member')

        class Member(db.Entity):
            id = PrimaryKey(int)
            team = Required(Team)
        path = os.path.join(d, 'c21.sqlite')
        db.bind('sqlite', path, create_db=True)
        db.generate_mapping(create_tables=True)
        other = sqlite3.connect(path, timeout=1)
        other.executemany('INSERT INTO "Team" VALUES (?)', [(1,), (2,)])
        other.executemany('INSERT INTO "Member" VALUES (?, ?)', [(1, 1), (2, 1)])
        other.executemany('INSERT INTO "P" VALUES (?)', [(1,), (2,)])
        other.executemany('INSERT INTO "G" VALUES (?)', [(7,), (8,)])
        other.execute('INSERT INTO "E" ("id", "a", "g") VALUES (1, 5, 7)')
        other.execute('INSERT INTO "T" VALUES (1, 0)')
        other.executemany('INSERT INTO "Q" VALUES (?, ?)', qrows)
        other.commit()

        def plain():
            e = E[1]; v1 = e.a
            other.execute('UPDATE "E" SET "a" = 6'); other.commit()
            E.select()[:]
            return v1, e.a

        def relink():
            p = P[1]; Q[10]; v1 = p.partner
            other.execute('UPDATE "Q" SET "p" = NULL WHERE "id" = 10'); other.execute('UPDATE "Q" SET "p" = 1 WHERE "id" = 11'); other.commit()
            Q[11]
            return v1, p.partner

        def none_then_linked():
            p = P[1]; v1 = p.partner
            other.execute('UPDATE "Q" SET "p" = 1 WHERE "id" = 10'); other.commit()
            Q[10]
            return v1, p.partner

        def pending_ref():
            g8 = G[8]; e = E[1]; t = T[1]; t.x += 1
            e.g = g8                            # re-assigned, not read, not flushed
            other.execute('UPDATE "E" SET "g" = NULL'); other.commit()
            commit()                            # T[1].before_update re-fetches E[1]
            return (e.g,)

        def collection(first):
            # a fully loaded one-to-many collection is observed by iteration; another connection moves Member[2] to Team[2];
            # the session re-fetches the Member rows and iterates again (outside the symbolic part of C21: concrete only)
            t = Team[1]
            if first == 'len': len(t.members)
            elif first == 'bool': bool(t.members)
            elif first == 'list': list(t.members)
            v1 = sorted(m.id for m in t.members)
            other.execute('UPDATE "Member" SET "team" = 2 WHERE "id" = 2'); other.commit()
            Member.select_by_sql('SELECT * FROM "Member"')
            return v1, sorted(m.id for m in t.members)

        def coll_iter(): return collection(None)
        def coll_len_iter(): return collection('len')
        def coll_bool_iter(): return collection('bool')
        def coll_list_iter(): return collection('list')
        try:
            with db_session: out = ('values',) + tuple(repr(v) for v in locals()[name]())
        except Exception as e:
            out = (type(e).__name__,)
        other.close()
        db.disconnect()
        return out
    finally:
        shutil.rmtree(d, ignore_errors=True)


def acceptable(out):
    # the same value on both reads, or a repeatable-read error
    return out[0] == 'UnrepeatableReadError' or (out[0] == 'values' and len(set(out[1:])) == 1)
"""

CASES = [('plain attribute changed by another connection, re-fetched', 'plain', [], None),
         ('one-to-one relinked by another connection', 'relink', [(10, 1), (11, None)], 'one-to-one-reverse-side-not-read-tracked'),
         ('one-to-one read as None, then linked by another connection', 'none_then_linked', [(10, None)], 'unrepeatable-read-surfaces-as-assertion-error'),
         ('re-assigned reference re-fetched by a before_update hook', 'pending_ref', [], 'keyerror-on-refetch-of-reassigned-reference'),
         ('one-to-many collection observed by iteration, item moved away by another connection', 'coll_iter', [], None),
         ('collection loaded by len(), observed by iteration, item moved away', 'coll_len_iter', [], None),
         ('collection loaded by bool(), observed by iteration, item moved away', 'coll_bool_iter', [], None),
         ('collection loaded by list(), observed by iteration, item moved away', 'coll_list_iter', [], None)]


def ties(rep):
    """Concrete ties (NOT solver-quantified) on a real file SQLite database with a second connection: the plain repeatable-read
    case and public-API reproductions of the three findings.  The replay of a failing tie is the same code as a stand-alone script."""
    ns = {}
    exec(compile(TIE_SRC, '<c21 ties>', 'exec'), ns)
    for title, name, qrows, key in CASES:
        out = ns['run_case'](name, qrows)
        nm = 'tie: ' + title
        if ns['acceptable'](out): rep.add(Ob(nm, 'concrete-tie', HOLDS, detail=repr(out)))
        else:
            rep.add(Ob(nm, 'concrete-tie', CEX, reproduced=True, key=key, cex={'scenario': name, 'outcome': list(out)},
                       detail='%s -> %r; expected the same value twice or UnrepeatableReadError. %s' % (title, out, FINDINGS.get(key, '')),
                       replay=TIE_SRC + '\nout = run_case(%r, %r)\nprint(%r, "->", out)\nsys.exit(0 if acceptable(out) else 1)\n' % (name, qrows, title)))
