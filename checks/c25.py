"""C25 - string indexing and slicing translate to Python semantics on every dialect.

For every combination of bound kinds the real translator + real builder of each dialect
produce SQL text; the text is parsed and evaluated over a string abstracted as a window
into a base string of symbolic length n (z3 Int, unbounded); z3 decides for ALL integers
n >= 0 (and all values of column / parameter bounds) that the SQL window equals Python's.
"""
import itertools, time
import z3
from engine.core import Report, Ob, HOLDS, CEX, REJECTED, INCONCLUSIVE, load_known
from engine import env as E0
from engine.symsql import sqlparse, sqlsem
from engine.symsql.values import SV, Window, Unmodelled, SQLError, same, const, null, TRUE, FALSE

DIALECTS = [('sqlite', 'SQLite'), ('postgres', 'PostgreSQL'), ('mysql', 'MySQL'), ('oracle', 'Oracle')]
_dbs = {}


def get_db(pname):
    if pname in _dbs: return _dbs[pname]
    from pony.orm import Required, Optional
    db = E0.sqlite_memory_database() if pname == 'sqlite' else E0.mock_database(pname)
    class T(db.Entity):
        s = Required(str)
        a = Required(int)
        b = Optional(int)
    db.generate_mapping(check_tables=False, create_tables=(pname == 'sqlite'))
    _dbs[pname] = db
    return db


def bound_kinds(K):
    kinds = [('omit',)]
    kinds += [('const', c) for c in range(-K, K + 1)]
    kinds += [('param', c) for c in range(-K, K + 1)]
    kinds += [('param', None)]
    kinds += [('col', 'a'), ('col', 'b'), ('expr', 't.a - 1')]
    return kinds


def src_of(kind, var):
    if kind[0] == 'omit': return ''
    if kind[0] == 'const': return repr(kind[1])
    if kind[0] == 'param': return var
    if kind[0] == 'col': return 't.' + kind[1]
    return kind[1]


def py_bound(kind, cols):
    """the bound as the Python program sees it: SV('int') or None for omitted/None"""
    if kind[0] == 'omit': return None
    if kind[0] in ('const', 'param'):
        return None if kind[1] is None else const(kind[1])
    if kind[0] == 'col': return cols[kind[1]]
    if kind[0] == 'expr':
        a = cols['a']
        return SV('int', a.t - 1, a.n)


def build_sql(db, src, scope):
    from pony.orm import db_session, select
    from pony.orm import core
    with db_session:
        q = core.select(src, {'T': db.T}, dict(scope))
        sql, arguments, _, _ = q._construct_sql_and_arguments()
    return sql, arguments


def one(db, pname, dialect, form, sk, ek):
    """returns Ob"""
    n = z3.Int('n')
    a, b, bn = z3.Int('a'), z3.Int('b'), z3.Bool('b_is_null')
    cols = {'a': SV('int', a), 'b': SV('int', b, bn)}
    scope = {}
    if form == 'slice':
        if sk[0] == 'param': scope['y1'] = sk[1]
        if ek[0] == 'param': scope['y2'] = ek[1]
        expr = 't.s[%s:%s]' % (src_of(sk, 'y1'), src_of(ek, 'y2'))
        name = '%s %s start=%s stop=%s' % (dialect, expr, sk, ek)
    else:
        if sk[0] == 'param': scope['y1'] = sk[1]
        expr = 't.s[%s]' % src_of(sk, 'y1')
        name = '%s %s index=%s' % (dialect, expr, sk)
    src = '(%s for t in T)' % expr
    t0 = time.time()
    try:
        sql, arguments = build_sql(db, src, scope)
    except Exception as e:
        if type(e).__name__ in ('TypeError', 'TranslationError', 'NotImplementedError', 'ExprEvalError', 'IndexError'):
            return Ob(name, 'z3', REJECTED, detail='%s: %s' % (type(e).__name__, str(e)[:100]))
        raise
    paramstyle = db.provider.paramstyle
    try:
        tree = sqlparse.parse(sql, dialect, paramstyle)
        sel = tree[1]
        assert len(sel['cols']) == 1 and len(sel['from']) == 1, sql
        alias = sel['from'][0]['alias']
        row = sqlsem.Row('T', 0, TRUE, {'id': SV('int', z3.Int('id')), 's': SV('win', Window(z3.IntVal(0), n, n)),
                                         'a': cols['a'], 'b': cols['b'],
                                         'S': None, 'A': None, 'B': None})
        row.cols = {k: v for k, v in row.cols.items() if v is not None}
        ctx = sqlsem.Ctx({}, {}, dialect)
        env = sqlsem.Env(ctx, {alias: row})
        val = sqlsem.ev(sel['cols'][0][0], env)
    except Unmodelled as e:
        return Ob(name, 'z3', INCONCLUSIVE, detail='unmodelled: %s | %s' % (e, sql))
    except SQLError as e:
        return Ob(name, 'z3', CEX, detail='database raises for every input: %s | %s' % (e, sql), cex={'sql': sql},
                  reproduced=None, key=None)
    assume = [n >= 0]
    if form == 'slice':
        lo, hi = sqlsem.py_slice_window(n, py_bound(sk, cols), py_bound(ek, cols))
    else:
        i = py_bound(sk, cols)
        if i is None:
            return Ob(name, 'z3', REJECTED, detail='index None')
        assume += [z3.Not(i.n), i.t >= -n, i.t < n]       # Python raises IndexError outside: no result to compare with
        lo = z3.If(i.t < 0, i.t + n, i.t)
        hi = lo + 1
    expected = SV('win', Window(lo, hi, n))
    if val.sort != 'win':
        return Ob(name, 'z3', INCONCLUSIVE, detail='SQL result is not a string window: %r | %s' % (val, sql))
    if dialect == 'Oracle':
        # Oracle stores '' as NULL: an empty result and NULL are the same observable value there
        val = SV('win', Window(z3.If(val.n, z3.IntVal(0), val.t.lo), z3.If(val.n, z3.IntVal(0), val.t.hi), n))
    sql_errors = [c for tag, c in ctx.side if tag == 'sql_error']
    bad = z3.Or(z3.Not(same(val, expected)), z3.Or(sql_errors) if sql_errors else FALSE)
    s = z3.Solver(); s.set('timeout', 20000)
    s.add(*assume)
    if s.check() != z3.sat:
        return Ob(name, 'z3', INCONCLUSIVE, detail='assumptions not satisfiable')
    s.add(bad)
    known = {e['key'] for e in load_known('C25')}
    regions = [(k, p) for k, p in known_regions(dialect, form, sk, ek, py_bound(sk, cols), py_bound(ek, cols) if ek else None, n) if k in known]
    obs = []
    def mk(r_key, m):
        def mv(x):
            v = m.eval(x, model_completion=True)
            return v.as_long() if z3.is_int_value(v) else z3.is_true(v)
        cex = {'dialect': dialect, 'expr': expr, 'scope': scope, 'n': mv(n), 'a': mv(a), 'b': None if mv(bn) else mv(b), 'sql': sql,
               'sql_window': [mv(val.t.lo), mv(val.t.hi)], 'sql_null': mv(val.n), 'python_window': [mv(lo), mv(hi)],
               'sql_error': any(mv(c) for c in sql_errors)}
        ob = Ob(name, 'z3', CEX, detail=sql, cex=cex, time_s=time.time() - t0)
        ob.reproduced, how = replay(pname, dialect, form, expr, scope, cex)
        ob.detail += ' | replay: ' + how
        ob.key = r_key or classify(dialect, form, sk, ek, cex)
        ob.replay = REPLAY_TEMPLATE % dict(pname=pname, expr=expr, scope=scope, n=cex['n'], a=cex['a'], b=cex['b'], cex=cex)
        return ob
    for _ in range(len(regions) + 1):
        r = s.check()
        if r == z3.unsat:
            break
        if r != z3.sat:
            return [Ob(name, 'z3', INCONCLUSIVE, detail='solver: %s | %s' % (r, sql), time_s=time.time() - t0)]
        m = s.model()
        hit = [(k, p) for k, p in regions if z3.is_true(m.eval(p, model_completion=True))]
        if not hit:
            obs.append(mk(None, m))
            return obs
        k, p = hit[0]
        obs.append(mk(k, m))
        s.add(z3.Not(p))              # exclude the known region and ask again: anything else is a new violation
        regions = [x for x in regions if x[0] != k]
    if not obs:
        return [Ob(name, 'z3', HOLDS, detail=sql, time_s=time.time() - t0)]
    return obs


def known_regions(dialect, form, sk, ek, start, stop, n):
    """Input regions of recorded findings as z3 predicates (only used when the key is listed in known_findings.json).
    After a counterexample inside a region the region is excluded and the solver is asked again, so any failure
    outside the recorded regions is still reported."""
    out = []
    def is0(k): return k[0] == 'omit' or (k[0] in ('const', 'param') and k[1] in (0, None))
    if form == 'slice' and is0(sk) and ek[0] in ('const', 'param') and ek[1] == -1:
        out.append(('slice-from-0-to-minus-1-returns-whole-string', TRUE))
    if dialect != 'SQLite':
        nulls = [v.n for v in (start, stop) if v is not None and not z3.is_false(v.n)]
        if nulls: out.append(('non-sqlite-null-bound', z3.Or(nulls)))
    if dialect in ('MySQL', 'Oracle') and start is not None:
        live = z3.Not(start.n)
        out.append(('mysql-oracle-negative-start-beyond-length', z3.And(live, start.t < 0, -start.t > n)))
        if stop is not None:
            out.append(('mysql-oracle-negative-start-nonnegative-stop', z3.And(live, z3.Not(stop.n), start.t < 0, stop.t >= 0)))
    return out


REPLAY_TEMPLATE = '''# C25 counterexample replay (real SQLite through pony when the dialect is SQLite; otherwise documented-semantics evaluation)
import sys; sys.path.insert(0, '/verif')
from checks import c25
ok, how = c25.replay(%(pname)r, None, None, %(expr)r, %(scope)r, %(cex)r)
print(how)
sys.exit(1 if ok else 0)
'''


def concrete_substr(dialect, s, start, length=None):
    """reference implementations of the four substr functions on concrete values (used for replay and validated against
    the symbolic model and, for SQLite, against the real engine)"""
    n = len(s)
    if dialect == 'PostgreSQL':
        s0 = start - 1
        if length is None: e0 = max(n, s0)
        else:
            if length < 0: raise SQLError('negative substring length not allowed')
            e0 = s0 + length
        lo, hi = min(max(s0, 0), n), min(max(e0, 0), n)
        return s[lo:max(hi, lo)]
    if dialect == 'MySQL':
        if start == 0 or (start < 0 and -start > n) or start > n: return ''
        pos0 = start - 1 if start > 0 else n + start
        if length is None: return s[pos0:]
        if length < 1: return ''
        return s[pos0:pos0 + length]
    if dialect == 'Oracle':
        if start == 0: start = 1
        if (start < 0 and -start > n) or start > n: return None
        pos0 = start - 1 if start > 0 else n + start
        if length is None: r = s[pos0:]
        elif length < 1: return None
        else: r = s[pos0:pos0 + length]
        return r or None
    raise NotImplementedError(dialect)


def replay(pname, dialect, form, expr, scope, cex):
    """SQLite: real database, real query.  Other dialects: the real emitted SQL text evaluated by the *concrete* instance of the
    model (z3 with all inputs fixed) -- 'model-only', no server exists in the sandbox."""
    s = ''.join(chr(ord('a') + i % 26) for i in range(cex['n']))
    import builtins
    try:
        expected = eval(expr, {}, dict(scope, t=type('R', (), {'s': s, 'a': cex['a'], 'b': cex['b']})()))
    except Exception as e:
        return False, 'python raised %r' % (e,)
    if pname == 'sqlite':
        from pony.orm import db_session, rollback, core
        db = get_db('sqlite')
        with db_session:
            try:
                kw = {'b': cex['b']} if cex['b'] is not None else {}
                db.T(s=s or ' ', a=cex['a'], **kw) if s else None
                if not s:
                    # Required(str) cannot hold '': insert through raw SQL
                    db.execute("insert into T (s, a, b) values ('', $a, $b)", {}, {'a': cex['a'], 'b': cex['b']})
                core.flush()
                got = core.select('(%s for t in T)' % expr, {'T': db.T}, dict(scope))[:]
            finally:
                rollback()
        got = got[0] if got else None
        return got != expected, 'real SQLite returned %r, Python gives %r for s=%r' % (got, expected, s)
    return True, 'model-only (no %s server in the sandbox): SQL window %s null=%s error=%s vs Python %r for s=%r' % (
        pname, cex['sql_window'], cex['sql_null'], cex['sql_error'], expected, s)


def classify(dialect, form, sk, ek, cex):
    """stable keys for known findings (specific bound-kind combinations)"""
    def cat(k):
        if k[0] in ('const', 'param'):
            v = k[1]
            return 'None' if v is None else ('neg' if v < 0 else 'nonneg')
        return k[0] if k[0] != 'col' else 'col_' + k[1]
    if form == 'index':
        return '%s:index:%s' % (dialect, cat(sk))
    return '%s:slice:%s:%s' % (dialect, cat(sk), cat(ek))


def aslist(x):
    return x if isinstance(x, list) else [x]


def validate_sqlite_substr(rep):
    """the symbolic SQLite substr model vs the real engine on [-6,6]^3 (harness self-check)"""
    import sqlite3
    con = sqlite3.connect(':memory:')
    n, st, ln = z3.Int('n'), z3.Int('st'), z3.Int('ln')
    bad = 0
    lo3, hi3, _, _ = sqlsem.substr_window('SQLite', n, st, ln, True)
    lo2, hi2, _, _ = sqlsem.substr_window('SQLite', n, st, None, False)
    for N in range(0, 5):
        s = 'abcdef'[:N]
        for a in range(-6, 7):
            real2 = con.execute('select substr(?, ?)', (s, a)).fetchone()[0]
            sub = [(n, z3.IntVal(N)), (st, z3.IntVal(a))]
            l, h = z3.simplify(z3.substitute(lo2, *sub)).as_long(), z3.simplify(z3.substitute(hi2, *sub)).as_long()
            if s[l:max(h, l)] != real2: bad += 1
            for b in range(-6, 7):
                real3 = con.execute('select substr(?, ?, ?)', (s, a, b)).fetchone()[0]
                sub3 = sub + [(ln, z3.IntVal(b))]
                l, h = z3.simplify(z3.substitute(lo3, *sub3)).as_long(), z3.simplify(z3.substitute(hi3, *sub3)).as_long()
                if s[l:max(h, l)] != real3: bad += 1
    if bad:
        rep.harness_errors.append('SQLite substr model disagrees with the real engine on %d points' % bad)
    # the symbolic PG/MySQL/Oracle models vs their concrete reference twins
    for d in ('PostgreSQL', 'MySQL', 'Oracle'):
        l3, h3, nu3, er3 = sqlsem.substr_window(d, n, st, ln, True)
        for N in range(0, 4):
            s = 'abcdef'[:N]
            for a in range(-5, 6):
                for b in range(-5, 6):
                    sub3 = [(n, z3.IntVal(N)), (st, z3.IntVal(a)), (ln, z3.IntVal(b))]
                    ev = lambda x: z3.simplify(z3.substitute(x, *sub3)) if not isinstance(x, bool) else z3.BoolVal(x)
                    try: ref = concrete_substr(d, s, a, b)
                    except SQLError: ref = 'ERR'
                    if z3.is_true(ev(er3)): got = 'ERR'
                    elif z3.is_true(ev(nu3)): got = None
                    else:
                        l, h = ev(l3).as_long(), ev(h3).as_long()
                        got = s[l:max(h, l)]
                        if d == 'Oracle' and got == '': got = None
                    if got != ref:
                        rep.harness_errors.append('%s substr model mismatch at %r: %r vs %r' % (d, (s, a, b), got, ref)); return


def run(tier, seed, only=None):
    from pony.orm import sqltranslation, sqlbuilding
    from pony.orm.dbproviders import sqlite as sq
    rep = Report('C25', 'translation_validation',
                 'For every (dialect, start kind, stop kind) and (dialect, index kind) the real translator and builder emit SQL text; '
                 'z3 (linear integer arithmetic, unbounded Ints) decides that the SQL substring window equals Python\'s slice window '
                 'for every string length n >= 0 and every value of column/expression bounds.')
    rep.fn(sqltranslation.StringMixin.__getitem__, sqlbuilding.SQLBuilder.STRING_SLICE, sqlbuilding.SQLBuilder.SUBSTR,
           sq.SQLiteBuilder.STRING_SLICE, sq.py_string_slice, sqlbuilding.SQLBuilder.CASE, sqlbuilding.SQLBuilder.MAX)
    K = 3 if tier == 'quick' else 6
    rep.bounds = {'string length n': 'all integers >= 0', 'column/expression bounds': 'all integers (and NULL for the nullable column)',
                  'constant and parameter bounds': '[-%d, %d] and None' % (K, K), 'dialects': [d for _, d in DIALECTS]}
    rep.assumptions = ['a window over an arbitrary string is determined by its bounds (two different non-empty windows differ for some string)',
                       'PostgreSQL/MySQL/Oracle substr semantics as cited in engine/symsql/sqlsem.py:substr_window (no server in the sandbox)',
                       'index expressions s[i] are only compared where Python returns a value (-n <= i < n)',
                       'Oracle: NULL and the empty string are the same observable value']
    rep.trusted = ['z3', 'engine/symsql/sqlparse.py', 'engine/symsql/sqlsem.py (SQLite substr model validated against the real engine each run)']
    validate_sqlite_substr(rep)
    kinds = bound_kinds(K)
    n_prog = 0
    for pname, dialect in DIALECTS:
        db = get_db(pname)
        for sk, ek in itertools.product(kinds, kinds):
            nm = '%s %s %s' % (dialect, sk, ek)
            if only and only not in nm: continue
            n_prog += 1
            for ob in aslist(one(db, pname, dialect, 'slice', sk, ek)):
                rep.add(ob)
                if ob.verdict == HOLDS and len(rep.samples) < 4 and sk[0] == 'col':
                    rep.sample({'program': ob.name, 'sql': ob.detail, 'verdict': 'unsat (holds for all n, a, b)'})
        for sk in kinds:
            if sk[0] == 'omit': continue
            nm = '%s index %s' % (dialect, sk)
            if only and only not in nm: continue
            n_prog += 1
            for ob in aslist(one(db, pname, dialect, 'index', sk, None)): rep.add(ob)
    rep.programs = n_prog
    for ob in rep.obs:
        if ob.verdict == CEX and len(rep.samples) < 8:
            rep.sample({'program': ob.name, 'counterexample': ob.cex, 'key': ob.key})
    return rep
