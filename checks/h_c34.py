"""probe"""
import os
from engine.ch import ok

db = A = A2 = B = core = None
CTX = {}


class User(object):
    def __hash__(self): return 7
    def __repr__(self): return 'User()'


def setup():
    global db, A, A2, B, core
    if db is not None: return
    from engine import env
    from pony.orm import core as _core, PrimaryKey, Optional, Set
    core = _core
    db = env.mock_database('sqlite')

    class A(db.Entity):
        id = PrimaryKey(int)
        x = Optional(int)
        b = Optional('B')

    class A2(A):
        y = Optional(int)

    class B(db.Entity):
        id = PrimaryKey(int)
        a_set = Set('A')
    g = globals()
    g['A'], g['A2'], g['B'] = A, A2, B
    db.generate_mapping(check_tables=False)

    @core.user_groups_getter()
    def groups_of(user): return CTX['groups']

    @core.user_roles_getter()
    def roles_of(user, obj): return CTX['roles']

    @core.obj_labels_getter()
    def labels_of(obj): return CTX['labels']


def probe(p1: int, e1: int, g1: int, r1: bool, l1: bool, x1: int, ug1: bool, ug2: bool, ur: bool, ol: bool) -> bool:
    """
    pre: 0 <= p1 < 2 and 0 <= e1 < 3 and 0 <= g1 < 3 and 0 <= x1 < 3
    post: _
    """
    for E in (A, A2, B): E._access_rules_.clear()
    core.local.user_groups_cache.clear(); core.local.user_roles_cache.clear()
    with db.set_perms_for(*[(A,), (B,), (A, B)][e1]):
        kw = {}
        if g1: kw['group'] = ['g1', 'g2'][g1 - 1]
        if r1: kw['role'] = 'r'
        if l1: kw['label'] = 'l'
        rule = core.perm(['view', 'edit'][p1], **kw)
        if x1: rule.exclude([A, B][x1 - 1])
    ug = set()
    if ug1: ug.add('g1')
    if ug2: ug.add('g2')
    CTX['groups'] = ug
    CTX['roles'] = {'r'} if ur else None
    CTX['labels'] = 'l' if ol else None
    u = User()
    with core.db_session:
        try:
            a = A(id=1)
            got = core.can_view(u, a)
        finally:
            core.rollback()
    exp = (e1 != 1) and (g1 == 0 or [ug1, ug2][g1 - 1]) and (not r1 or ur) and (not l1 or ol)
    return ok(got == exp)
